//! C17: bitmap and TheDraw fonts survive every encoding the engine uses.
//!
//! Correspondence: real encoders/decoders vs `Model/Font.lean`, `Model/Tdf.lean` (bytes hashed with FNV).
//! Oracle: the round trip itself on the implementation (PSF2, raw, create_8, DCS font sequence, XBin/ADF/IDF/IcyDraw
//! embedding, TDF single + bundle), for every font in the property's domain.
use crate::fontgen::*;
use crate::pngwrap::b64;
use crate::util::*;
use icy_engine::{ansi, BitFont, Buffer, BufferParser, Caret, FontGlyph, FontType, SaveOptions, Size, TheDrawFont, SAUCE_FONT_NAMES};
use std::path::Path;

/// run `f` on its own thread; `None` if it does not finish within 20 s (the thread is abandoned)
fn with_timeout<T: Send + 'static>(f: impl FnOnce() -> T + Send + 'static) -> Option<T> {
    let (tx, rx) = std::sync::mpsc::channel();
    std::thread::spawn(move || {
        let _ = tx.send(f());
    });
    rx.recv_timeout(std::time::Duration::from_secs(20)).ok()
}

fn load_obs(run: &mut Run, input: &str, b: Vec<u8>) -> String {
    let n = b.len();
    match with_timeout(move || catch(|| BitFont::from_bytes("f", &b).map(|f| font_obs(&f, n <= 20000)))) {
        Some(Ok(Ok(o))) => o,
        Some(Ok(Err(_))) => "err".to_string(),
        Some(Err(_)) => "panic".to_string(),
        None => {
            run.oracle_fail("font_loader_hang", input, "BitFont::from_bytes did not return within 20 s");
            "hang".to_string()
        }
    }
}

// ------------------------------------------------------------------------------------------ bitmap fonts

struct FontCase {
    n: usize,
    h: usize,
    data: Vec<u8>,
    /// how the model is told about the font: "mk n h seed" or "mkx n h hex"
    model: String,
}

fn make_font(n: usize, h: usize, data: &[u8], name: &str) -> Option<BitFont> {
    if n == 256 {
        Some(BitFont::create_8(name, 8, h as u8, data))
    } else {
        let mut b = psf2_header(0, 32, n as u32, h as u32, h as u32, 8);
        b.extend(data);
        BitFont::from_bytes(name, &b).ok()
    }
}

fn glyph_hash(font: &BitFont) -> u64 {
    let n = font.length.max(0) as u32;
    let mut v: Vec<u64> = Vec::new();
    for g in glyph_dump(font, n) {
        match g {
            Some(r) => {
                v.push(1);
                v.extend(r.iter().map(|b| *b as u64));
            }
            None => v.push(0),
        }
    }
    fnv(v)
}

fn hash_res(r: Result<Result<Vec<u8>, ()>, String>) -> String {
    match r {
        Ok(Ok(d)) => format!("ok:{}:{}", d.len(), fnv(d.iter().map(|b| *b as u64))),
        Ok(Err(())) => "err".to_string(),
        Err(_) => "panic".to_string(),
    }
}

/// same dimensions, glyph count and bit-identical glyphs
fn same_font(a: &BitFont, b: &BitFont) -> Result<(), String> {
    if a.size != b.size {
        return Err(format!("size {} vs {}", a.size, b.size));
    }
    if a.length != b.length {
        return Err(format!("length {} vs {}", a.length, b.length));
    }
    if a.glyphs.len() != b.glyphs.len() {
        return Err(format!("glyph count {} vs {}", a.glyphs.len(), b.glyphs.len()));
    }
    for (k, g) in &a.glyphs {
        match b.glyphs.get(k) {
            Some(g2) if g2.data == g.data => {}
            Some(_) => return Err(format!("glyph {} differs", *k as u32)),
            None => return Err(format!("glyph {} missing", *k as u32)),
        }
    }
    Ok(())
}

fn has_magic(d: &[u8]) -> bool {
    d.len() >= 4 && ((d[0] == 0x36 && d[1] == 0x04) || d[0..4] == [0x72, 0xb5, 0x4a, 0x86])
}

/// the exact guard of the raw round trip (`Model/Font.lean: rawGuard`): no PSF1 magic; PSF2 magic only with the overlay header
fn raw_guard(d: &[u8], h: usize) -> bool {
    if d.len() < 4 {
        return true;
    }
    if d[0] == 0x36 && d[1] == 0x04 {
        return false;
    }
    if d[0..4] == [0x72, 0xb5, 0x4a, 0x86] {
        let rd = |o: usize| -> Option<u32> { d.get(o..o + 4).map(|b| u32::from_le_bytes(b.try_into().unwrap())) };
        return rd(4) == Some(0) && rd(8) == Some(0) && rd(16) == Some(256) && rd(20) == Some(h as u32) && rd(24) == Some(h as u32) && rd(28) == Some(8);
    }
    true
}

fn wf_font(f: &BitFont) -> bool {
    f.size.width == 8 && f.size.height >= 1 && f.glyphs.len() <= 55296 && f.glyphs.len() as i32 == f.length && (0..f.length as u32).all(|i| char::from_u32(i).and_then(|c| f.get_glyph(c)).map(|g| g.data.len() as i32 == f.size.height).unwrap_or(false))
}

fn embed_roundtrip(font: &BitFont, ext: &str, compress: bool) -> Result<Result<(Vec<u8>, BitFont), String>, String> {
    let font = font.clone();
    let ext = ext.to_string();
    catch(std::panic::AssertUnwindSafe(move || {
        let mut buf = Buffer::new((80, 2));
        buf.set_font(0, font);
        if ext == "adf" || ext == "idf" {
            buf.ice_mode = icy_engine::IceMode::Ice;
        }
        let mut o = SaveOptions::new();
        o.lossles_output = true;
        o.compress = compress;
        let bytes = buf.to_bytes(&ext, &o).map_err(|e| format!("save: {e}"))?;
        let name = format!("a.{ext}");
        let back = Buffer::from_bytes(Path::new(&name), false, &bytes).map_err(|e| format!("load: {e}"))?;
        back.get_font(0).cloned().map(|f| (bytes, f)).ok_or_else(|| "no font 0 after load".to_string())
    }))
}

fn dcs_roundtrip(font: &BitFont, slot: usize) -> Result<Option<BitFont>, String> {
    let s = font.encode_as_ansi(slot);
    catch(std::panic::AssertUnwindSafe(move || {
        let mut buf = Buffer::create((80, 25));
        buf.is_terminal_buffer = true;
        let mut caret = Caret::default();
        let mut p = ansi::Parser::default();
        for c in s.chars() {
            let _ = p.print_char(&mut buf, 0, &mut caret, c);
        }
        buf.get_font(slot).cloned()
    }))
}

fn font_case(run: &mut Run, input: &str, fc: &FontCase, name: &str, prebuilt: Option<BitFont>) {
    let Some(font) = prebuilt.or_else(|| make_font(fc.n, fc.h, &fc.data, name)) else {
        run.oracle_fail("font_construction", input, "could not construct the font through the public API");
        return;
    };
    run.count(&format!("bitfont n={} h={}", fc.n, if fc.h <= 8 { "1..8" } else if fc.h <= 16 { "9..16" } else { "17..32" }));
    run.nontrivial(fnv(fc.data.iter().map(|b| *b as u64).chain([fc.n as u64, fc.h as u64])));
    let m = &fc.model;
    // --- correspondence with the model
    run.case(&format!("font {m} glyphs"), &format!("{} {} {} {}", font.size.width, font.size.height, font.length, glyph_hash(&font)));
    let u8d = catch(std::panic::AssertUnwindSafe(|| font.convert_to_u8_data()));
    let magic = u8d.as_ref().map(|d| has_magic(d)).unwrap_or(false);
    run.case(&format!("font {m} wf"), &format!("{} {}", wf_font(&font), !magic));
    // the recorded finding is keyed by the EXACT guard: a failure of data the guard admits is a new violation
    let unguarded = fc.n == 256 && u8d.as_ref().map(|d| !raw_guard(d, fc.h)).unwrap_or(false);
    if fc.n == 256 && fc.h >= 1 {
        run.case(&format!("font {m} guard"), &format!("{}", !unguarded));
    }
    // one glyph through the clipboard encoding
    for k in [0u32, 65, 255, (fc.n as u32).saturating_sub(1), fc.n as u32] {
        let obs = match char::from_u32(k).and_then(|c| font.get_clipboard_data(c)) {
            Some(d) => match catch(|| icy_engine::Glyph::from_clipbard_data(&d)) {
                Ok((size, g)) => {
                    if wf_font(&font) && (size != font.size || Some(&g) != char::from_u32(k).and_then(|c| font.get_glyph(c))) {
                        run.oracle_fail("clip_rt", input, &format!("glyph {k} through get_clipboard_data / from_clipbard_data comes back different"));
                    }
                    format!("{}:{} {} {} {}", d.len(), fnv(d.iter().map(|b| *b as u64)), size.width, size.height, fnv(g.data.iter().map(|b| *b as u64)))
                }
                Err(_) => "panic".to_string(),
            },
            None => "none".to_string(),
        };
        run.case(&format!("font {m} clip {k}"), &obs);
    }
    let psf2 = catch(std::panic::AssertUnwindSafe(|| font.to_psf2_bytes().map_err(|_| ())));
    run.case(&format!("font {m} psf2"), &hash_res(psf2.clone()));
    run.case(&format!("font {m} u8"), &hash_res(u8d.clone().map(Ok)));
    let slot = (fc.data.first().copied().unwrap_or(0) as usize % 40) + 1;
    if fc.n == 256 {
        let s = catch(std::panic::AssertUnwindSafe(|| font.encode_as_ansi(slot).into_bytes()));
        run.case(&format!("font {m} dcs {slot}"), &hash_res(s.map(Ok)));
    }
    if !wf_font(&font) {
        return;
    }
    // --- oracle: the round trips
    let psf2_file = if fc.h % 8 == 0 { psf2.clone() } else { Err(String::new()) };
    match psf2 {
        Ok(Ok(bytes)) => match catch(|| BitFont::from_bytes("x", &bytes)) {
            Ok(Ok(back)) => {
                if let Err(e) = same_font(&font, &back) {
                    run.oracle_fail("psf2_rt", input, &format!("PSF2 round trip: {e}"));
                }
            }
            Ok(Err(e)) => run.oracle_fail("psf2_rt", input, &format!("PSF2 bytes rejected on read-back: {e}")),
            Err(l) => run.oracle_fail("psf2_rt", input, &format!("panic at {} reading PSF2 bytes back", panic_site(&l))),
        },
        _ => run.oracle_fail("psf2_rt", input, "to_psf2_bytes failed on a complete font"),
    }
    // PSF2 bytes through a file and `BitFont::load`
    if let Ok(Ok(bytes)) = &psf2_file {
        let path = std::env::temp_dir().join(format!("c17_font_{}_{}.psf", std::process::id(), fnv(input.bytes().map(|b| b as u64))));
        if std::fs::write(&path, bytes).is_ok() {
            match catch(|| BitFont::load(&path)) {
                Ok(Ok(back)) => {
                    if let Err(e) = same_font(&font, &back) {
                        run.oracle_fail("psf2_rt", input, &format!("PSF2 file through BitFont::load: {e}"));
                    } else if back.path_opt.as_deref() != Some(path.as_path()) {
                        run.oracle_fail("psf2_rt", input, "BitFont::load does not record the path");
                    }
                }
                Ok(Err(e)) => run.oracle_fail("psf2_rt", input, &format!("PSF2 file rejected by BitFont::load: {e}")),
                Err(l) => run.oracle_fail("psf2_rt", input, &format!("panic at {} in BitFont::load", panic_site(&l))),
            }
            let _ = std::fs::remove_file(&path);
        }
    }
    if let Ok(d) = &u8d {
        // create_8 / from_basic (what XBin, ADF, IDF loaders call)
        let back = BitFont::create_8("x", 8, fc.h as u8, &d[..(256 * fc.h).min(d.len())]);
        if fc.n == 256 {
            if let Err(e) = same_font(&font, &back) {
                run.oracle_fail("basic_rt", input, &format!("convert_to_u8_data → create_8: {e}"));
            }
            // raw bytes through from_bytes (format sniffing!)
            match catch(|| BitFont::from_bytes("x", d)) {
                Ok(Ok(back)) => {
                    if let Err(e) = same_font(&font, &back) {
                        run.oracle_fail(if unguarded { "raw_font_magic_ambiguity" } else { "raw_rt" }, input, &format!("raw glyph data → from_bytes: {e}"));
                    } else if unguarded {
                        run.oracle_fail("raw_guard_not_exact", input, "raw glyph data outside rawGuard came back unchanged");
                    }
                }
                Ok(Err(e)) => run.oracle_fail(if unguarded { "raw_font_magic_ambiguity" } else { "raw_rt" }, input, &format!("raw glyph data rejected: {e}")),
                Err(l) => run.oracle_fail("raw_rt", input, &format!("panic at {}", panic_site(&l))),
            }
            // DCS font sequence through the real parser
            match dcs_roundtrip(&font, slot) {
                Ok(Some(back)) => {
                    if let Err(e) = same_font(&font, &back) {
                        run.oracle_fail(if unguarded { "raw_font_magic_ambiguity" } else { "dcs_rt" }, input, &format!("DCS CTerm:Font round trip: {e}"));
                    }
                }
                Ok(None) => run.oracle_fail(if unguarded { "raw_font_magic_ambiguity" } else { "dcs_rt" }, input, "DCS CTerm:Font sequence did not install a font"),
                Err(l) => run.oracle_fail("dcs_rt", input, &format!("panic at {}", panic_site(&l))),
            }
        }
    }
    // --- embedding in files
    let mut formats: Vec<(&str, &str, bool)> = vec![("icy", "icy_font_rt", true)];
    if fc.n == 256 {
        formats.push(("xb", "xb_font_rt", true));
        formats.push(("xb", "xb_font_rt", false));
        if fc.h == 16 {
            formats.push(("adf", "adf_font_rt", true));
            formats.push(("idf", "idf_font_rt", true));
        }
    }
    for (ext, key, compress) in formats {
        match embed_roundtrip(&font, ext, compress) {
            Ok(Ok((file, back))) => {
                if let Err(e) = same_font(&font, &back) {
                    // the recorded finding and nothing else: named like the default font, NO font block in the file, the
                    // built-in default glyphs come back (any other XBin font failure keeps its own key)
                    let key = if ext == "xb" && crate::fontbox::named_default_symptom(&font, &file, &back) { "xbin_font_named_default" } else { key };
                    run.oracle_fail(key, input, &format!("font embedded in .{ext} and read back: {e}"));
                }
            }
            Ok(Err(e)) => run.oracle_fail(key, input, &format!(".{ext}: {e}")),
            Err(l) => run.oracle_fail(key, input, &format!(".{ext}: panic at {}", panic_site(&l))),
        }
        run.count(&format!("embed .{ext}"));
    }
}

// ------------------------------------------------------------------------------------------ TheDraw fonts

#[derive(Clone)]
struct TGlyph {
    w: i32,
    h: i32,
    data: Vec<u8>,
}
#[derive(Clone)]
struct TFont {
    ty: u8,
    spaces: i32,
    name: String,
    table: Vec<Option<TGlyph>>,
}

fn tfont_desc(f: &TFont, sep: &str) -> String {
    let gl: Vec<String> = f.table.iter().map(|g| match g {
        None => "_".to_string(),
        Some(g) => format!("{}.{}.{}", g.w, g.h, hex(&g.data)),
    }).collect();
    format!("{}{sep}{}{sep}{}{sep}{}", f.ty, f.spaces, hex(f.name.as_bytes()), gl.join(","))
}

fn parse_tfont(s: &str) -> Option<TFont> {
    let f: Vec<&str> = s.split(':').collect();
    if f.len() != 4 {
        return None;
    }
    let mut table = Vec::new();
    for g in f[3].split(',') {
        if g == "_" {
            table.push(None);
        } else {
            let p: Vec<&str> = g.split('.').collect();
            if p.len() != 3 {
                return None;
            }
            table.push(Some(TGlyph { w: p[0].parse().ok()?, h: p[1].parse().ok()?, data: unhex(p[2]) }));
        }
    }
    if table.len() != 94 {
        return None;
    }
    Some(TFont { ty: f[0].parse().ok()?, spaces: f[1].parse().ok()?, name: String::from_utf8(unhex(f[2])).ok()?, table })
}

fn build_tdf(f: &TFont) -> TheDrawFont {
    let ty = match f.ty {
        0 => FontType::Outline,
        1 => FontType::Block,
        _ => FontType::Color,
    };
    let mut t = TheDrawFont::new(f.name.clone(), ty, f.spaces);
    for (i, g) in f.table.iter().enumerate() {
        if let Some(g) = g {
            t.set_glyph((33 + i as u8) as char, FontGlyph { size: Size::new(g.w, g.h), data: g.data.clone() });
        }
    }
    t
}

fn color_wf(d: &[u8]) -> bool {
    let mut i = 0;
    while i < d.len() {
        if d[i] == 0 {
            return false;
        }
        if d[i] == 13 {
            i += 1;
        } else {
            if i + 1 >= d.len() {
                return false;
            }
            i += 2;
        }
    }
    true
}

fn tdf_total(f: &TFont) -> usize {
    f.table.iter().flatten().map(|g| g.data.len() + 3).sum()
}

/// everything the round-trip theorem needs except the 64 KiB limit of the format
fn wf_tdf_but_size(f: &TFont) -> bool {
    f.name.len() <= 12
        && !f.name.as_bytes().contains(&0)
        && f.ty <= 2
        && (0..=40).contains(&f.spaces)
        && f.table.len() == 94
        && f.table.iter().flatten().all(|g| (0..=255).contains(&g.w) && (0..=255).contains(&g.h) && if f.ty == 2 { color_wf(&g.data) } else { !g.data.contains(&0) })
}

fn wf_tdf(f: &TFont) -> bool {
    wf_tdf_but_size(f) && tdf_total(f) <= 0xFFFF
}

fn ty_num(t: FontType) -> u8 {
    match t {
        FontType::Outline => 0,
        FontType::Block => 1,
        FontType::Color => 2,
    }
}

fn tdf_obs(t: &TheDrawFont) -> String {
    let has: String = (33u8..=126).map(|c| if t.has_char(c) { '1' } else { '0' }).collect();
    let re = catch(std::panic::AssertUnwindSafe(|| t.as_tdf_bytes().map_err(|_| ())));
    let mut gl: Vec<u64> = Vec::new();
    for i in 0..94 {
        match t.verif_glyph(i) {
            Some(g) => {
                gl.extend([1, g.size.width as u64, g.size.height as u64, g.data.len() as u64]);
                gl.extend(g.data.iter().map(|b| *b as u64));
            }
            None => gl.push(0),
        }
    }
    format!("name={} type={} spaces={} has={} height={} glyphs={} re={}", hex(t.name.as_bytes()), ty_num(t.font_type), t.spaces, has, t.get_font_height(), fnv(gl), hash_res(re))
}

fn dec_obs(bytes: &[u8]) -> (String, Option<Vec<TheDrawFont>>) {
    match catch(|| TheDrawFont::from_tdf_bytes(bytes)) {
        Ok(Ok(fs)) => {
            let mut s = format!("ok {}", fs.len());
            for f in &fs {
                s.push_str(" ; ");
                s.push_str(&tdf_obs(f));
            }
            (s, Some(fs))
        }
        Ok(Err(_)) => ("err".to_string(), None),
        Err(_) => ("panic".to_string(), None),
    }
}

fn same_tdf(orig: &TFont, orig_bytes_single: &[u8], back: &TheDrawFont) -> Result<(), String> {
    if back.name != orig.name {
        return Err(format!("name {:?} vs {:?}", back.name, orig.name));
    }
    if ty_num(back.font_type) != orig.ty {
        return Err("font type differs".into());
    }
    if back.spaces != orig.spaces {
        return Err(format!("letter spacing {} vs {}", back.spaces, orig.spaces));
    }
    for (i, g) in orig.table.iter().enumerate() {
        if back.has_char(33 + i as u8) != g.is_some() {
            return Err(format!("glyph {} defined-ness differs", i));
        }
    }
    // glyph sizes and data, read through the verification hook
    for (i, g) in orig.table.iter().enumerate() {
        match (g, back.verif_glyph(i)) {
            (None, None) => {}
            (Some(g), Some(b)) => {
                if b.size.width != g.w || b.size.height != g.h {
                    return Err(format!("glyph {i}: size {}x{} vs {}x{}", b.size.width, b.size.height, g.w, g.h));
                }
                if b.data != g.data {
                    return Err(format!("glyph {i}: data differs"));
                }
            }
            _ => return Err(format!("glyph {i} defined-ness differs")),
        }
    }
    if back.get_font_height() != orig.table.iter().flatten().next().map(|g| g.h).unwrap_or(0) {
        return Err("font height differs".into());
    }
    // and the re-encoding of the decoded font must be the original encoding
    match back.as_tdf_bytes() {
        Ok(b) if b == orig_bytes_single => Ok(()),
        Ok(_) => Err("glyph sizes/data differ (re-encoded bytes differ from the original encoding)".into()),
        Err(e) => Err(format!("re-encoding failed: {e}")),
    }
}

fn tdf_case(run: &mut Run, input: &str, f: &TFont) {
    let d = tfont_desc(f, " ");
    let t = build_tdf(f);
    run.count(&format!("tdf type={} glyphs={}", f.ty, match f.table.iter().flatten().count() { 0 => "0", 1..=10 => "1..10", 11..=93 => "11..93", _ => "94" }));
    run.nontrivial(fnv(d.bytes().map(|b| b as u64)));
    let wf_full = wf_tdf(f);
    run.case(&format!("tdf wf {d}"), &wf_full.to_string());
    // the glyph presence table through `has_char`, for codes on both sides of the table (code 127 panics: off-by-one guard)
    {
        let k = fnv(d.bytes().map(|b| b as u64));
        let codes: Vec<u8> = vec![0, 32, 33, 34 + (k % 90) as u8, 126, 127, 128, 255, (k >> 8) as u8];
        let obs: Vec<String> = codes.iter().map(|c| match catch(std::panic::AssertUnwindSafe(|| t.has_char(*c))) {
            Ok(b) => b.to_string(),
            Err(_) => "panic".to_string(),
        }).collect();
        run.case(&format!("tdf has {} {d}", codes.iter().map(|c| c.to_string()).collect::<Vec<_>>().join(",")), &format!("{} height={}", obs.join(" "), t.get_font_height()));
        // oracle: inside the table `has_char` says what was put in
        for (i, g) in f.table.iter().enumerate() {
            if catch(std::panic::AssertUnwindSafe(|| t.has_char(33 + i as u8))).ok() != Some(g.is_some()) {
                run.oracle_fail("tdf_presence", input, &format!("has_char({}) does not say whether glyph {i} is defined", 33 + i));
                break;
            }
        }
    }
    let enc = catch(std::panic::AssertUnwindSafe(|| t.as_tdf_bytes().map_err(|_| ())));
    run.case(&format!("tdf enc {d}"), &hash_res(enc.clone()));
    // a font too big for the 16-bit fields must be REFUSED by the writer; if it is written it has to read back
    let wf = wf_full || (wf_tdf_but_size(f) && matches!(enc, Ok(Ok(_))));
    if let Ok(Ok(bytes)) = &enc {
        let (obs, back) = dec_obs(bytes);
        run.case(&format!("tdf dec {}", hex(bytes)), &obs);
        if wf {
            match back {
                Some(fs) if fs.len() == 1 => {
                    if let Err(e) = same_tdf(f, bytes, &fs[0]) {
                        run.oracle_fail("tdf_rt", input, &format!("TDF round trip: {e}"));
                    }
                }
                Some(fs) => run.oracle_fail("tdf_rt", input, &format!("{} fonts read back from a single-font file", fs.len())),
                None => run.oracle_fail("tdf_rt", input, &format!("written TDF bytes not readable: {obs}")),
            }
        } else if let Some(fs) = back {
            // excluded point executed on the implementation: record what happens, no verdict
            let same = fs.len() == 1 && same_tdf(f, bytes, &fs[0]).is_ok();
            run.count(if same { "tdf excluded point: still round-trips" } else { "tdf excluded point: does not round-trip" });
            if same {
                // `tdf_rt_iff`: outside WfTdf the font does NOT come back — if it does, the domain is not exact
                run.oracle_fail("tdf_domain_not_exact", input, "a TheDraw font outside WfTdf came back unchanged");
            }
        }
    } else if wf_full {
        run.oracle_fail("tdf_rt", input, "as_tdf_bytes failed on a well-formed font");
    }
}

fn bundle_case(run: &mut Run, input: &str, fs: &[TFont]) {
    let ts: Vec<TheDrawFont> = fs.iter().map(build_tdf).collect();
    let d: Vec<String> = fs.iter().map(|f| tfont_desc(f, " ")).collect();
    run.count(&format!("tdf bundle of {}", match fs.len() { 1 => "1", 2..=5 => "2..5", 6..=33 => "6..33", _ => "34+" }));
    let enc = catch(std::panic::AssertUnwindSafe(|| TheDrawFont::create_font_bundle(&ts).map_err(|_| ())));
    run.case(&format!("tdf bundle {}", d.join(" ")), &hash_res(enc.clone()));
    let wf = fs.iter().all(wf_tdf);
    if let Ok(Ok(bytes)) = &enc {
        let (obs, back) = dec_obs(bytes);
        run.case(&format!("tdf dec {}", hex(bytes)), &obs);
        if wf {
            match back {
                Some(b) if b.len() == fs.len() => {
                    for (i, (f, bk)) in fs.iter().zip(b.iter()).enumerate() {
                        let single = build_tdf(f).as_tdf_bytes().unwrap_or_default();
                        if let Err(e) = same_tdf(f, &single, bk) {
                            run.oracle_fail("tdf_bundle_rt", input, &format!("font {i} of the bundle: {e}"));
                            break;
                        }
                    }
                }
                Some(b) => run.oracle_fail("tdf_bundle_rt", input, &format!("{} fonts read back from a bundle of {}", b.len(), fs.len())),
                None => run.oracle_fail("tdf_bundle_rt", input, &format!("written bundle not readable: {obs}")),
            }
        }
    } else if wf {
        run.oracle_fail("tdf_bundle_rt", input, "create_font_bundle failed on well-formed fonts");
    }
}

fn gen_glyph(rng: &mut Rng, ty: u8, big: bool) -> TGlyph {
    let w = rng.range(1, 30) as i32;
    let h = rng.range(1, 12) as i32;
    let (w, h) = if big { (30, 12) } else { (w, h) };
    let mut data = Vec::new();
    for y in 0..h {
        let row = if big { w } else { rng.range(0, w as i64) as i32 };
        for _ in 0..row {
            match ty {
                0 => data.push(*rng.pick(b"ABCDEFGHIJKLMNOPQR@ O&")),
                1 => data.push(*rng.pick(&[0x20u8, 0xDB, 0xDC, 0xDF, 0xDD, 0xDE, 0xB0, 0xB1, 0xB2, 0xF7, 0x01, 0xFF, 0x41])),
                _ => {
                    let mut c = rng.next() as u8;
                    if c == 0 || c == 13 {
                        c = 0x20;
                    }
                    data.push(c);
                    data.push(if rng.chance(1, 6) { 0 } else { rng.next() as u8 });
                }
            }
        }
        if y + 1 < h {
            data.push(13);
        }
    }
    TGlyph { w, h, data }
}

fn gen_name(rng: &mut Rng) -> String {
    let n = rng.range(0, 12) as usize;
    let mut s = String::new();
    for _ in 0..n {
        let c = match rng.below(12) {
            0 => 'é',
            1 => '€',
            2 => ' ',
            _ => rng.range(0x21, 0x7E) as u8 as char,
        };
        if s.len() + c.len_utf8() <= 12 {
            s.push(c);
        }
    }
    s
}

fn gen_tfont(rng: &mut Rng, max_glyphs: usize, big: bool) -> TFont {
    let ty = rng.below(3) as u8;
    let defined = match rng.below(6) {
        0 => 0,
        1 => 94,
        _ => rng.below(max_glyphs as u64 + 1) as usize,
    }
    .min(max_glyphs);
    let mut table: Vec<Option<TGlyph>> = vec![None; 94];
    let mut idx: Vec<usize> = (0..94).collect();
    for i in 0..defined {
        let j = i + rng.below((94 - i) as u64) as usize;
        idx.swap(i, j);
        table[idx[i]] = Some(gen_glyph(rng, ty, big));
    }
    TFont { ty, spaces: rng.range(0, 40) as i32, name: gen_name(rng), table }
}

// ------------------------------------------------------------------------------------------ driver

fn one(run: &mut Run, input: &str) {
    let (kind, rest) = input.split_once(':').unwrap_or((input, ""));
    let f: Vec<&str> = rest.split(':').collect();
    match kind {
        "bf" => {
            let (n, h, seed): (usize, usize, u64) = (f[0].parse().unwrap_or(256), f[1].parse().unwrap_or(16), f.get(2).and_then(|x| x.parse().ok()).unwrap_or(0));
            let fc = FontCase { n, h, data: fill_bytes(n * h, seed), model: format!("mk {n} {h} {seed}") };
            font_case(run, input, &fc, "custom", None);
        }
        "bfx" | "bfname" => {
            let (n, h): (usize, usize) = (f[0].parse().unwrap_or(256), f[1].parse().unwrap_or(16));
            let data = unhex(f[2]);
            let fc = FontCase { n, h, data: data.clone(), model: format!("mkx {n} {h} {}", hex(&data)) };
            font_case(run, input, &fc, if kind == "bfname" { "Codepage 437 English" } else { "custom" }, None);
        }
        "page" | "sauce" => {
            let k: usize = f[0].parse().unwrap_or(0);
            let font = if kind == "page" { BitFont::from_ansi_font_page(k) } else { BitFont::from_sauce_name(SAUCE_FONT_NAMES[k % SAUCE_FONT_NAMES.len()]) };
            match font {
                Ok(font) => {
                    let n = font.length as usize;
                    let h = font.size.height as usize;
                    let data = font.convert_to_u8_data();
                    let fc = FontCase { n, h, data: data.clone(), model: format!("mkx {n} {h} {}", hex(&data)) };
                    font_case(run, input, &fc, "", Some(font));
                }
                Err(e) => run.oracle_fail("builtin_font", input, &format!("built-in font does not load: {e}")),
            }
        }
        // loader robustness / decode correspondence on arbitrary bytes
        "fontbytes" => {
            let obs = load_obs(run, input, unhex(f[0]));
            run.case(&format!("font shape font {}", f[0]), &obs);
            run.count("fontbytes");
        }
        // PSF1 file: mode byte, char size, n glyphs (filler), `tail` further bytes (a unicode table / a partial glyph)
        "psf1f" => {
            let (mode, h, n, tail, seed): (u8, usize, usize, usize, u64) = (f[0].parse().unwrap_or(0), f[1].parse().unwrap_or(1), f[2].parse().unwrap_or(256), f[3].parse().unwrap_or(0), f[4].parse().unwrap_or(0));
            let mut b = vec![0x36, 0x04, mode, h as u8];
            let data = fill_bytes(n * h, seed);
            b.extend(&data);
            b.extend(vec![0xFF; tail]);
            let obs = load_obs(run, input, b.clone());
            run.case(&format!("font shape font {}", hex(&b)), &obs);
            run.count(&format!("psf1 file mode&1={} mode>>1={} glyphs={} tail={}", mode & 1, if mode >> 1 == 0 { "0" } else { "set" }, if n == 256 || n == 512 { n.to_string() } else { "other".into() }, if tail == 0 { "0" } else if tail < h { "<h" } else { ">=h" }));
            // oracle: a PSF1 file holding exactly the announced number of glyphs survives the engine's own encoding
            let announced = if mode & 1 == 1 { 512 } else { 256 };
            if n == announced && tail < h && h >= 1 {
                match catch(|| BitFont::from_bytes("p", &b)) {
                    Ok(Ok(font)) => {
                        let ok_shape = font.length as usize == n && font.glyphs.len() == n && font.size.height as usize == h && (0..n).all(|i| font.get_glyph(char::from_u32(i as u32).unwrap()).map(|g| g.data[..] == data[i * h..(i + 1) * h]).unwrap_or(false));
                        if !ok_shape {
                            run.oracle_fail("psf1_load", input, "a PSF1 file is not loaded as the glyphs it holds");
                        }
                        match catch(std::panic::AssertUnwindSafe(|| font.to_psf2_bytes().map_err(|_| ()).and_then(|p| BitFont::from_bytes("q", &p).map_err(|_| ())))) {
                            Ok(Ok(back)) => {
                                if let Err(e) = same_font(&font, &back) {
                                    run.oracle_fail("psf1_to_psf2_rt", input, &format!("PSF1 font through to_psf2_bytes / from_bytes: {e}"));
                                }
                            }
                            _ => run.oracle_fail("psf1_to_psf2_rt", input, "PSF1 font: to_psf2_bytes / from_bytes failed"),
                        }
                    }
                    _ => run.oracle_fail("psf1_load", input, "a PSF1 file with the announced number of glyphs is rejected"),
                }
            }
        }
        // PSF2 file: header size (padding of hs-32 bytes when hs > 32), flags, height, n glyphs, `tail` bytes behind the glyphs
        "psf2f" => {
            let (hs, flags, h, n, tail, seed): (u32, u32, usize, usize, usize, u64) = (f[0].parse().unwrap_or(32), f[1].parse().unwrap_or(0), f[2].parse().unwrap_or(1), f[3].parse().unwrap_or(256), f[4].parse().unwrap_or(0), f[5].parse().unwrap_or(0));
            let mut b = psf2_header(0, hs, n as u32, h as u32, h as u32, 8);
            b[12..16].copy_from_slice(&flags.to_le_bytes());
            b.extend(vec![0xEE; (hs as usize).saturating_sub(32)]);
            let data = fill_bytes(n * h, seed);
            b.extend(&data);
            b.extend(vec![0xFF; tail]);
            let obs = load_obs(run, input, b.clone());
            run.case(&format!("font shape font {}", hex(&b)), &obs);
            run.count(&format!("psf2 file hs={} flags={} tail={}", if hs == 32 { "32" } else if hs > 32 { ">32" } else { "<32" }, if flags == 0 { "0" } else { "set" }, u8::from(tail > 0)));
            if hs >= 32 && tail == 0 && h >= 1 && n >= 1 {
                match catch(|| BitFont::from_bytes("p", &b)) {
                    Ok(Ok(font)) => {
                        let ok_shape = font.length as usize == n && font.glyphs.len() == n && font.size.height as usize == h && (0..n).all(|i| font.get_glyph(char::from_u32(i as u32).unwrap()).map(|g| g.data[..] == data[i * h..(i + 1) * h]).unwrap_or(false));
                        if !ok_shape {
                            run.oracle_fail("psf2_headersize_rt", input, "a PSF2 file with a padded header / flags is not loaded as the glyphs it holds");
                        }
                    }
                    _ => run.oracle_fail("psf2_headersize_rt", input, "a PSF2 file with a padded header / flags is rejected"),
                }
            }
        }
        "fontdesc" => {
            // psf1/psf2/raw descriptors as in C10
            let kind2 = f[0];
            if let Some(b) = font_bytes(kind2, &f[1..]) {
                let obs = load_obs(run, input, b);
                run.case(&format!("font shape {} {}", kind2, f[1..].join(" ")), &obs);
                run.count("fontdesc");
            }
        }
        "basic" => {
            let h: usize = f[0].parse().unwrap_or(8);
            let b = unhex(f[1]);
            let r = catch(|| BitFont::create_8("x", 8, h as u8, &b));
            let obs = match r {
                Ok(font) => font_obs(&font, true),
                Err(_) => "panic".to_string(),
            };
            run.case(&format!("font basic {h} {}", f[1]), &obs);
            run.count("basic");
        }
        // DCS payload (text between ESC P and ESC \) fed through the real parser
        "dcsload" => {
            let payload = unhex(f[0]);
            let text: String = payload.iter().map(|b| *b as char).collect();
            let r = catch(std::panic::AssertUnwindSafe(|| {
                let mut buf = Buffer::create((80, 25));
                buf.is_terminal_buffer = true;
                buf.clear_font_table();
                let mut caret = Caret::default();
                let mut p = ansi::Parser::default();
                let mut last_err = false;
                for c in format!("\x1bP{text}\x1b\\").chars() {
                    last_err = p.print_char(&mut buf, 0, &mut caret, c).is_err();
                }
                let fonts: Vec<(usize, BitFont)> = buf.font_iter().map(|(k, v)| (*k, v.clone())).collect();
                (last_err, fonts)
            }));
            let obs = match r {
                Ok((true, _)) => "err".to_string(),
                Ok((false, fonts)) if fonts.len() == 1 => format!("slot {} {}", fonts[0].0, font_obs(&fonts[0].1, payload.len() <= 30000)),
                Ok((false, fonts)) => format!("fonts={}", fonts.len()),
                Err(_) => "panic".to_string(),
            };
            run.case(&format!("font dcsload {}", f[0]), &obs);
            run.count("dcsload");
        }
        "b64" => {
            let b = unhex(f[0]);
            run.case(&format!("font b64 {}", f[0]), &format!("{} true", hex(b64(&b).as_bytes())));
        }
        "tdf" => match parse_tfont(rest) {
            Some(t) => tdf_case(run, input, &t),
            None => run.count("unparsable tdf case"),
        },
        // compact descriptor: type:nglyphs:w:h:seed — every defined glyph is a full w x h block (deterministic filler)
        "tdfbig" => {
            let (ty, n, w, h, seed): (u8, usize, i32, i32, u64) = (f[0].parse().unwrap_or(2), f[1].parse().unwrap_or(94), f[2].parse().unwrap_or(30), f[3].parse().unwrap_or(12), f[4].parse().unwrap_or(0));
            let mut table: Vec<Option<TGlyph>> = vec![None; 94];
            let mut k = 0u64;
            for slot in table.iter_mut().take(n.min(94)) {
                let mut data = Vec::new();
                for y in 0..h {
                    for _ in 0..w {
                        k += 1;
                        let mut c = fill_byte(seed, k);
                        if c == 0 || c == 13 {
                            c = 0x41;
                        }
                        data.push(c);
                        if ty == 2 {
                            k += 1;
                            data.push(fill_byte(seed, k));
                        }
                    }
                    if y + 1 < h {
                        data.push(13);
                    }
                }
                *slot = Some(TGlyph { w, h, data });
            }
            let t = TFont { ty, spaces: 1, name: "Big".into(), table };
            tdf_case(run, input, &t);
        }
        "tdfb" => {
            let fs: Vec<TFont> = rest.split('|').filter_map(parse_tfont).collect();
            if !fs.is_empty() {
                bundle_case(run, input, &fs);
            }
        }
        // DCS sequence for a given slot number (any usize), through the real parser
        "dcsslot" => {
            let (slot, h, seed): (usize, usize, u64) = (f[0].parse().unwrap_or(0), f[1].parse().unwrap_or(16), f.get(2).and_then(|x| x.parse().ok()).unwrap_or(0));
            let data = fill_bytes(256 * h, seed);
            let font = BitFont::create_8("custom", 8, h as u8, &data);
            let s = catch(std::panic::AssertUnwindSafe(|| font.encode_as_ansi(slot).into_bytes()));
            run.case(&format!("font mk 256 {h} {seed} dcs {slot}"), &hash_res(s.map(Ok)));
            run.count("dcsslot");
            match dcs_roundtrip(&font, slot) {
                Ok(Some(back)) => {
                    if let Err(e) = same_font(&font, &back) {
                        run.oracle_fail(if raw_guard(&data, h) { "dcs_rt" } else { "raw_font_magic_ambiguity" }, input, &format!("DCS CTerm:Font round trip into slot {slot}: {e}"));
                    }
                }
                Ok(None) => run.oracle_fail(if raw_guard(&data, h) { "dcs_rt" } else { "raw_font_magic_ambiguity" }, input, &format!("DCS CTerm:Font sequence did not install a font in slot {slot}")),
                Err(l) => run.oracle_fail("dcs_rt", input, &format!("panic at {}", panic_site(&l))),
            }
        }
        // several DCS font sequences through ONE parser, back to back or separated by other traffic (text, a macro
        // definition, an OSC, a cursor move): what the ANSI writer emits for a buffer with several custom font slots.
        // Every slot must hold exactly the font that was sent to it.
        "dcsseq" => {
            let (k, sep, seed): (usize, usize, u64) = (f[0].parse().unwrap_or(2), f[1].parse().unwrap_or(0), f.get(2).and_then(|x| x.parse().ok()).unwrap_or(0));
            let seps = ["", "A", "\x1b[2;2H", "\x1bP1;0;0!zAB\x1b\\", "\x1b]8;;\x1b\\", "\r\n"];
            let sep_s = seps[sep % seps.len()].replace("\\x1b", "\x1b").replace("\\\\", "\\").replace("\\r", "\r").replace("\\n", "\n");
            let hs = [16usize, 8, 14, 1, 32, 19];
            let fonts: Vec<(usize, BitFont)> = (0..k.clamp(1, 6)).map(|i| (i + 1 + (seed as usize % 3) * 10, BitFont::create_8(format!("f{i}"), 8, hs[(i + seed as usize) % 6] as u8, &fill_bytes(256 * hs[(i + seed as usize) % 6], seed + 7 * i as u64)))).collect();
            let mut stream = String::new();
            for (slot, font) in &fonts {
                stream.push_str(&font.encode_as_ansi(*slot));
                stream.push_str(&sep_s);
            }
            run.count("dcsseq");
            let got = catch(std::panic::AssertUnwindSafe(|| {
                let mut buf = Buffer::create((80, 25));
                buf.is_terminal_buffer = true;
                let mut caret = Caret::default();
                let mut p = ansi::Parser::default();
                for c in stream.chars() {
                    let _ = p.print_char(&mut buf, 0, &mut caret, c);
                }
                fonts.iter().map(|(slot, _)| buf.get_font(*slot).cloned()).collect::<Vec<_>>()
            }));
            match got {
                Ok(v) => {
                    for ((slot, font), back) in fonts.iter().zip(v) {
                        let guarded = raw_guard(&font.convert_to_u8_data(), font.size.height as usize);
                        match back {
                            Some(b) => {
                                if let Err(e) = same_font(font, &b) {
                                    run.oracle_fail(if guarded { "dcs_rt" } else { "raw_font_magic_ambiguity" }, input, &format!("font sent to slot {slot} as sequence in a stream of {k} font sequences: {e}"));
                                }
                            }
                            None => run.oracle_fail(if guarded { "dcs_rt" } else { "raw_font_magic_ambiguity" }, input, &format!("font sent to slot {slot} in a stream of {k} font sequences was not installed")),
                        }
                    }
                }
                Err(l) => run.oracle_fail("dcs_rt", input, &format!("panic at {}", panic_site(&l))),
            }
        }
        // font pages / SAUCE names that do not exist are errors, not panics and not some other font
        "nofont" => {
            let k: usize = f[0].parse().unwrap_or(43);
            match catch(|| (BitFont::from_ansi_font_page(k).is_err(), BitFont::from_sauce_name(&format!("no such font {k}")).is_err())) {
                Ok((true, true)) => {}
                Ok(_) => run.oracle_fail("builtin_font", input, "a font page / SAUCE font name that does not exist gave a font"),
                Err(l) => run.oracle_fail("builtin_font", input, &format!("panic at {}", panic_site(&l))),
            }
            run.count("nofont");
        }
        // a colour font whose glyph data ends exactly `L` bytes + 3 behind 89 maximal glyphs: totals 65534 / 65535 / 65536
        "tdfedge" => {
            let l: usize = f[0].parse().unwrap_or(206);
            let mut table: Vec<Option<TGlyph>> = vec![None; 94];
            let mut k = 0u64;
            let mut cell = |data: &mut Vec<u8>| {
                k += 1;
                let mut c = fill_byte(7, k);
                if c == 0 || c == 13 {
                    c = 0x41;
                }
                data.push(c);
                k += 1;
                data.push(fill_byte(7, k));
            };
            for slot in table.iter_mut().take(89) {
                let mut data = Vec::new();
                for y in 0..12 {
                    for _ in 0..30 {
                        cell(&mut data);
                    }
                    if y + 1 < 12 {
                        data.push(13);
                    }
                }
                *slot = Some(TGlyph { w: 30, h: 12, data });
            }
            // last glyph: `l` bytes = 2 * cells + (rows - 1) carriage returns, rows of at most 30 cells
            let rows = if l % 2 == 0 { 5 } else { 6 };
            let cells = (l - (rows - 1)) / 2;
            let mut data = Vec::new();
            let mut left = cells;
            for y in 0..rows {
                let n = left.min(30).min(left.div_ceil(rows - y));
                for _ in 0..n {
                    cell(&mut data);
                }
                left -= n;
                if y + 1 < rows {
                    data.push(13);
                }
            }
            table[93] = Some(TGlyph { w: 30, h: rows as i32, data });
            let t = TFont { ty: 2, spaces: 2, name: "Edge".into(), table };
            run.count(&format!("tdf total glyph data {}", tdf_total(&t)));
            tdf_case(run, input, &t);
        }
        // a bundle through a file and `TheDrawFont::load`
        "tdfload" => {
            let fs: Vec<TFont> = rest.split('|').filter_map(parse_tfont).collect();
            let ts: Vec<TheDrawFont> = fs.iter().map(build_tdf).collect();
            if let Ok(bytes) = TheDrawFont::create_font_bundle(&ts) {
                let path = std::env::temp_dir().join(format!("c17_{}_{}.tdf", std::process::id(), fnv(input.bytes().map(|b| b as u64))));
                if std::fs::write(&path, &bytes).is_ok() {
                    match catch(|| TheDrawFont::load(&path)) {
                        Ok(Ok(back)) if back.len() == fs.len() => {
                            for (i, (f0, bk)) in fs.iter().zip(back.iter()).enumerate() {
                                let single = build_tdf(f0).as_tdf_bytes().unwrap_or_default();
                                if wf_tdf(f0) {
                                    if let Err(e) = same_tdf(f0, &single, bk) {
                                        run.oracle_fail("tdf_bundle_rt", input, &format!("font {i} of the bundle file read by TheDrawFont::load: {e}"));
                                    }
                                }
                            }
                        }
                        Ok(Ok(back)) => run.oracle_fail("tdf_bundle_rt", input, &format!("{} fonts read by TheDrawFont::load from a bundle file of {}", back.len(), fs.len())),
                        Ok(Err(e)) => {
                            if fs.iter().all(wf_tdf) {
                                run.oracle_fail("tdf_bundle_rt", input, &format!("bundle file rejected by TheDrawFont::load: {e}"));
                            }
                        }
                        Err(l) => run.oracle_fail("tdf_bundle_rt", input, &format!("panic at {} in TheDrawFont::load", panic_site(&l))),
                    }
                    let _ = std::fs::remove_file(&path);
                }
            }
            run.count("tdfload");
        }
        // whole character streams through the real parser vs `Model/FontDcs.lean` (the DCS framing of `CTerm:Font:`)
        "dcsrun" => {
            let stream = String::from_utf8_lossy(&unhex(f[0])).to_string();
            crate::fontdcs::stream_case(run, input, &stream);
            run.count("dcs stream literal");
        }
        "dcsr" => {
            let stream = crate::fontdcs::random_stream(f[0].parse().unwrap_or(0));
            crate::fontdcs::stream_case(run, input, &stream);
            run.count("dcs stream random units");
        }
        "dcsg" => crate::fontdcs::generated_case(run, input, f[0], f.get(1).and_then(|x| x.parse().ok()).unwrap_or(0)),
        "box" => crate::fontbox::file_case(run, input, &f),
        "icy" => crate::fontbox::icy_case(run, input, &f),
        "tdfraw" => {
            let b = unhex(f[0]);
            let (obs, _) = dec_obs(&b);
            run.case(&format!("tdf dec {}", f[0]), &obs);
            run.count(&format!("tdfraw:{}", obs.split(' ').next().unwrap_or("")));
        }
        _ => run.count("unknown case kind"),
    }
}

pub fn run(run: &mut Run, seed: u64, thorough: bool, replay: Option<&str>, corpus: &[String]) {
    if let Some(r) = replay {
        one(run, r.trim());
        return;
    }
    for c in corpus {
        one(run, c);
    }
    let mut rng = Rng::new(seed);
    let m = if thorough { 20 } else { 3 };
    // every height 1..=32, 256 glyphs; 512 glyphs for PSF2/IcyDraw
    for h in 1..=32usize {
        for _ in 0..m {
            one(run, &format!("bf:256:{h}:{}", rng.below(100000)));
        }
        if h % 4 == 0 || thorough {
            one(run, &format!("bf:512:{h}:{}", rng.below(100000)));
        }
        // truly random glyph bytes
        let d = rng.bytes(256 * h);
        one(run, &format!("bfx:256:{h}:{}", hex(&d)));
    }
    // glyph patterns: all zero, all ones, every byte value as row
    for h in [1usize, 8, 14, 16, 32] {
        one(run, &format!("bfx:256:{h}:{}", hex(&vec![0u8; 256 * h])));
        one(run, &format!("bfx:256:{h}:{}", hex(&vec![0xFFu8; 256 * h])));
        let d: Vec<u8> = (0..256 * h).map(|i| (i / h) as u8).collect();
        one(run, &format!("bfx:256:{h}:{}", hex(&d)));
    }
    // every built-in font page and every SAUCE font
    for k in 0..=42 {
        one(run, &format!("page:{k}"));
    }
    for k in 0..SAUCE_FONT_NAMES.len() {
        one(run, &format!("sauce:{k}"));
    }
    // decoder correspondence on malformed / boundary inputs
    for t in ["-", "36", "3604", "360400", "36040008", "3604000141", "360401024142", "360400004142", "72b54a86", "72b54a8600000000", "00", "0000", "000000", "41", "5141"] {
        one(run, &format!("fontbytes:{t}"));
    }
    // the DCS sequences of DESIGN §5 / the integrator's list: 1 byte of font data, empty data
    for p in ["CTerm:Font:1:QQ==", "CTerm:Font:1:", "CTerm:Font:1:NgQ=", "CTerm:Font:1:NgQAAA==", "CTerm:Font:1:crVKhg=="] {
        one(run, &format!("dcsload:{}", hex(p.as_bytes())));
    }
    for _ in 0..40 * m {
        let h = rng.range(0, 20) as usize;
        let n = *rng.pick(&[0usize, 1, 2, 255, 256, 257, 512, 600]);
        match rng.below(5) {
            0 => one(run, &format!("fontdesc:psf1:{}:{h}:{}:{}", rng.below(4), n * h + rng.below(3) as usize, rng.below(1000))),
            1 => {
                let cs = if rng.chance(1, 6) { rng.below(40) as usize } else { h };
                let dl = if rng.chance(1, 5) { rng.below(5000) as usize } else { n * cs };
                one(run, &format!("fontdesc:psf2:{}:{}:{}:{cs}:{h}:{}:{dl}:{}", u8::from(rng.chance(1, 12)), *rng.pick(&[32u32, 32, 32, 0, 40, 5000, 0xFFFF_FFFF]), if rng.chance(1, 8) { *rng.pick(&[0x8000_0000u32, 0xFFFF_FFFF, 0x7FFF_FFFF, 65536]) as usize } else { n }, *rng.pick(&[8u32, 8, 8, 0, 6, 9, 16, 0xFFFF_FFFF]), rng.below(1000)))
            }
            2 => one(run, &format!("fontdesc:raw:{}:{}", 256 * h + if rng.chance(1, 4) { rng.below(255) as usize } else { 0 }, rng.below(1000))),
            3 => {
                let mut b = psf2_header(0, 32, 256, 8, 8, 8);
                let k = rng.below(32) as usize;
                b.truncate(k.max(4));
                one(run, &format!("fontbytes:{}", hex(&b)));
            }
            _ => {
                let hh = rng.range(1, 32) as usize;
                let len = 256 * hh - if rng.chance(1, 3) { rng.below(40) as usize } else { 0 };
                one(run, &format!("basic:{hh}:{}", hex(&rng.bytes(len))));
            }
        }
    }
    // DCS payloads: valid, bad base64, bad slot, missing colon
    for _ in 0..24 * m {
        let h = rng.range(1, 32) as usize;
        let data = rng.bytes(256 * h);
        let b = b64(&data);
        let p = match rng.below(8) {
            0 => format!("CTerm:Font:{}:{}*", rng.below(50), &b[..b.len() - 1]),
            1 => format!("CTerm:Font:x{}:{}", rng.below(50), b),
            2 => format!("CTerm:Font:{}{}", rng.below(50), b),
            3 => format!("CTerm:Font:{}:{}", rng.below(50), &b[..b.len() - rng.range(1, 3) as usize]),
            4 => format!("CTerm:Font:+{}:{}", rng.below(50), b),
            5 => format!("CTerm:Font:99999999999999999999999:{}", b),
            _ => format!("CTerm:Font:{}:{}", rng.below(300), b),
        };
        one(run, &format!("dcsload:{}", hex(p.as_bytes())));
    }
    for n in 0..8usize {
        one(run, &format!("b64:{}", hex(&rng.bytes(n))));
    }
    // TheDraw fonts per the quantifier
    for _ in 0..40 * m {
        let t = gen_tfont(&mut rng, 94, false);
        one(run, &format!("tdf:{}", tfont_desc(&t, ":")));
    }
    for ty in 0..3u8 {
        // boundary: no glyphs, all 94 glyphs at maximum size
        let mut t = gen_tfont(&mut rng, 0, false);
        t.ty = ty;
        one(run, &format!("tdf:{}", tfont_desc(&t, ":")));
        let mut t = gen_tfont(&mut rng, 94, true);
        t.ty = ty;
        t.name = "MaxSizeFont!".into();
        for g in t.table.iter_mut() {
            if g.is_none() {
                *g = Some(gen_glyph(&mut rng, ty, true));
            }
        }
        for g in t.table.iter_mut().flatten() {
            *g = gen_glyph(&mut rng, ty, true);
        }
        one(run, &format!("tdf:{}", tfont_desc(&t, ":")));
    }
    for ty in 0..3 {
        one(run, &format!("tdfbig:{ty}:94:30:12:{}", rng.below(1000)));
        one(run, &format!("tdfbig:{ty}:{}:30:12:{}", rng.range(80, 93), rng.below(1000)));
    }
    // excluded points, executed on the implementation
    {
        let base = gen_tfont(&mut rng, 5, false);
        let mut v = Vec::new();
        let mut t = base.clone();
        t.name = "thirteenchars".into();
        v.push(t);
        let mut t = base.clone();
        t.name = "nul\0inside".into();
        v.push(t);
        let mut t = base.clone();
        t.name = "ééééééé".into();
        v.push(t);
        let mut t = base.clone();
        t.spaces = 41;
        v.push(t);
        let mut t = base.clone();
        t.spaces = -1;
        v.push(t);
        let mut t = base.clone();
        t.ty = 0;
        t.table[3] = Some(TGlyph { w: 3, h: 1, data: vec![65, 0, 66] });
        v.push(t);
        let mut t = base.clone();
        t.ty = 2;
        t.table[3] = Some(TGlyph { w: 3, h: 1, data: vec![65, 7, 66] });
        v.push(t);
        let mut t = base.clone();
        t.ty = 2;
        t.table[3] = Some(TGlyph { w: 3, h: 1, data: vec![65, 0, 66, 0] });
        v.push(t);
        let mut t = base.clone();
        t.ty = 1;
        t.table[3] = Some(TGlyph { w: 300, h: -1, data: vec![65] });
        v.push(t);
        for t in v {
            one(run, &format!("tdf:{}", tfont_desc(&t, ":")));
        }
    }
    // one clause of WfTdf broken in an otherwise random font (the domain is exact: none of these may come back)
    for _ in 0..8 * m {
        let mut t = gen_tfont(&mut rng, 12, false);
        if t.table.iter().all(|g| g.is_none()) {
            t.table[rng.below(94) as usize] = Some(gen_glyph(&mut rng, t.ty, false));
        }
        let defined: Vec<usize> = (0..94).filter(|i| t.table[*i].is_some()).collect();
        let gi = *rng.pick(&defined);
        match rng.below(7) {
            0 => {
                let mut b = t.name.clone().into_bytes();
                b.retain(|c| c.is_ascii());
                let at = rng.below(b.len() as u64 + 1) as usize;
                b.insert(at, 0);
                b.truncate(12);
                t.name = String::from_utf8(b).unwrap_or_default();
            }
            1 => t.spaces = *rng.pick(&[-1, 41, 255, -200, 256, 296]),
            2 => t.table[gi].as_mut().unwrap().w = *rng.pick(&[-1, 256, 300, -256]),
            3 => t.table[gi].as_mut().unwrap().h = *rng.pick(&[-1, 256, 300, -256]),
            4 => {
                let g = t.table[gi].as_mut().unwrap();
                let at = rng.below(g.data.len() as u64 + 1) as usize;
                // (in colour data only at a character position, else it is an attribute byte and legal)
                let at = if t.ty == 2 { 0 } else { at };
                g.data.insert(at, 0);
            }
            5 => {
                t.ty = 2;
                for g in t.table.iter_mut().flatten() {
                    *g = gen_glyph(&mut rng, 2, false);
                }
                t.table[gi].as_mut().unwrap().data.push(*rng.pick(&[65u8, 219, 1, 255]));
            }
            _ => t.name = "thirteen chars".chars().take(13).collect(),
        }
        one(run, &format!("tdf:{}", tfont_desc(&t, ":")));
    }
    // bundles of 1..=34 fonts
    let sizes: Vec<usize> = if thorough { (1..=34).collect() } else { vec![1, 2, 3, 6, 34] };
    for n in sizes {
        let fs: Vec<TFont> = (0..n).map(|_| gen_tfont(&mut rng, if n > 8 { 6 } else { 30 }, false)).collect();
        one(run, &format!("tdfb:{}", fs.iter().map(|f| tfont_desc(f, ":")).collect::<Vec<_>>().join("|")));
    }
    // reader correspondence on damaged files
    for _ in 0..60 * m {
        let t = gen_tfont(&mut rng, 8, false);
        let tb = build_tdf(&t);
        if let Ok(mut b) = if rng.chance(1, 3) { TheDrawFont::create_font_bundle(&[tb.clone(), tb.clone()]) } else { tb.as_tdf_bytes() } {
            match rng.below(7) {
                0 => {
                    let k = rng.below(b.len() as u64) as usize;
                    b.truncate(k);
                }
                1 => {
                    let k = rng.below(b.len() as u64) as usize;
                    b[k] = rng.next() as u8;
                }
                2 => {
                    let k = 20 + rng.below(30.min(b.len() as u64 - 20)) as usize;
                    b[k] = rng.next() as u8;
                }
                3 => {
                    let k = 41 + rng.below(192) as usize;
                    if k < b.len() {
                        b[k] = rng.next() as u8;
                    }
                }
                4 => {
                    let k = rng.below(20) as usize;
                    b.extend(rng.bytes(k));
                }
                5 => {
                    for _ in 0..4 {
                        let k = rng.below(b.len() as u64) as usize;
                        b[k] = *rng.pick(&[0u8, 0xFF, 13, 1]);
                    }
                }
                _ => {
                    let n = b.len();
                    b.truncate(n.saturating_sub(rng.range(1, 3) as usize));
                }
            }
            one(run, &format!("tdfraw:{}", hex(&b)));
        }
    }
    for t in ["-", "13", "1354686544726177"] {
        one(run, &format!("tdfraw:{t}"));
    }
    // (own generator state from here on: the cases above keep their seeds)
    let mut xr = Rng::new(seed ^ 0xC17E);
    // 512-glyph fonts of every height (PSF2, IcyDraw)
    if !thorough {
        for h in (1..=32usize).filter(|h| h % 4 != 0) {
            one(run, &format!("bf:512:{h}:{}", xr.below(100000)));
        }
    }
    // raw data that starts with a PSF magic number: PSF1 (never comes back), PSF2 + junk (rejected), PSF2 + the overlay
    // header of the same height (comes back), overlay header of another height / width / count (rejected)
    for h in [1usize, 2, 8, 16, 32] {
        let mk = |pre: &[u8], xr: &mut Rng| -> String {
            let mut d = xr.bytes(256 * h);
            d[..pre.len().min(256 * h)].copy_from_slice(&pre[..pre.len().min(256 * h)]);
            format!("bfx:256:{h}:{}", hex(&d))
        };
        let ov = |len: u32, cs: u32, ht: u32, w: u32, hs: u32, ver: u32| -> Vec<u8> {
            let mut p = vec![0x72, 0xb5, 0x4a, 0x86];
            for v in [ver, hs, 0x0909_0909, len, cs, ht, w] {
                p.extend(v.to_le_bytes());
            }
            p
        };
        let hh = h as u32;
        one(run, &mk(&[0x36, 0x04, 0, h as u8], &mut xr));
        one(run, &mk(&[0x36, 0x04, 1, 1], &mut xr));
        one(run, &mk(&[0x72, 0xb5, 0x4a, 0x86], &mut xr));
        one(run, &mk(&ov(256, hh, hh, 8, 0, 0), &mut xr));
        one(run, &mk(&ov(256, hh, hh, 8, 32, 0), &mut xr));
        one(run, &mk(&ov(256, hh, hh, 8, 0, 1), &mut xr));
        one(run, &mk(&ov(255, hh, hh, 8, 0, 0), &mut xr));
        one(run, &mk(&ov(256, hh + 1, hh, 8, 0, 0), &mut xr));
        one(run, &mk(&ov(128, 2 * hh, 2 * hh, 8, 0, 0), &mut xr));
        one(run, &mk(&ov(256, hh, hh, 7, 0, 0), &mut xr));
        one(run, &mk(&ov(256, 2 * hh, hh, 16, 0, 0), &mut xr));
    }
    // DCS font loading: slot numbers over the whole usize range, every padding shape of base64 (height mod 3)
    for (i, slot) in [0usize, 1, 9, 10, 42, 255, 256, 65535, 65536, 4294967295, 4294967296, usize::MAX - 1, usize::MAX].iter().enumerate() {
        one(run, &format!("dcsslot:{slot}:{}:{}", [1usize, 2, 3, 16, 32, 31][i % 6], xr.below(1000)));
    }
    for k in 1..=4usize {
        for sep in 0..6usize {
            one(run, &format!("dcsseq:{k}:{sep}:{}", xr.below(1000)));
        }
    }
    for k in [43usize, 44, 100, usize::MAX] {
        one(run, &format!("nofont:{k}"));
    }
    // TheDraw: glyph data that ends 1 below / exactly at / 1 above the 16-bit limit of the format
    for l in [205usize, 206, 207] {
        one(run, &format!("tdfedge:{l}"));
    }
    // TheDraw: every header field of a written file damaged in turn (id length, id, ^Z, font indicator, name length,
    // type, letter spacing, block size, first / last glyph offset)
    for ty in 0..3u8 {
        let mut t = gen_tfont(&mut xr, 6, false);
        t.ty = ty;
        if t.table.iter().all(|g| g.is_none()) {
            t.table[0] = Some(gen_glyph(&mut xr, ty, false));
        }
        let tb = build_tdf(&t);
        if let Ok(b) = tb.as_tdf_bytes() {
            for (off, vals) in [(0usize, vec![0u8, 18, 20, 255]), (1, vec![0x74]), (18, vec![0]), (19, vec![0, 0x1B]), (20, vec![0x54]), (23, vec![0]), (24, vec![0, 13, 200, 255]), (41, vec![3, 255]), (42, vec![41, 255]), (43, vec![0, 1, 255]), (44, vec![255])] {
                for v in vals {
                    let mut m = b.clone();
                    if off < m.len() {
                        m[off] = v;
                        one(run, &format!("tdfraw:{}", hex(&m)));
                    }
                }
            }
            // glyph offsets: just inside / at / beyond the block and the file
            let bs = u16::from_le_bytes([b[43], b[44]]) as usize;
            for idx in [0usize, 93] {
                for v in [0usize, bs.saturating_sub(2), bs.saturating_sub(1), bs, bs + 1, 0xFFFE, 0xFFFF] {
                    let mut m = b.clone();
                    let o = 45 + 2 * idx;
                    m[o] = v as u8;
                    m[o + 1] = (v >> 8) as u8;
                    one(run, &format!("tdfraw:{}", hex(&m)));
                }
            }
        }
    }
    {
        let fs: Vec<TFont> = (0..3).map(|_| gen_tfont(&mut xr, 10, false)).collect();
        one(run, &format!("tdfload:{}", fs.iter().map(|f| tfont_desc(f, ":")).collect::<Vec<_>>().join("|")));
    }
    // fonts inside containers, next to the other optional blocks (own generator state: the cases above keep their seeds)
    let mut brng = Rng::new(seed ^ 0xB0C5);
    for t in crate::fontbox::cases(&mut brng, thorough) {
        one(run, &t);
    }
    // which font goes where: cells on a page k != 0 next to another font in slot 0, two pages other than (0, 1), the built-in
    // default font in slots other than 0 (own generator state)
    let mut srng = Rng::new(seed ^ 0x5107);
    for t in crate::fontslot::cases(&mut srng, thorough) {
        one(run, &t);
    }
    // PSF1 / PSF2 files as the loader reads them: every mode bit, unicode tables, header sizes, flags
    let mut prng = Rng::new(seed ^ 0x95F1);
    for mode in [0u8, 1, 2, 3, 4, 5, 6, 7, 254, 255] {
        let announced = if mode & 1 == 1 { 512 } else { 256 };
        let h = prng.range(1, 4) as usize;
        one(run, &format!("psf1f:{mode}:{h}:{announced}:0:{}", prng.below(1000)));
        one(run, &format!("psf1f:{mode}:{h}:{announced}:{}:{}", prng.range(1, 2 * h as i64 + 2), prng.below(1000)));
        one(run, &format!("psf1f:{mode}:{h}:{}:{}:{}", *prng.pick(&[0usize, 1, 255, 257, 511, 513, 600]), prng.below(h as u64 + 1), prng.below(1000)));
    }
    for h in [1usize, 8, 16, 32] {
        one(run, &format!("psf1f:1:{h}:512:0:{}", prng.below(1000)));
        one(run, &format!("psf1f:0:{h}:256:{}:{}", h - 1, prng.below(1000)));
    }
    for hs in [32u32, 33, 40, 64, 1000, 16, 12, 0] {
        for flags in [0u32, 1, 0xFFFF_FFFF] {
            let h = prng.range(1, 3) as usize;
            let n = *prng.pick(&[256usize, 512, 1, 300]);
            one(run, &format!("psf2f:{hs}:{flags}:{h}:{n}:0:{}", prng.below(1000)));
            if hs >= 32 {
                one(run, &format!("psf2f:{hs}:{flags}:{h}:{n}:{}:{}", prng.range(1, 6), prng.below(1000)));
            }
        }
    }
    // the DCS framing: streams through the real parser (own generator state)
    let mut drng = Rng::new(seed ^ 0xDC5F);
    for t in crate::fontdcs::cases(&mut drng, thorough) {
        one(run, &t);
    }
    run.extra.push(("heights_1_to_32_all_covered".into(), "true".into()));
    run.extra.push(("font_pages_0_to_42_and_all_sauce_fonts".into(), "true".into()));
}
