//! Helpers for C02: run-length hex ("hexr") for long byte strings, and a minimal PNG container with zTXt
//! chunks (stored deflate blocks) so that IcyDraw chunk payloads can be handed to the real `.icy` loader
//! without going through the engine's writer.

/// bytes -> hex pairs; a run of >= 6 equal bytes is written `xx(n)`; empty string is `-`
pub fn hexr(bs: &[u8]) -> String {
    if bs.is_empty() {
        return "-".to_string();
    }
    let mut s = String::with_capacity(bs.len() * 2);
    let mut i = 0;
    while i < bs.len() {
        let b = bs[i];
        let mut j = i + 1;
        while j < bs.len() && bs[j] == b {
            j += 1;
        }
        let n = j - i;
        if n >= 6 {
            s.push_str(&format!("{:02x}({})", b, n));
        } else {
            for _ in 0..n {
                s.push_str(&format!("{:02x}", b));
            }
        }
        i = j;
    }
    s
}

pub fn unhexr(s: &str) -> Option<Vec<u8>> {
    if s == "-" {
        return Some(Vec::new());
    }
    let cs: Vec<char> = s.chars().collect();
    let mut out = Vec::new();
    let mut i = 0;
    while i < cs.len() {
        if i + 1 >= cs.len() {
            return None;
        }
        let b = (cs[i].to_digit(16)? * 16 + cs[i + 1].to_digit(16)?) as u8;
        i += 2;
        if i < cs.len() && cs[i] == '(' {
            let mut n = 0usize;
            i += 1;
            while i < cs.len() && cs[i] != ')' {
                n = n.checked_mul(10)?.checked_add(cs[i].to_digit(10)? as usize)?;
                i += 1;
            }
            if i >= cs.len() || n > (1 << 26) {
                return None;
            }
            i += 1;
            out.extend(std::iter::repeat(b).take(n));
        } else {
            out.push(b);
        }
    }
    Some(out)
}

pub fn crc32(bs: &[u8]) -> u32 {
    let mut c: u32 = 0xFFFF_FFFF;
    for &b in bs {
        c ^= b as u32;
        for _ in 0..8 {
            c = if c & 1 != 0 { (c >> 1) ^ 0xEDB8_8320 } else { c >> 1 };
        }
    }
    !c
}

fn adler32(bs: &[u8]) -> u32 {
    let (mut a, mut b) = (1u32, 0u32);
    for &x in bs {
        a = (a + x as u32) % 65521;
        b = (b + a) % 65521;
    }
    (b << 16) | a
}

/// zlib stream made of stored (uncompressed) deflate blocks
pub fn zlib_stored(bs: &[u8]) -> Vec<u8> {
    let mut out = vec![0x78, 0x01];
    if bs.is_empty() {
        out.extend([0x01, 0x00, 0x00, 0xFF, 0xFF]);
    }
    let mut i = 0;
    while i < bs.len() {
        let n = (bs.len() - i).min(65535);
        let last = i + n == bs.len();
        out.push(if last { 1 } else { 0 });
        out.extend((n as u16).to_le_bytes());
        out.extend((!(n as u16)).to_le_bytes());
        out.extend(&bs[i..i + n]);
        i += n;
    }
    out.extend(adler32(bs).to_be_bytes());
    out
}

pub fn base64(bs: &[u8]) -> String {
    const T: &[u8; 64] = b"ABCDEFGHIJKLMNOPQRSTUVWXYZabcdefghijklmnopqrstuvwxyz0123456789+/";
    let mut s = String::with_capacity(bs.len() * 4 / 3 + 4);
    for c in bs.chunks(3) {
        let v = (c[0] as u32) << 16 | (*c.get(1).unwrap_or(&0) as u32) << 8 | *c.get(2).unwrap_or(&0) as u32;
        s.push(T[(v >> 18) as usize & 63] as char);
        s.push(T[(v >> 12) as usize & 63] as char);
        s.push(if c.len() > 1 { T[(v >> 6) as usize & 63] as char } else { '=' });
        s.push(if c.len() > 2 { T[v as usize & 63] as char } else { '=' });
    }
    s
}

fn png_chunk(out: &mut Vec<u8>, ty: &[u8; 4], body: &[u8]) {
    out.extend((body.len() as u32).to_be_bytes());
    let mut c = ty.to_vec();
    c.extend(body);
    out.extend(&c);
    out.extend(crc32(&c).to_be_bytes());
}

/// PNG: signature, IHDR 1x1 RGBA, one zTXt chunk per (keyword, payload) with text = base64(payload), then a
/// zTXt "END" chunk, IDAT (one transparent pixel) and IEND — the chunk order of the engine's own writer.
pub fn icy_container(chunks: &[(String, Vec<u8>)]) -> Vec<u8> {
    let mut out = vec![0x89, b'P', b'N', b'G', 0x0D, 0x0A, 0x1A, 0x0A];
    let mut ihdr = Vec::new();
    ihdr.extend(1u32.to_be_bytes());
    ihdr.extend(1u32.to_be_bytes());
    ihdr.extend([8, 6, 0, 0, 0]);
    png_chunk(&mut out, b"IHDR", &ihdr);
    let mut all: Vec<(String, Vec<u8>)> = chunks.to_vec();
    all.push(("END".to_string(), Vec::new()));
    for (kw, payload) in &all {
        let mut body = kw.as_bytes().to_vec();
        body.push(0);
        body.push(0);
        body.extend(zlib_stored(base64(payload).as_bytes()));
        png_chunk(&mut out, b"zTXt", &body);
    }
    png_chunk(&mut out, b"IDAT", &zlib_stored(&[0, 0, 0, 0, 0]));
    png_chunk(&mut out, b"IEND", &[]);
    out
}
