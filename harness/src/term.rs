//! Shared terminal driver for C01 / C03 / C09: emulations, grammar-based stream generator,
//! per-character observation digest, crash-isolating worker protocol.
use crate::util::*;
use icy_engine::{ansi, ascii, atascii, avatar, ctrla, mode7, pcboard, petscii, renegade, viewdata};
use icy_engine::{Buffer, BufferParser, CallbackAction, Caret, TextPane};
use std::io::Write;

#[derive(Clone, Copy, PartialEq, Eq, Debug)]
pub enum Emu {
    Ansi(u8), // music option 0..3
    Avatar,
    PCBoard,
    CtrlA,
    Renegade,
    Petscii,
    Atascii,
    Viewdata,
    Mode7,
    Ascii,
}

pub const ALL_EMUS: [Emu; 13] = [
    Emu::Ansi(0),
    Emu::Ansi(1),
    Emu::Ansi(2),
    Emu::Ansi(3),
    Emu::Avatar,
    Emu::PCBoard,
    Emu::CtrlA,
    Emu::Renegade,
    Emu::Petscii,
    Emu::Atascii,
    Emu::Viewdata,
    Emu::Mode7,
    Emu::Ascii,
];

impl Emu {
    pub fn name(self) -> String {
        match self {
            Emu::Ansi(m) => format!("ansi{}", m),
            Emu::Avatar => "avatar".into(),
            Emu::PCBoard => "pcboard".into(),
            Emu::CtrlA => "ctrla".into(),
            Emu::Renegade => "renegade".into(),
            Emu::Petscii => "petscii".into(),
            Emu::Atascii => "atascii".into(),
            Emu::Viewdata => "viewdata".into(),
            Emu::Mode7 => "mode7".into(),
            Emu::Ascii => "ascii".into(),
        }
    }
    pub fn from_name(s: &str) -> Option<Emu> {
        ALL_EMUS.iter().copied().find(|e| e.name() == s)
    }
    pub fn fixed_grid(self) -> bool {
        matches!(self, Emu::Viewdata | Emu::Mode7)
    }
    pub fn ansi_family(self) -> bool {
        matches!(self, Emu::Ansi(_) | Emu::Avatar | Emu::PCBoard | Emu::CtrlA | Emu::Renegade)
    }
    pub fn parser(self) -> Box<dyn BufferParser> {
        match self {
            Emu::Ansi(m) => {
                let mut p = ansi::Parser::default();
                p.ansi_music = match m {
                    1 => ansi::MusicOption::Conflicting,
                    2 => ansi::MusicOption::Banana,
                    3 => ansi::MusicOption::Both,
                    _ => ansi::MusicOption::Off,
                };
                p.bs_is_ctrl_char = true;
                Box::new(p)
            }
            Emu::Avatar => Box::<avatar::Parser>::default(),
            Emu::PCBoard => Box::<pcboard::Parser>::default(),
            Emu::CtrlA => Box::<ctrla::Parser>::default(),
            Emu::Renegade => Box::<renegade::Parser>::default(),
            Emu::Petscii => Box::<petscii::Parser>::default(),
            Emu::Atascii => Box::<atascii::Parser>::default(),
            Emu::Viewdata => Box::new(viewdata::Parser::default()),
            Emu::Mode7 => Box::new(mode7::Parser::default()),
            Emu::Ascii => Box::<ascii::Parser>::default(),
        }
    }
}

/// a terminal buffer the way a terminal front-end creates it
pub fn make_buffer(emu: Emu, w: i32, h: i32) -> Buffer {
    let (w, h) = if emu.fixed_grid() { (40, 24) } else { (w, h) };
    let mut buf = Buffer::new((w, h));
    buf.is_terminal_buffer = true;
    buf
}

pub struct Term {
    pub emu: Emu,
    pub buf: Buffer,
    pub caret: Caret,
    pub parser: Box<dyn BufferParser>,
    /// the screen size the property speaks about: the size the terminal was opened with, changed only by an explicit
    /// text-area resize request (`CallbackAction::ResizeTerminal`); NOT re-read from `terminal_state`, so that a
    /// stream that silently changes the terminal size does not move the goal posts of the cursor oracle
    pub exp_w: i32,
    pub exp_h: i32,
    /// a resize request was executed from inside a macro replay: `invoke_macro_by_id` swallows the
    /// `ResizeTerminal` action of the replayed characters, so the request shows only as a size change at the
    /// invoking `z` (`CSI Pn * z`, or the same inside a DCS)
    pub resized_in_macro: bool,
    /// encoding of the payload of the last `CallbackAction::PlayMusic` (per action: 1 note-index duration dotted /
    /// 2 pause / 3 style) and the number of tunes handed out so far; part of the geometry hash so that the model's
    /// music state machine (octave, length, tempo, note arithmetic) is tied to `sound.rs`
    pub music_last: Vec<u64>,
    pub music_tunes: u64,
    prev: [char; 2],
}

fn music_enc(m: &ansi::sound::AnsiMusic) -> Vec<u64> {
    use ansi::sound::{MusicAction, MusicStyle, FREQ};
    let mut v = Vec::new();
    for a in &m.music_actions {
        match a {
            MusicAction::PlayNote(f, len, dotted) => {
                let idx = FREQ.iter().position(|x| x == f).map(|i| i as u64).unwrap_or(999);
                v.extend([1, idx, *len as i64 as u64, *dotted as u64]);
            }
            MusicAction::Pause(p) => v.extend([2, *p as i64 as u64]),
            MusicAction::SetStyle(s) => v.extend([
                3,
                match s {
                    MusicStyle::Foreground => 0,
                    MusicStyle::Background => 1,
                    MusicStyle::Normal => 2,
                    MusicStyle::Legato => 3,
                    MusicStyle::Staccato => 4,
                },
            ]),
        }
    }
    v
}

#[derive(Clone, Debug, PartialEq)]
pub enum Outcome {
    Ok,
    Resize(i32, i32),
    Err,
    Panic(String, String),
}

impl Term {
    pub fn new(emu: Emu, w: i32, h: i32) -> Term {
        let (ew, eh) = if emu.fixed_grid() { (40, 24) } else { (w, h) };
        Term { emu, buf: make_buffer(emu, w, h), caret: Caret::default(), parser: emu.parser(), exp_w: ew, exp_h: eh, resized_in_macro: false, music_last: Vec::new(), music_tunes: 0, prev: ['\0', '\0'] }
    }
    /// feed one character; panics are caught and mapped to their site
    pub fn feed(&mut self, ch: char) -> Outcome {
        let parser = &mut self.parser;
        let buf = &mut self.buf;
        let caret = &mut self.caret;
        let r = catch(std::panic::AssertUnwindSafe(|| parser.print_char(buf, 0, caret, ch)));
        // the invoking character: `z`, or for Avatar the count byte of a repeated `z` (`^Y z <n>`)
        let invokes = ch == 'z' || (self.emu == Emu::Avatar && self.prev == ['\x19', 'z']);
        self.prev = [self.prev[1], ch];
        if invokes && self.emu.ansi_family() && !matches!(r, Ok(Ok(CallbackAction::ResizeTerminal(_, _)))) {
            let (tw, th) = (self.buf.terminal_state.get_width(), self.buf.terminal_state.get_height());
            if (tw, th) != (self.exp_w, self.exp_h) {
                self.exp_w = tw;
                self.exp_h = th;
                self.resized_in_macro = true;
            }
        }
        match r {
            Ok(Ok(CallbackAction::ResizeTerminal(w, h))) => {
                self.exp_w = w;
                self.exp_h = h;
                Outcome::Resize(w, h)
            }
            Ok(Ok(CallbackAction::PlayMusic(m))) => {
                self.music_last = music_enc(&m);
                self.music_tunes += 1;
                Outcome::Ok
            }
            Ok(Ok(_)) => Outcome::Ok,
            Ok(Err(_)) => Outcome::Err,
            Err(loc) => Outcome::Panic(panic_site(&loc), loc),
        }
    }
    /// the cursor is inside the visible screen: column within 0..width-1, row within the last `height` rows of the
    /// buffer — width/height being the size of the screen as opened / as last explicitly resized
    pub fn cursor_in_screen(&self) -> bool {
        let p = self.caret.get_position();
        let first = self.exp_first_visible();
        p.x >= 0 && p.x < self.exp_w && p.y >= first && (p.y as i64) < first as i64 + self.exp_h as i64
    }
    pub fn exp_first_visible(&self) -> i32 {
        (self.buf.get_height() as i64 - self.exp_h as i64).max(0) as i32
    }
    /// the terminal still has the size it was opened with / last explicitly resized to
    pub fn size_ok(&self) -> bool {
        self.buf.terminal_state.get_width() == self.exp_w && self.buf.terminal_state.get_height() == self.exp_h
    }
    pub fn grid_ok(&self) -> bool {
        self.buf.get_width() == 40 && self.buf.get_height() == 24 && self.buf.layers[0].lines.len() <= 24 && self.buf.layers[0].get_width() == 40
    }
    /// geometry digest (the observation the TermGeo model must reproduce)
    pub fn digest(&self) -> String {
        let p = self.caret.get_position();
        let ts = &self.buf.terminal_state;
        let l = &self.buf.layers[0];
        let rows = fnv(l.lines.iter().map(|r| r.chars.len() as u64));
        let tabs = fnv(ts.get_tabs().iter().map(|t| *t as i64 as u64));
        let (mt, mb) = ts.get_margins_top_bottom().map(|(a, b)| (a as i64, b as i64)).unwrap_or((-7, -7));
        let (ml, mr) = ts.get_margins_left_right().map(|(a, b)| (a as i64, b as i64)).unwrap_or((-7, -7));
        format!(
            "{} {} {} {} {} {} {} {} {} {} {} {} {} {} {} {} {} {} {}",
            p.x,
            p.y,
            self.buf.get_first_visible_line(),
            ts.get_width(),
            ts.get_height(),
            self.buf.get_width(),
            self.buf.get_height(),
            l.get_width(),
            l.get_height(),
            l.lines.len(),
            rows,
            self.caret.insert_mode as u8,
            (ts.auto_wrap_mode == icy_engine::AutoWrapMode::AutoWrap) as u8,
            mt,
            mb,
            ml,
            mr,
            ts.dec_margin_mode_left_right as u8,
            tabs
        )
    }
    /// the part of the digest the TermGeo model reproduces
    pub fn geo_ints(&self) -> Vec<i64> {
        let p = self.caret.get_position();
        let ts = &self.buf.terminal_state;
        let (mt, mb) = ts.get_margins_top_bottom().map(|(a, b)| (a as i64, b as i64)).unwrap_or((-7, -7));
        let (ml, mr) = ts.get_margins_left_right().map(|(a, b)| (a as i64, b as i64)).unwrap_or((-7, -7));
        vec![
            p.x as i64,
            p.y as i64,
            self.buf.get_first_visible_line() as i64,
            ts.get_width() as i64,
            ts.get_height() as i64,
            self.buf.get_width() as i64,
            self.buf.get_height() as i64,
            self.caret.insert_mode as i64,
            (ts.auto_wrap_mode == icy_engine::AutoWrapMode::AutoWrap) as i64,
            mt,
            mb,
            ml,
            mr,
            ts.dec_margin_mode_left_right as i64,
        ]
    }
    pub fn geo_hash(&self, out: &str) -> u64 {
        let tabs = fnv(self.buf.terminal_state.get_tabs().iter().map(|t| *t as i64 as u64));
        let music = fnv(self.music_last.iter().copied().chain([self.music_tunes]));
        fnv(self.geo_ints().into_iter().map(|v| v as u64).chain([tabs, music]).chain(out.chars().map(|c| c as u64)))
    }
    /// `Line::get_line_length` of the caret row of layer 0 (the oracle argument of HPA/HPR in the model)
    pub fn caret_line_len(&self) -> i32 {
        let y = self.caret.get_position().y;
        if y >= 0 {
            if let Some(line) = self.buf.layers[0].lines.get(y as usize) {
                return line.get_line_length();
            }
        }
        -1
    }
}

// ------------------------------------------------------------------------------------------------
// stream grammar

#[derive(Clone, Debug)]
pub struct Token {
    pub label: String,
    pub chars: Vec<char>,
}

fn tok(label: &str, s: &str) -> Token {
    Token { label: label.to_string(), chars: s.chars().collect() }
}

/// numeric parameter values of the quantifier, relative to the screen size; `huge` adds 2^16, 10^6 and the largest
/// value `parse_next_number` can produce
pub fn param_values(w: i32, h: i32, huge: bool) -> Vec<String> {
    let mut v: Vec<String> = vec!["".into(), "0".into(), "1".into(), "2".into(), (h / 2).max(1).to_string(), h.to_string(), w.to_string(), (h + 1).to_string(), (w + 1).to_string(), "9999".into()];
    if huge {
        v.push("65536".into());
        v.push("1000000".into());
        v.push("2147483647".into());
        v.push("99999999999".into());
    }
    v
}

pub const CSI_FINALS: &str = "@ABCDEFGHIJKLMNOPQRSTUVWXYZ[\\]^_`abcdefghijklmnopqrstuvwxyz{|}~";
pub const CSI_INTER: [&str; 8] = ["", " ", "$", "*", "?", "=", "!", "<"];

pub struct Gen<'a> {
    pub rng: &'a mut Rng,
    pub w: i32,
    pub h: i32,
    pub huge: bool,
}

impl<'a> Gen<'a> {
    fn params(&mut self, max: usize) -> String {
        let vals = param_values(self.w, self.h, self.huge);
        let n = self.rng.below(max as u64 + 1) as usize;
        let mut s = String::new();
        for i in 0..n {
            if i > 0 {
                s.push(';');
            }
            s.push_str(&self.rng.pick(&vals[..]).clone());
        }
        s
    }
    /// a control sequence whose private marker / intermediate, final byte and parameters fit together (the DEC private
    /// modes, the SCO / CTerm requests, rectangles, checksum, font selection, …): drawn uniformly from the table, with
    /// the numeric slots `#` filled from the parameter values of the quantifier
    pub fn csi_meaningful(&mut self) -> Token {
        const TABLE: [&str; 64] = [
            "?4h", "?6h", "?7h", "?25h", "?33h", "?35h", "?69h", "?9h", "?1000h", "?1002h", "?1006h", "?1016h", "?4l", "?6l", "?7l", "?25l", "?33l", "?69l", "?1000l",
            "?62n", "?63;#n", "?63n", "=1n", "=2n", "=3n", "=r", "=0;#m", "=1;#m", "=2;#m", "=3;#m", "=4;#m", "=#m", "<c", "<#c", "<#;#c", "!p", "5n", "6n", "255n", "4h", "4l",
            "1~", "2~", "3~", "4~", "5~", "0g", "3g", "5g", "2J", "3J", "2K", "0;# D", "# d", "2$w", "#;#;#;#;#$x", "#;#;#;#$z", "#;#;#;#${", "#*z", "#;#*r", "#;#;#;#;#;#*y",
            "#;#s", "#;#;#;#r", "8;#;#t",
        ];
        let vals = param_values(self.w, self.h, self.huge);
        let pat = *self.rng.pick(&TABLE);
        let mut body = String::new();
        for c in pat.chars() {
            if c == '#' {
                body.push_str(&self.rng.pick(&vals[..]).clone());
            } else {
                body.push(c);
            }
        }
        let fin = pat.chars().last().unwrap();
        let inter: String = pat.chars().filter(|c| "?=<! $*".contains(*c)).collect();
        tok(&format!("CSI{}{}", inter, fin), &format!("\x1b[{}", body))
    }
    pub fn csi(&mut self) -> Token {
        if self.rng.chance(1, 5) {
            return self.csi_meaningful();
        }
        // geometry-relevant finals are weighted up
        let hot = "HfABCDjkdeEFGXPLM@STbYZsuraJK'`gtnhl~m";
        let fin = if self.rng.chance(3, 4) { *self.rng.pick(&hot.chars().collect::<Vec<_>>()) } else { *self.rng.pick(&CSI_FINALS.chars().collect::<Vec<_>>()) };
        let inter = if self.rng.chance(1, 4) { *self.rng.pick(&CSI_INTER) } else { "" };
        let maxp = match fin {
            'm' => 6,
            'r' | 't' | 'y' | 'x' | 'z' | '{' => 6,
            _ => 2,
        };
        let mut p = self.params(maxp);
        if fin == 't' && self.rng.chance(2, 3) {
            // window manipulation: only `8;h;w` (resize) and the 4-parameter colour form do anything
            let vals = param_values(self.w, self.h, self.huge);
            p = if self.rng.chance(3, 4) {
                format!("8;{};{}", self.rng.pick(&vals[..]), self.rng.pick(&vals[..]))
            } else {
                format!("{};{};{};{}", self.rng.pick(&["0", "1", "2"]), self.rng.pick(&vals[..]), self.rng.pick(&vals[..]), self.rng.pick(&vals[..]))
            };
        }
        let s = match inter {
            "?" | "=" | "!" | "<" => format!("\x1b[{}{}{}", inter, p, fin),
            _ => format!("\x1b[{}{}{}", p, inter, fin),
        };
        tok(&format!("CSI{}{}", inter, fin), &s)
    }
    pub fn esc(&mut self) -> Token {
        let c = *self.rng.pick(&['7', '8', 'c', 'D', 'M', 'E', 'H', 'Z', '=', '>', '\x1b', '\n', '\x0c', '#', ' ', '~', '0']);
        tok(&format!("ESC{}", c.escape_default()), &format!("\x1b{}", c))
    }
    pub fn c0(&mut self) -> Token {
        let c = *self.rng.pick(&['\n', '\r', '\x0c', '\x08', '\x07', '\x7f', '\x09', '\x00', '\u{ff}', '\x0b']);
        tok(&format!("C0:{}", c.escape_default()), &c.to_string())
    }
    pub fn printable(&mut self) -> Token {
        let n = match self.rng.below(6) {
            0 => 1,
            1 => 2,
            2 => self.rng.range(1, 8),
            3 => self.w as i64 - 1,
            4 => self.w as i64,
            _ => self.rng.range(1, (self.w as i64 + 3).max(2)),
        }
        .max(1) as usize;
        let s: String = (0..n).map(|_| (b'!' + self.rng.below(90) as u8) as char).collect();
        tok("print", &s)
    }
    pub fn lines(&mut self) -> Token {
        // fill the scrollback
        let n = self.rng.range(1, (self.h as i64 * 2).max(2)) as usize;
        tok("LFxN", &"\n".repeat(n))
    }
    /// state captured in one geometry and restored in another: save (ESC 7 / CSI s), then something that changes
    /// the geometry (scrollback growth, scrollback drop by ED 2/3 / FF / RIS, soft reset, new margins), then restore
    pub fn capture_restore(&mut self) -> Token {
        let save = *self.rng.pick(&["\x1b7", "\x1b[s", "\x1b7\x1b[s"]);
        let grow = "\n".repeat(self.rng.range(1, (self.h as i64 * 2).max(2)) as usize);
        let mid: String = match self.rng.below(9) {
            0 => grow,
            1 => "\x1b[2J".into(),
            2 => "\x1b[3J".into(),
            3 => "\x0c".into(),
            4 => "\x1bc".into(),
            5 => "\x1b[!p".into(),
            6 => format!("\x1b[{};{}r", self.rng.range(0, self.h as i64 + 1), self.rng.range(0, self.h as i64 + 1)),
            7 => format!("{}\x1b[2J", grow),
            _ => format!("\x1b[2J{}", grow),
        };
        let restore = *self.rng.pick(&["\x1b8", "\x1b[u", "\x1b8\x1b[u"]);
        let pre = if self.rng.chance(1, 2) { "\n".repeat(self.rng.range(1, (self.h as i64 * 2).max(2)) as usize) } else { String::new() };
        tok("capture-restore", &format!("{}{}{}{}", pre, save, mid, restore))
    }
    pub fn dcs(&mut self) -> Token {
        let id = self.rng.below(3);
        match self.rng.below(9) {
            0 => {
                // plain macro definition, possibly invoking another/the same macro
                let body = match self.rng.below(5) {
                    0 => format!("\x1b[{}*z", self.rng.below(3)),
                    1 => "AB\n".to_string(),
                    2 => format!("\x1b[{}C", self.rng.below(5)),
                    3 => format!("X\x1b[{}*zY", id),
                    _ => "\x1b[2J".to_string(),
                };
                tok("DCS!z0", &format!("\x1bP{};{};0!z{}\x1b\\", id, self.rng.below(2), body))
            }
            1 => {
                let body = match self.rng.below(5) {
                    0 => "41424344".to_string(),
                    1 => format!("!{};4142;43", self.rng.pick(&[0u32, 1, 3, 20])),
                    2 => "1B5B312A7A".to_string(), // ESC[1*z
                    3 => "4G".to_string(),
                    _ => "!3".to_string(),
                };
                tok("DCS!z1", &format!("\x1bP{};0;1!z{}\x1b\\", id, body))
            }
            2 => tok("DCSq", &format!("\x1bP{}q{}\x1b\\", self.rng.pick(&["", "0;1", "9;0"]), self.rng.pick(&["~", "#1~~-~", "\"1;1;2;6~~", "!5~$-", "#2;2;50;50;50~"]))),
            3 => tok("DCSfont", &format!("\x1bPCTerm:Font:{}:{}\x1b\\", self.rng.pick(&["1", "", "x", "300"]), self.rng.pick(&["QQ==", "", "!!!!", "AAAAAAAAAAAAAAAAAAAAAA=="]))),
            4 => tok("CSI*z", &format!("\x1b[{}*z", id)),
            5 => tok("DCSjunk", &format!("\x1bP{}\x1b\\", self.rng.pick(&["", "!z", "1!z", "1;1!z", "1;0;2!z", "q", "x", "\x1b[", "\x1b[1", "\x1b[1*", "\x1b[1*z", "\x1b[*z", "\x1bX"]))),
            6 => tok("DCSopen", "\x1bP1;0;0!zabc"),
            7 => tok("DCSmacroinside", &format!("\x1bPxx\x1b[{}*zyy\x1b\\", id)),
            _ => tok("ST", "\x1b\\"),
        }
    }
    pub fn osc(&mut self) -> Token {
        match self.rng.below(8) {
            0 => tok("OSC4", &format!("\x1b]4;{};rgb:{}/{}/{}\x1b\\", self.rng.pick(&["", "1", "255", "256", "99999999999"]), "0a", "FF", "10")),
            1 => tok("OSC8open", "\x1b]8;;http://a.b\x1b\\"),
            2 => tok("OSC8close", "\x1b]8;;\x1b\\"),
            3 => tok("OSCjunk", &format!("\x1b]{}\x1b\\", self.rng.pick(&["", "8", "8;", "4", "4;", "0;title", "9;9;9", "x"]))),
            4 => tok("OSCopen", "\x1b]4;1;rgb:"),
            5 => tok("OSCesc", "\x1b]8;;x\x1bYz\x1b\\"),
            6 => tok("APS", &format!("\x1b_{}\x1b\\", self.rng.pick(&["", "abc", "\x1bx"]))),
            _ => tok("OSC4multi", "\x1b]4;1;rgb:00/00/00;2;rgb:ff/ff/ff\x1b\\"),
        }
    }
    pub fn music(&mut self) -> Token {
        let body: String = match self.rng.below(8) {
            0 => "T120O3L4CDEFGAB".into(),
            1 => "O6B+".into(),
            2 => "O9B#".into(),
            3 => "C99999999999.".into(),
            4 => "T99999999999L99999999999C".into(),
            5 => "MFMBMNMLMS".into(),
            6 => "N99P99<>".into(),
            _ => (0..self.rng.range(1, 10)).map(|_| *self.rng.pick(&['A', 'G', 'O', 'T', 'L', 'N', 'P', '#', '+', '-', '.', '<', '>', '1', '9', 'M', 'F', 'B', ' ', ';'])).collect(),
        };
        let lead = *self.rng.pick(&["\x1b[M", "\x1b[N", "\x1b[|", "\x1b[MF"]);
        tok("music", &format!("{}{}\x0e", lead, body))
    }
    pub fn raw(&mut self) -> Token {
        let n = self.rng.range(1, 12) as usize;
        let s: String = (0..n)
            .map(|_| match self.rng.below(4) {
                0 => *self.rng.pick(&['\x1b', '[', ';', '0', '9', 'P', ']', '\\', '*', '$', ' ', 'z', '!', '\x16', '\x19', '@', '|', '\x01']),
                _ => (self.rng.below(256) as u8) as char,
            })
            .collect();
        tok("raw", &s)
    }
    pub fn emu_specific(&mut self, emu: Emu) -> Token {
        match emu {
            Emu::Avatar => match self.rng.below(8) {
                0 => tok("AVTclr", "\x0c"),
                1 => tok("AVTrep", &format!("\x19{}{}", (b'a' + self.rng.below(5) as u8) as char, (self.rng.below(256) as u8) as char)),
                2 => tok("AVTrepbig", &format!("\x19x{}", char::from_u32(self.rng.range(200, 3000) as u32).unwrap())),
                3 => tok("AVTgoto", &format!("\x16\x08{}{}", (self.rng.below(256) as u8) as char, (self.rng.below(256) as u8) as char)),
                4 => tok("AVTcolor", &format!("\x16\x01{}", (self.rng.below(256) as u8) as char)),
                5 => tok("AVTmove", &format!("\x16{}", (2 + self.rng.below(5) as u8) as char)),
                6 => tok("AVTcmd", &format!("\x16{}", (self.rng.below(32) as u8) as char)),
                _ => tok("AVTrepnl", "\x19\n\x40"),
            },
            Emu::PCBoard => match self.rng.below(5) {
                0 => tok("PCBcolor", &format!("@X{}{}", self.rng.pick(&['0', '7', 'F', 'G', 'a']), self.rng.pick(&['0', '9', 'F', 'z']))),
                1 => tok("PCBcls", "@CLS@"),
                2 => tok("PCBpos", &format!("@POS:{}@", self.rng.pick(&["1", "80", "0", "999", "x"]))),
                3 => tok("PCBat", "@"),
                _ => tok("PCBmacro", &format!("@{}@", self.rng.pick(&["USER", "X", "", "POS:"]))),
            },
            Emu::CtrlA => {
                let c = *self.rng.pick(&['L', '\'', 'N', 'H', 'I', 'K', 'R', 'G', 'Y', 'B', 'M', 'C', 'W', '0', '1', '2', '3', '4', '5', '6', '7', '<', '>', '[', ']', 'A', 'Z', 'J', '/', '+', '-', '_', 'h', '\x01', '\u{80}', '\u{ff}']);
                tok(&format!("CtrlA{}", c.escape_default()), &format!("\x01{}", c))
            }
            Emu::Renegade => tok("RNG", &format!("|{}{}", self.rng.pick(&['0', '1', '2', '9', 'x']), self.rng.pick(&['0', '5', '9', 'y']))),
            Emu::Petscii => {
                let c = *self.rng.pick(&[0x05u8, 0x07, 0x08, 0x09, 0x0A, 0x0D, 0x0E, 0x11, 0x12, 0x13, 0x14, 0x1B, 0x1C, 0x1D, 0x1E, 0x1F, 0x81, 0x8D, 0x8E, 0x90, 0x91, 0x92, 0x93, 0x94, 0x9D, 0x9E, 0x9F, 0xFF, 0x0F, 0x8F]);
                tok(&format!("PET{:02x}", c), &(c as char).to_string())
            }
            Emu::Atascii => {
                let c = *self.rng.pick(&[0x1Bu8, 0x1C, 0x1D, 0x1E, 0x1F, 0x7D, 0x7E, 0x7F, 0x9B, 0x9C, 0x9D, 0x9E, 0x9F, 0xFD, 0xFE, 0xFF, 0x0A, 0x0D]);
                tok(&format!("ATA{:02x}", c), &(c as char).to_string())
            }
            Emu::Viewdata | Emu::Mode7 => {
                let c = *self.rng.pick(&[0x08u8, 0x09, 0x0A, 0x0B, 0x0C, 0x0D, 0x0E, 0x11, 0x14, 0x1B, 0x1E, 0x1F, 0x7F, 0x00, 0x05, 0x1C, 0x1D, 0x16, 0x17]);
                if self.rng.chance(1, 3) {
                    tok("VDesc", &format!("\x1b{}", (0x40 + self.rng.below(32) as u8) as char))
                } else {
                    tok(&format!("VD{:02x}", c), &(c as char).to_string())
                }
            }
            _ => self.c0(),
        }
    }
    pub fn token(&mut self, emu: Emu) -> Token {
        if emu.ansi_family() {
            let music = matches!(emu, Emu::Ansi(m) if m != 0);
            match self.rng.below(20) {
                0..=5 => self.csi(),
                6 | 7 => self.printable(),
                8 => self.c0(),
                9 => self.esc(),
                10 => self.lines(),
                11 => self.dcs(),
                12 => self.osc(),
                13 => {
                    if music {
                        self.music()
                    } else {
                        self.csi()
                    }
                }
                14 => self.raw(),
                15 | 16 => {
                    if matches!(emu, Emu::Ansi(_)) {
                        self.csi()
                    } else {
                        self.emu_specific(emu)
                    }
                }
                17 => self.capture_restore(),
                _ => self.csi(),
            }
        } else {
            match self.rng.below(10) {
                0..=3 => self.emu_specific(emu),
                4 | 5 => self.printable(),
                6 => self.lines(),
                7 => self.raw(),
                _ => self.c0(),
            }
        }
    }
    pub fn stream(&mut self, emu: Emu, ntok: usize) -> Vec<Token> {
        let toks: Vec<Token> = (0..ntok).map(|_| self.token(emu)).collect();
        // HPA / HPR read `Line::get_line_length` of the cursor row, which the model gets as an oracle value observed
        // *before* each top-level character.  Inside a macro replay the row may have changed since, so the model's
        // assumption (propsd: "HPA/HPR executed from inside a macro replay read the same line length …") only holds if
        // such sequences never get recorded into a macro: drop them while a device control string is open.
        let mut in_dcs = false;
        let mut out = Vec::with_capacity(toks.len());
        for t in toks {
            let reads_row = t.chars.len() >= 3 && t.chars[0] == '\x1b' && t.chars[1] == '[' && matches!(t.chars[t.chars.len() - 1], '\'' | 'a');
            if in_dcs && (reads_row || t.label == "raw") {
                continue;
            }
            for w in t.chars.windows(2) {
                if w[0] == '\x1b' && w[1] == 'P' {
                    in_dcs = true;
                } else if w[0] == '\x1b' && w[1] == '\\' {
                    in_dcs = false;
                }
            }
            out.push(t);
        }
        out
    }
}

pub fn stream_to_hex(tokens: &[Token]) -> String {
    // chars are encoded as UTF-8 then hex; replay decodes UTF-8
    let s: String = tokens.iter().flat_map(|t| t.chars.iter()).collect();
    hex(s.as_bytes())
}

pub fn chars_from_hex(h: &str) -> Vec<char> {
    String::from_utf8_lossy(&unhex(h)).chars().collect()
}

/// case id line format used between parent and worker: `<emu> <w> <h> <hex-utf8-stream>`
pub fn case_line(emu: Emu, w: i32, h: i32, tokens: &[Token]) -> String {
    let labels: Vec<String> = tokens.iter().map(|t| format!("{}*{}", t.label.replace([' ', ',', '*'], "_"), t.chars.len())).collect();
    format!("{} {} {} {} {}", emu.name(), w, h, stream_to_hex(tokens), labels.join(","))
}

/// (emu, w, h, chars, label of the token each char belongs to)
pub fn parse_case(line: &str) -> Option<(Emu, i32, i32, Vec<char>, Vec<String>)> {
    let mut it = line.split_whitespace();
    let emu = Emu::from_name(it.next()?)?;
    let w = it.next()?.parse().ok()?;
    let h = it.next()?.parse().ok()?;
    let chars = chars_from_hex(it.next()?);
    let mut labels: Vec<String> = Vec::new();
    if let Some(l) = it.next() {
        for part in l.split(',') {
            if let Some((lab, n)) = part.rsplit_once('*') {
                for _ in 0..n.parse::<usize>().unwrap_or(0) {
                    labels.push(lab.to_string());
                }
            }
        }
    }
    while labels.len() < chars.len() {
        labels.push("?".to_string());
    }
    Some((emu, w, h, chars, labels))
}

/// Runs `cases` in child processes (`<exe> <prop> --worker <in> <out>`); a child that dies (abort, stack overflow,
/// timeout) pins the case it was processing. Returns per case the worker's result lines, or Err(reason) for the
/// case that killed/hung the worker.
pub fn run_in_workers(prop: &str, dir: &std::path::Path, cases: &[String], timeout_s: u64) -> Vec<Result<Vec<String>, String>> {
    run_in_workers_capped(prop, dir, cases, timeout_s, usize::MAX)
}

/// `run_in_workers` that gives up after `max_deaths` dead children: the remaining cases get `Err("skipped")`
/// (a suffix that hangs would otherwise cost one timeout per group of the probe family)
pub fn run_in_workers_capped(prop: &str, dir: &std::path::Path, cases: &[String], timeout_s: u64, max_deaths: usize) -> Vec<Result<Vec<String>, String>> {
    let mut results: Vec<Result<Vec<String>, String>> = Vec::with_capacity(cases.len());
    let mut deaths = 0usize;
    let mut start = 0usize;
    let exe = std::env::current_exe().unwrap();
    let mut round = 0;
    while start < cases.len() {
        round += 1;
        let inp = dir.join(format!("worker_in_{}.txt", round));
        let outp = dir.join(format!("worker_out_{}.txt", round));
        std::fs::write(&inp, cases[start..].join("\n") + "\n").unwrap();
        let _ = std::fs::remove_file(&outp);
        // optional address-space cap (kB) so that a runaway allocation kills the worker, not the machine
        let vmem = std::env::var("VERIF_WORKER_VMEM_KB").ok();
        let mut cmd = if let Some(kb) = &vmem {
            let mut c = std::process::Command::new("sh");
            c.arg("-c").arg(format!("ulimit -v {}; exec \"$0\" \"$@\"", kb)).arg(&exe);
            c
        } else {
            std::process::Command::new(&exe)
        };
        let mut child = cmd
            .arg(prop)
            .arg("--worker")
            .arg(&inp)
            .arg("--out")
            .arg(&outp)
            .stdout(std::process::Stdio::null())
            .stderr(std::process::Stdio::null())
            .spawn()
            .unwrap();
        let t0 = std::time::Instant::now();
        let mut last_done = 0usize;
        let mut last_progress = std::time::Instant::now();
        let status = loop {
            if let Some(st) = child.try_wait().unwrap() {
                break Some(st);
            }
            std::thread::sleep(std::time::Duration::from_millis(20));
            // progress = number of "#done" markers
            if let Ok(t) = std::fs::read_to_string(&outp) {
                let d = t.matches("#done").count();
                if d != last_done {
                    last_done = d;
                    last_progress = std::time::Instant::now();
                }
            }
            if last_progress.elapsed().as_secs() >= timeout_s {
                let _ = child.kill();
                let _ = child.wait();
                break None;
            }
            let _ = t0;
        };
        let text = std::fs::read_to_string(&outp).unwrap_or_default();
        let mut cur: Vec<String> = Vec::new();
        let mut done = 0usize;
        for l in text.lines() {
            if l == "#done" {
                results.push(Ok(std::mem::take(&mut cur)));
                done += 1;
            } else {
                cur.push(l.to_string());
            }
        }
        let _ = std::fs::remove_file(&inp);
        let _ = std::fs::remove_file(&outp);
        let clean = matches!(status, Some(st) if st.success());
        if clean && start + done >= cases.len() {
            break;
        }
        // the case after the last "#done" killed or hung the worker
        if start + done < cases.len() {
            let reason = match status {
                None => "timeout".to_string(),
                Some(st) => format!("abort:{}", st),
            };
            results.push(Err(reason));
            start += done + 1;
            deaths += 1;
            if deaths >= max_deaths {
                while results.len() < cases.len() {
                    results.push(Err("skipped".to_string()));
                }
                break;
            }
        } else {
            break;
        }
    }
    results
}

pub fn worker_loop(inp: &str, out: &std::path::Path, mut f: impl FnMut(&str, &mut dyn FnMut(String))) {
    let text = std::fs::read_to_string(inp).unwrap();
    let mut o = std::fs::File::create(out).unwrap();
    for line in text.lines() {
        if line.trim().is_empty() {
            continue;
        }
        let mut buf: Vec<String> = Vec::new();
        f(line, &mut |s| buf.push(s));
        for l in buf {
            writeln!(o, "{}", l).unwrap();
        }
        writeln!(o, "#done").unwrap();
        o.flush().unwrap();
    }
}

/// One case in the worker: feeds the stream and emits records
///   `P <i> <site> <label> <loc>`   panic (stream stops)
///   `C <i> <label> <x> <y> <first> <w> <h>`  cursor left the visible screen at char i (first transition only)
///   `G <i> <label>`                fixed-grid emulation changed size / grew a scrollback
///   `Z <i> <label> <tw> <th> <w> <h>` the terminal size changed although no resize was requested (first time)
///   `T <i> <label> <ms> <lines>`   token took >= slow_ms, or line count after it exceeds h + chars consumed + 1
///   `S <chars> <errs> <ok-after-err> <hash>` summary, hash = rolling FNV of the per-char digests
pub fn run_case(line: &str, slow_ms: u128, emit: &mut dyn FnMut(String)) {
    run_case_ex(line, slow_ms, false, emit)
}

/// `run_case` with the failing-input search of C01 / C09: with `search`, the first character after which the real
/// terminal leaves the invariant proved for the model (`probe::good_state`, i.e. `GoodSt` of Lemmas/TermStep.lean)
/// starts a probe run — the prefix up to and including that character is extended with every probe suffix
/// (`probe::probe_all`, records `Q …`).  On a tree that satisfies the invariant this costs one predicate per character.
pub fn run_case_ex(line: &str, slow_ms: u128, search: bool, emit: &mut dyn FnMut(String)) {
    let Some((emu, w, h, chars, labels)) = parse_case(line) else {
        emit("BAD".into());
        return;
    };
    let mut t = Term::new(emu, w, h);
    let mut errs = 0u32;
    let mut after_err_ok = 0u32;
    let mut inside = true;
    let mut grid = true;
    let mut size_same = true;
    let mut resized = false;
    let mut hash: u64 = 14695981039346656037;
    let mut tok_start = Stopwatch::start();
    let mut tok_lines = 0usize;
    let modelled = true;
    let mut items: Vec<String> = Vec::new();
    let mut mh: u64 = 14695981039346656037;
    let mut checkpoints: Vec<u64> = Vec::new();
    let mut searched = false;
    for (i, ch) in chars.iter().enumerate() {
        let line_len = if modelled { t.caret_line_len() } else { 0 };
        if i == 0 || labels[i] != labels[i - 1] || true {
            // token boundaries are approximated by label changes; time is measured per character run of a label
        }
        if i == 0 || labels[i] != labels[i - 1] {
            tok_start = Stopwatch::start();
            tok_lines = t.buf.layers[0].lines.len();
        }
        let out = t.feed(*ch);
        if modelled {
            let (ostr, ext) = match &out {
                Outcome::Ok => ("ok", 1),
                Outcome::Err => ("err", 0),
                Outcome::Resize(_, _) => ("resize", 1),
                Outcome::Panic(_, _) => ("panic", 0),
            };
            items.push(format!("{}:{}:{}", *ch as u32, line_len, ext));
            if ostr != "panic" {
                mh = fnv_step(mh, t.geo_hash(ostr));
                if (i + 1) % 32 == 0 {
                    checkpoints.push(mh);
                }
            }
        }
        match out {
            Outcome::Panic(site, loc) => {
                emit(format!("P {} {} {} {}", i, site, labels[i], loc));
                if modelled {
                    emit(format!("M {}", model_op(emu, w, h, &items)));
                    emit(format!("I panic after {}: {}", i, site));
                }
                return; // state after an unwinding panic is not meaningful
            }
            Outcome::Err => errs += 1,
            Outcome::Resize(_, _) => resized = true,
            Outcome::Ok => {
                if errs > 0 {
                    after_err_ok += 1;
                }
            }
        }
        resized = resized || t.resized_in_macro;
        hash = fnv_step(hash, fnv(t.digest().bytes().map(|b| b as u64)));
        if !resized {
            let now_inside = t.cursor_in_screen();
            if inside && !now_inside {
                let p = t.caret.get_position();
                emit(format!("C {} {} {} {} {} {} {}", i, labels[i], p.x, p.y, t.exp_first_visible(), t.exp_w, t.exp_h));
            }
            inside = now_inside;
            let sz = t.size_ok();
            if size_same && !sz {
                emit(format!("Z {} {} {} {} {} {}", i, labels[i], t.buf.terminal_state.get_width(), t.buf.terminal_state.get_height(), t.exp_w, t.exp_h));
            }
            size_same = sz;
        }
        if emu.fixed_grid() {
            let g = t.grid_ok();
            if grid && !g {
                emit(format!("G {} {}", i, labels[i]));
            }
            grid = g;
        }
        if search && !searched && !crate::probe::good_state(&t, resized) {
            searched = true;
            emit(format!("Q V {} {} {}", crate::probe::short_id(emu, w, h, &chars[..=i]), i, labels[i]));
            crate::probe::probe_all(emu, w, h, &chars[..=i], emit);
        }
        let last_of_token = i + 1 == chars.len() || labels[i + 1] != labels[i];
        if last_of_token {
            let ms = tok_start.ms();
            let lines = t.buf.layers[0].lines.len();
            let th = t.buf.terminal_state.get_height().max(h) as usize;
            // a token may add at most a screenful of rows (macro invocations: bounded by the expansion budget instead)
            let grew = lines.saturating_sub(tok_lines);
            let is_macro = labels[i].contains("CSI_z") || labels[i].contains("DCS") || labels[i] == "raw";
            let tok_len = labels[..=i].iter().rev().take_while(|l| **l == labels[i]).count();
            let avt = if labels[i].starts_with("AVTrep") { 255 } else { 0 }; // an Avatar repeat is up to 255 characters
            if ms >= slow_ms || (!is_macro && grew > th + 2 + tok_len + avt) {
                emit(format!("T {} {} {} {}", i, labels[i], ms, grew));
            }
        }
    }
    if modelled {
        emit(format!("M {}", model_op(emu, w, h, &items)));
        let d: Vec<String> = t.geo_ints().iter().map(|v| v.to_string()).collect();
        let cps: Vec<String> = checkpoints.iter().map(|v| v.to_string()).collect();
        emit(format!("I {} {} [{}] {}", chars.len(), mh, d.join(" "), cps.join(" ")));
    }
    emit(format!("S {} {} {} {}", chars.len(), errs, after_err_ok, hash));
}

fn model_op(emu: Emu, w: i32, h: i32, items: &[String]) -> String {
    let its = if items.is_empty() { "-".to_string() } else { items.join(",") };
    match emu {
        Emu::Ansi(m) => format!("term run {} 1 {} {} {}", m, w, h, its),
        Emu::Avatar | Emu::PCBoard | Emu::CtrlA | Emu::Renegade => format!("term runw {} {} {} {}", emu.name(), w, h, its),
        _ => format!("term runo {} {} {} {}", emu.name(), w, h, its),
    }
}

/// the control-code alphabet of a byte-oriented emulation plus two printables; used for exhaustive short streams
pub fn byte_alphabet(emu: Emu) -> Vec<Token> {
    let codes: Vec<u32> = match emu {
        Emu::Atascii => vec![0x1B, 0x1C, 0x1D, 0x1E, 0x1F, 0x7D, 0x7E, 0x7F, 0x9B, 0x9C, 0x9D, 0x9E, 0x9F, 0xFD, 0xFE, 0xFF, 0x41, 0xC1],
        Emu::Petscii => vec![0x05, 0x0A, 0x0D, 0x0E, 0x11, 0x12, 0x13, 0x14, 0x1B, 0x1D, 0x8D, 0x8E, 0x91, 0x92, 0x93, 0x9D, 0xFF, 0x41, 0x44, 0x49, 0x4A, 0x4B, 0x50, 0x51, 0x40, 0x00],
        Emu::Viewdata => vec![0x08, 0x09, 0x0A, 0x0B, 0x0C, 0x0D, 0x11, 0x14, 0x1B, 0x1E, 0x41, 0x5E, 0x7F, 0x00],
        Emu::Mode7 => vec![0x08, 0x09, 0x0A, 0x0B, 0x0C, 0x0D, 0x1E, 0x7F, 0x81, 0x91, 0x9E, 0x9F, 0x41, 0xA0, 0xFF, 0x00],
        Emu::Ascii => vec![0x00, 0x07, 0x08, 0x0A, 0x0C, 0x0D, 0x7F, 0xFF, 0x41],
        Emu::Avatar => vec![0x0C, 0x16, 0x19, 0x01, 0x02, 0x03, 0x04, 0x05, 0x06, 0x07, 0x08, 0x0A, 0x41, 0xC8],
        Emu::CtrlA => vec![0x01, 0x4C, 0x27, 0x4A, 0x3E, 0x3C, 0x7C, 0x5D, 0x41, 0x0A, 0xC8],
        _ => vec![],
    };
    codes.into_iter().map(|c| Token { label: format!("b{:02x}", c), chars: vec![char::from_u32(c).unwrap()] }).collect()
}

/// all streams of exactly `depth` tokens over `alpha`, each preceded by `prefix`
pub fn exhaustive(emu: Emu, w: i32, h: i32, prefix: &[Token], alpha: &[Token], depth: usize, out: &mut Vec<String>) {
    let n = alpha.len();
    if n == 0 {
        return;
    }
    let total = n.pow(depth as u32);
    for k in 0..total {
        let mut toks: Vec<Token> = prefix.to_vec();
        let mut v = k;
        for _ in 0..depth {
            toks.push(alpha[v % n].clone());
            v /= n;
        }
        out.push(case_line(emu, w, h, &toks));
    }
}
