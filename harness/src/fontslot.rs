//! C17, "which font goes where": the indirection between the font PAGE the cells of a picture are on, the SLOT of the buffer's
//! font table the font sits in, and the slot the loader puts it back into.  The container generators of `fontbox.rs` keep this
//! indirection at the identity (page 0 <-> slot 0, built-in default font only in slot 0); the families here vary it
//! systematically, through the same `box:` / `icy:` cases (same correspondence lines, same oracle):
//!
//! * `page`  — XBin / ADF / IDF pictures whose cells are all on ONE page k != 0 while slot 0 holds a DIFFERENT font (the built-in
//!   default, another built-in page, a custom font of the same height, one bit away from the font under test's neighbour …);
//!   XBin 512-character pictures on TWO pages (j, k) other than (0, 1) with other fonts in the unused slots;
//! * `slot0` — the height test of ADF / IDF looks at slot 0, the embedded font is the one of page k: every combination of
//!   {8x16, not 8x16} over (slot 0, slot k) — in the domain iff the font of page k is 8x16;
//! * `noslot0` — no font in slot 0 at all (not a state of the engine's buffers; writer outcome compared with the model only);
//! * `icy` — IcyDraw documents with every injective placement of {built-in default, other built-in, custom} (and, four at a
//!   time, the default glyphs under another name / another font under the default name) over slots {0, 1, 5, 300}, slot 0
//!   always filled.
use crate::fontbox::FontSpec;
use crate::util::*;
use icy_engine::BitFont;

fn fs(slot: usize, kind: &str, h: usize, seed: u64, flags: &str) -> FontSpec {
    FontSpec { slot, kind: kind.to_string(), h, seed, flags: flags.to_string() }
}

fn tok(f: &[FontSpec]) -> String {
    f.iter().map(|x| x.token()).collect::<Vec<_>>().join(",")
}

fn pal(rng: &mut Rng, custom: bool) -> String {
    if custom {
        format!("c{}", rng.below(1000))
    } else {
        "d".into()
    }
}

/// built-in font pages that are 8x16 (ADF / IDF can hold them)
fn pages16(thorough: bool, rng: &mut Rng) -> Vec<usize> {
    let all: Vec<usize> = (1..=42).filter(|p| BitFont::from_ansi_font_page(*p).map(|f| f.size.height == 16 && f.length == 256).unwrap_or(false)).collect();
    if thorough || all.len() <= 3 {
        all
    } else {
        let a = all[rng.below(all.len() as u64) as usize];
        let b = all[rng.below(all.len() as u64) as usize];
        vec![a, b, *all.last().unwrap()]
    }
}

pub fn cases(rng: &mut Rng, thorough: bool) -> Vec<String> {
    let mut v: Vec<String> = Vec::new();
    let kinds = ["r", "x", "z", "o", "i", "j"];
    let ks: Vec<usize> = if thorough { vec![1, 2, 3, 5, 7, 42, 100, 255, 256, 300, 65535, 65536] } else { vec![1, 3, 42, 300, *rng.pick(&[2usize, 5, 7, 100, 255, 256, 65535, 65536])] };
    let p16 = pages16(thorough, rng);
    let mut n = 0usize;
    // ---------------------------------------------------------------------------------------------- page k != 0, one page
    for fmt in ["adf", "idf", "xb"] {
        for k in ks.iter().copied() {
            // what sits in slot 0 (never referenced by a cell): built-in default / another built-in page / a custom font of the
            // same height with other glyphs / the default glyphs with one bit flipped, named like the default
            let other_builtin = format!("p{}", p16[n % p16.len()]);
            let slot0s: Vec<FontSpec> = vec![fs(0, "p0", 0, 0, "q"), fs(0, &other_builtin, 0, 0, "q"), fs(0, kinds[n % 6], 16, rng.below(1000), "q"), fs(0, "d", 16, 1 + rng.below(32768), "nq")];
            // what sits in slot k (the font of the picture): custom glyph patterns, the BUILT-IN DEFAULT (XBin leaves it out),
            // another built-in page, a font named like the default
            let slotks: Vec<FontSpec> = vec![
                fs(k, kinds[(n + 1) % 6], 16, rng.below(1000), ""),
                fs(k, kinds[(n + 4) % 6], 16, rng.below(1000), ""),
                fs(k, "p0", 0, 0, ""),
                fs(k, &format!("p{}", p16[(n + 1) % p16.len()]), 0, 0, ""),
                fs(k, "i", 16, rng.below(1000), "n"),
            ];
            for (i, s0) in slot0s.iter().enumerate() {
                for (j, sk) in slotks.iter().enumerate() {
                    // quick tier: a Latin-square selection of the 4 x 5 combinations per (format, k); thorough: all
                    if !thorough && (i + j + n) % 3 != 0 {
                        continue;
                    }
                    if s0.kind == sk.kind && s0.kind.starts_with('p') {
                        continue; // the same font in both slots shows nothing
                    }
                    let opts = match fmt {
                        "adf" => rng.below(2),
                        _ => rng.below(4),
                    };
                    let (w, h) = match fmt {
                        "adf" => (80usize, 1 + rng.below(2) as usize),
                        "idf" => (*rng.pick(&[1usize, 3, 80]), 1 + rng.below(3) as usize),
                        _ => (*rng.pick(&[2usize, 5, 80]), 1 + rng.below(2) as usize),
                    };
                    let ice = if fmt == "xb" { 1 + rng.below(2) } else { 2 };
                    let custom_pal = rng.chance(1, 2);
                    v.push(format!("box:{fmt}:{opts}:{ice}:{}:{w}x{h}:{}:{}", pal(rng, custom_pal), rng.below(50), tok(&[s0.clone(), sk.clone()])));
                }
            }
            n += 1;
        }
    }
    // XBin, other heights: slot 0 and slot k need not agree in height (only the font in use is written)
    for k in ks.iter().copied() {
        for (h0, hk) in [(16usize, 8usize), (8, 16), (14, 19), (32, 1), (16, 32)] {
            let opts = rng.below(4);
            let s0 = if h0 == 16 && rng.chance(1, 2) { fs(0, "p0", 0, 0, "q") } else { fs(0, kinds[n % 6], h0, rng.below(1000), "q") };
            v.push(format!("box:xb:{opts}:{}:{}:4x2:{}:{}", 1 + rng.below(2), pal(rng, n % 2 == 0), rng.below(50), tok(&[s0, fs(k, kinds[(n + 2) % 6], hk, rng.below(1000), "")])));
            n += 1;
        }
    }
    // ---------------------------------------------------------------------------------------------- XBin 512: two pages (j, k)
    let pairs: Vec<(usize, usize)> = if thorough { vec![(0, 1), (0, 3), (1, 4), (2, 5), (3, 300), (1, 2), (0, 256), (42, 43), (255, 65536)] } else { vec![(0, 3), (1, 4), (2, 5), (3, 300), *rng.pick(&[(1usize, 2usize), (0, 256), (42, 43), (255, 65536)])] };
    for (j, k) in pairs {
        for h in if thorough { vec![1usize, 8, 14, 16, 19, 32] } else { vec![8usize, 16, *rng.pick(&[1usize, 14, 19, 32])] } {
            // quick tier: two of the four option sets, complementary (SAUCE and compression each once on, once off)
            let sel = rng.below(2) as u8;
            for opts in 0..4u8 {
                if !thorough && opts != sel && opts != 3 - sel {
                    continue;
                }
                n += 1;
                // the slots 0 and 1 the loader will use hold OTHER fonts as long as the picture does not use them
                let mut fonts: Vec<FontSpec> = Vec::new();
                for unused in [0usize, 1] {
                    if unused != j && unused != k {
                        fonts.push(match (n + unused) % 3 {
                            0 => fs(unused, "p0", 0, 0, "q"),
                            1 => fs(unused, kinds[(n + unused) % 6], h, rng.below(1000), "q"),
                            _ => fs(unused, kinds[(n + unused) % 6], if h == 16 { 14 } else { 16 }, rng.below(1000), "q"),
                        });
                    }
                }
                // first font: custom / the built-in default (height 16 only) — a second font forces the block in any case
                fonts.push(if h == 16 && n % 4 == 0 { fs(j, "p0", 0, 0, "") } else { fs(j, kinds[n % 6], h, rng.below(1000), "") });
                fonts.push(if h == 16 && n % 4 == 1 { fs(k, "p0", 0, 0, "") } else { fs(k, kinds[(n + 3) % 6], h, rng.below(1000), "") });
                fonts.sort_by_key(|f| f.slot);
                v.push(format!("box:xb:{opts}:{}:{}:{}:{}:{}", 1 + rng.below(2), pal(rng, n % 2 == 1), *rng.pick(&["4x1", "6x2", "80x1"]), rng.below(50), tok(&fonts)));
            }
        }
    }
    // ---------------------------------------------------------------------------------------------- ADF / IDF: whose height counts
    for fmt in ["adf", "idf"] {
        for k in [ks[0], ks[ks.len() - 1], ks[rng.below(ks.len() as u64) as usize]] {
            for not16 in if thorough { vec![1usize, 8, 14, 15, 17, 19, 32] } else { vec![14usize, *rng.pick(&[1usize, 8, 15, 17, 19, 32])] } {
                let w = if fmt == "adf" { 80 } else { 4 };
                for opts in if fmt == "adf" { vec![0u8, 1] } else { vec![0u8, 3] } {
                    // slot 0 is 8x16, the font of the picture is not: outside the domain, to be refused
                    v.push(format!("box:{fmt}:{opts}:2:{}:{w}x1:{}:{}:x", pal(rng, n % 2 == 0), rng.below(50), tok(&[fs(0, if n % 2 == 0 { "p0" } else { "r" }, 16, rng.below(1000), "q"), fs(k, kinds[n % 6], not16, rng.below(1000), "")])));
                    // slot 0 is not 8x16, the font of the picture is: inside the domain
                    v.push(format!("box:{fmt}:{opts}:2:{}:{w}x1:{}:{}", pal(rng, n % 2 == 1), rng.below(50), tok(&[fs(0, kinds[(n + 1) % 6], not16, rng.below(1000), "q"), fs(k, kinds[n % 6], 16, rng.below(1000), "")])));
                    // neither is: refused
                    v.push(format!("box:{fmt}:{opts}:2:d:{w}x1:{}:{}:x", rng.below(50), tok(&[fs(0, kinds[(n + 1) % 6], not16, rng.below(1000), "q"), fs(k, kinds[n % 6], not16, rng.below(1000), "")])));
                    n += 1;
                }
            }
        }
    }
    // ---------------------------------------------------------------------------------------------- no font in slot 0
    for fmt in ["adf", "idf", "xb"] {
        for opts in if fmt == "adf" { vec![0u8, 1] } else { vec![0u8, 1, 2, 3] } {
            let w = if fmt == "adf" { 80 } else { 4 };
            let k = ks[rng.below(ks.len() as u64) as usize];
            v.push(format!("box:{fmt}:{opts}:2:{}:{w}x1:{}:{}:p", pal(rng, n % 2 == 0), rng.below(50), tok(&[fs(k, kinds[n % 6], 16, rng.below(1000), "")])));
            n += 1;
        }
    }
    // ---------------------------------------------------------------------------------------------- IcyDraw: which font in which slot
    let slots = [0usize, 1, 5, 300];
    let mut docs: Vec<Vec<FontSpec>> = Vec::new();
    {
        let mut mk = |kind: u8, slot: usize, rng: &mut Rng| -> FontSpec {
            match kind {
                0 => fs(slot, "p0", 0, 0, ""),                                             // the built-in default font
                1 => fs(slot, &format!("p{}", 1 + rng.below(42)), 0, 0, ""),             // another built-in page
                2 => fs(slot, kinds[rng.below(6) as usize], rng.range(1, 32) as usize, rng.below(1000), if rng.chance(1, 4) { "w" } else { "" }), // custom
                3 => fs(slot, "d", 16, 0, ""),                                              // the default glyphs under another name
                _ => fs(slot, kinds[rng.below(6) as usize], 16, rng.below(1000), "n"),     // other glyphs under the default name
            }
        };
        // three kinds over four slots, injective, slot 0 filled: 18 placements
        for a in 0..4 {
            for b in 0..4 {
                for c in 0..4 {
                    if a == b || a == c || b == c || (a != 0 && b != 0 && c != 0) {
                        continue;
                    }
                    let mut d = vec![mk(0, slots[a], rng), mk(1, slots[b], rng), mk(2, slots[c], rng)];
                    d.sort_by_key(|f| f.slot);
                    docs.push(d);
                }
            }
        }
        // four at a time: every slot filled; default + other built-in + custom + (default glyphs renamed | default name, other glyphs)
        let perms4: Vec<[usize; 4]> = {
            let mut p = Vec::new();
            for a in 0..4 {
                for b in 0..4 {
                    for c in 0..4 {
                        for d in 0..4 {
                            if a != b && a != c && a != d && b != c && b != d && c != d {
                                p.push([a, b, c, d]);
                            }
                        }
                    }
                }
            }
            p
        };
        for (i, p) in perms4.iter().enumerate() {
            if !thorough && i % 3 != (n % 3) {
                continue;
            }
            let mut d = vec![mk(0, slots[p[0]], rng), mk(1, slots[p[1]], rng), mk(2, slots[p[2]], rng), mk(3 + (i % 2) as u8, slots[p[3]], rng)];
            d.sort_by_key(|f| f.slot);
            docs.push(d);
        }
        // the default font in several slots at once, and alone in a slot != 0 next to a custom slot 0
        docs.push(vec![mk(0, 0, rng), mk(0, 1, rng), mk(0, 5, rng), mk(0, 300, rng)]);
        docs.push(vec![mk(2, 0, rng), mk(0, 300, rng)]);
        docs.push(vec![mk(4, 0, rng), mk(0, 1, rng), mk(3, 5, rng)]);
    }
    for (i, d) in docs.iter().enumerate() {
        v.push(format!("icy:{}:{}:{}:{}", i % 2, pal(rng, i % 3 == 0), 1 + i % 2, tok(d)));
    }
    v
}
