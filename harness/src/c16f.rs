//! C16, whole files WRITTEN FROM A PICTURE: the palette that comes back from `Buffer::to_bytes` -> `Buffer::from_bytes`.
//!
//! The older file cases of c16s.rs hand the model only the bytes the engine wrote (loader side) and build one-font pictures;
//! a writer that stores a different palette for some pictures is invisible there.  Here the MODEL WRITES TOO: a case is a whole
//! picture in the token format of C05 (`<fmt>:<ice>:<w>:<opts>:<palette>:<fonts>:<alphabet>:<symbols>`), and the family is the
//! product {xb, adf, idf, tnd} x {1, 2 fonts} x {default, custom low half, custom high half, custom all, 8 / 15 / 17 / 32
//! colours} x {six-bit exact, arbitrary 8-bit} x {raw, compressed, SAUCE}.
//!
//! correspondence: `palstream savepal <case> <date>` -> `ok <file length> <fnv of the file> <loaded palette>` | `save-err` |
//!   `save-panic` | `rej` (model: `BinFormats.save` then `BinFormats.fromBytes`, the whole-file model of C05)
//! oracle (implementation alone): palette read back = palette saved, at 6-bit precision, ALL SIXTEEN entries (XBin pads a
//!   shorter palette with the DOS colours); Tundra (no palette block): every cell shows the RGB colours it was saved with.
use crate::util::*;
use icy_engine::{AttributedChar, BitFont, Buffer, Color, IceMode, Palette, SaveOptions, TextAttribute, TextPane};
use std::path::Path;

type Rgb = (u8, u8, u8);

#[derive(Clone, Debug, PartialEq)]
struct Cell {
    ch: u32,
    fg: u32,
    bg: u32,
    flags: u16,
    page: usize,
}

#[derive(Clone, Debug)]
struct Case {
    fmt: String,
    ice: u8,  // 0 Unlimited, 1 Blink, 2 Ice
    w: usize,
    opts: u8, // bit0 SAUCE, bit1 compress
    pal: Option<Vec<Rgb>>,
    fonts: Vec<(usize, Option<(u8, u32)>)>, // slot -> None = built-in default font | (height, seed) synthetic
    cells: Vec<Cell>,
}

const B36: &[u8] = b"0123456789abcdefghijklmnopqrstuvwxyz";

fn token(c: &Case) -> String {
    let mut alpha: Vec<Cell> = Vec::new();
    let mut syms = String::new();
    for cell in &c.cells {
        let i = match alpha.iter().position(|a| a == cell) {
            Some(i) => i,
            None => {
                alpha.push(cell.clone());
                alpha.len() - 1
            }
        };
        syms.push(B36[i.min(35)] as char);
    }
    assert!(alpha.len() <= 36, "savepal cases use at most 36 distinct cells");
    let pal = match &c.pal {
        None => "d".to_string(),
        Some(v) => format!("p{}", v.iter().map(|(r, g, b)| format!("{:02x}{:02x}{:02x}", r, g, b)).collect::<String>()),
    };
    let fonts = if c.fonts.is_empty() {
        "-".to_string()
    } else {
        c.fonts.iter().map(|(s, f)| match f {
            None => format!("{}.d", s),
            Some((h, seed)) => format!("{}.g{}.{}", s, h, seed),
        }).collect::<Vec<_>>().join(",")
    };
    let a: Vec<String> = alpha.iter().map(|c| format!("{}.{}.{}.{}.{}", c.ch, c.fg, c.bg, c.flags, c.page)).collect();
    format!("{}:{}:{}:{}:{}:{}:{}:{}", c.fmt, c.ice, c.w, c.opts, pal, fonts, a.join(","), syms)
}

fn parse_token(t: &str) -> Option<Case> {
    let p: Vec<&str> = t.trim().split(':').collect();
    if p.len() != 8 {
        return None;
    }
    let pal = if p[4] == "d" {
        None
    } else {
        let hx = p[4].strip_prefix('p')?;
        if hx.len() % 6 != 0 {
            return None;
        }
        Some(unhex(if hx.is_empty() { "-" } else { hx }).chunks(3).map(|c| (c[0], c[1], c[2])).collect())
    };
    let mut fonts = Vec::new();
    if p[5] != "-" {
        for f in p[5].split(',') {
            let q: Vec<&str> = f.split('.').collect();
            let slot: usize = q.first()?.parse().ok()?;
            if q.len() == 2 && q[1] == "d" {
                fonts.push((slot, None));
            } else if q.len() == 3 && q[1].starts_with('g') {
                fonts.push((slot, Some((q[1][1..].parse().ok()?, q[2].parse().ok()?))));
            } else {
                return None;
            }
        }
    }
    let mut alpha = Vec::new();
    for c in p[6].split(',') {
        let f: Vec<&str> = c.split('.').collect();
        if f.len() != 5 {
            return None;
        }
        alpha.push(Cell { ch: f[0].parse().ok()?, fg: f[1].parse().ok()?, bg: f[2].parse().ok()?, flags: f[3].parse().ok()?, page: f[4].parse().ok()? });
    }
    let mut cells = Vec::new();
    for b in p[7].bytes() {
        cells.push(alpha.get(B36.iter().position(|x| *x == b)?)?.clone());
    }
    let w: usize = p[2].parse().ok()?;
    if w == 0 || cells.is_empty() || cells.len() % w != 0 {
        return None;
    }
    Some(Case { fmt: p[0].to_string(), ice: p[1].parse().ok()?, w, opts: p[3].parse().ok()?, pal, fonts, cells })
}

/// synthetic glyph data, the same formula as `genFontData` in Drv/BinFormats.lean
fn gen_font_data(h: u8, seed: u32) -> Vec<u8> {
    let h = h as usize;
    (0..256 * h).map(|i| ((i * 7 + (i / h.max(1)) * 31 + (seed as usize) * 13 + (i % 5) * (seed as usize)) % 256) as u8).collect()
}

fn build(case: &Case) -> Buffer {
    let h = case.cells.len() / case.w;
    let mut buf = Buffer::new((case.w as i32, h as i32));
    buf.is_terminal_buffer = false;
    buf.ice_mode = match case.ice {
        0 => IceMode::Unlimited,
        1 => IceMode::Blink,
        _ => IceMode::Ice,
    };
    if let Some(p) = &case.pal {
        let cols: Vec<Color> = p.iter().map(|(r, g, b)| Color::new(*r, *g, *b)).collect();
        buf.palette = Palette::from_slice(&cols);
    }
    buf.clear_font_table();
    for (slot, f) in &case.fonts {
        let font = match f {
            None => BitFont::default(),
            Some((h, seed)) => BitFont::create_8(format!("G{}x{}", h, seed), 8, *h, &gen_font_data(*h, *seed)),
        };
        buf.set_font(*slot, font);
    }
    for (i, c) in case.cells.iter().enumerate() {
        let mut a = TextAttribute::new(c.fg, c.bg);
        a.attr = c.flags;
        a.set_font_page(c.page);
        buf.layers[0].set_char(((i % case.w) as i32, (i / case.w) as i32), AttributedChar::new(char::from_u32(c.ch).unwrap_or('?'), a));
    }
    buf
}

fn quant(v: u8) -> u8 {
    let s = v >> 2;
    s << 2 | s >> 4
}

fn hex6(c: Rgb) -> String {
    format!("{:02x}{:02x}{:02x}", c.0, c.1, c.2)
}

fn pal_kind(case: &Case) -> &'static str {
    let dos: Vec<Rgb> = Palette::dos_default().color_iter().map(|c| c.get_rgb()).collect();
    match &case.pal {
        None => "default",
        Some(p) if *p == dos => "default",
        Some(p) if p.len() < 16 => "fewer-than-16",
        Some(p) if p.len() > 16 => "more-than-16",
        Some(p) => {
            let lo = p[..8] != dos[..8];
            let hi = p[8..] != dos[8..];
            match (lo, hi) {
                (true, true) => "custom-all",
                (true, false) => "custom-low-half",
                (false, true) => "custom-high-half",
                _ => "default",
            }
        }
    }
}

fn savepal_case(run: &mut Run, case: &Case) {
    let tok = token(case);
    let inp = format!("savepal:{}", tok);
    run.nontrivial(fnv(inp.bytes().map(|b| b as u64)));
    let pages: std::collections::BTreeSet<usize> = case.cells.iter().map(|c| c.page).collect();
    let six = case.pal.as_ref().map(|p| p.iter().all(|c| quant(c.0) == c.0 && quant(c.1) == c.1 && quant(c.2) == c.2)).unwrap_or(true);
    run.count(&format!("savepal/{}/fonts{}/{}{}", case.fmt, pages.len(), pal_kind(case), if six { "" } else { "/8-bit" }));
    run.count(&format!("savepal/opts{}", case.opts));
    let buf = build(case);
    let mut o = SaveOptions::new();
    o.compress = case.opts & 2 != 0;
    o.save_sauce = case.opts & 1 != 0;
    o.lossles_output = true;
    let ext = case.fmt.clone();
    let saved = catch(std::panic::AssertUnwindSafe(|| buf.to_bytes(&ext, &o)));
    let date_of = |bytes: &[u8]| -> String {
        if bytes.len() >= 128 && &bytes[bytes.len() - 128..bytes.len() - 123] == b"SAUCE" {
            String::from_utf8_lossy(&bytes[bytes.len() - 128 + 82..bytes.len() - 128 + 90]).to_string()
        } else {
            "19700101".to_string()
        }
    };
    let bytes = match saved {
        Ok(Ok(b)) => b,
        Ok(Err(_)) => {
            run.case(&format!("palstream savepal {} 19700101", tok), "save-err");
            run.count(&format!("savepal/{}/save-err", case.fmt));
            return;
        }
        Err(loc) => {
            run.case(&format!("palstream savepal {} 19700101", tok), "save-panic");
            run.oracle_fail(&format!("panic/{}", panic_site(&loc)), &inp, "saving the picture panicked");
            return;
        }
    };
    let op = format!("palstream savepal {} {}", tok, date_of(&bytes));
    let name = format!("a.{}", case.fmt);
    let b2 = bytes.clone();
    let loaded = match catch(move || Buffer::from_bytes(Path::new(&name), false, &b2)) {
        Ok(Ok(b)) => b,
        _ => {
            run.case(&op, "rej");
            run.oracle_fail(&format!("savepal/{}/load", case.fmt), &inp, "the file just written does not load");
            return;
        }
    };
    run.case(&op, &format!("ok {} {} {}", bytes.len(), fnv(bytes.iter().map(|b| *b as u64)), hex(&loaded.palette.as_vec())));
    // ---- the property on the implementation
    if case.fmt == "tnd" {
        // no palette block: every cell must show the colours it was saved with
        for (i, c) in case.cells.iter().enumerate() {
            let (x, y) = ((i % case.w) as i32, (i / case.w) as i32);
            let l = loaded.get_char((x, y));
            let want = (buf.palette.get_rgb(c.fg), buf.palette.get_rgb(c.bg));
            let got = (loaded.palette.get_rgb(l.attribute.get_foreground()), loaded.palette.get_rgb(l.attribute.get_background()));
            if want != got {
                run.oracle_fail("savepal/tnd/colours_rt", &inp, &format!("cell ({},{}) was saved showing {}/{} and shows {}/{} after save -> load", x, y, hex6(want.0), hex6(want.1), hex6(got.0), hex6(got.1)));
                break;
            }
        }
        return;
    }
    let mut want = buf.palette.clone();
    want.fill_to_16();
    let want: Vec<Rgb> = want.color_iter().map(|c| c.get_rgb()).map(|c| (quant(c.0), quant(c.1), quant(c.2))).collect();
    let got: Vec<Rgb> = loaded.palette.color_iter().map(|c| c.get_rgb()).collect();
    if got != want {
        let i = (0..got.len().min(want.len())).find(|i| got[*i] != want[*i]).unwrap_or(got.len().min(want.len()));
        run.oracle_fail(
            &format!("savepal/{}/palette_rt", case.fmt),
            &inp,
            &format!(
                "palette entry {} was saved as {} (six-bit {}) and came back as {} ({} font{}, {} -> {} colours)",
                i,
                hex6(buf.palette.get_rgb(i as u32)),
                want.get(i).map(|c| hex6(*c)).unwrap_or_else(|| "-".into()),
                got.get(i).map(|c| hex6(*c)).unwrap_or_else(|| "-".into()),
                pages.len(),
                if pages.len() == 1 { "" } else { "s" },
                buf.palette.len(),
                got.len()
            ),
        );
    }
}

pub fn replay(run: &mut Run, inp: &str) {
    if let Some(t) = inp.trim().strip_prefix("savepal:") {
        if let Some(c) = parse_token(t) {
            savepal_case(run, &c);
        }
    }
}

// ------------------------------------------------------------------------------------------------ the family
fn rnd_color(rng: &mut Rng, six: bool) -> Rgb {
    let mut v = || if six { quant(rng.next() as u8) } else { rng.next() as u8 };
    (v(), v(), v())
}

/// kinds: 0 default, 1 custom low half, 2 custom high half, 3 custom all, 4 eight colours, 5 fifteen, 6 seventeen, 7 thirty-two
fn make_palette(rng: &mut Rng, kind: usize, six: bool) -> Option<Vec<Rgb>> {
    let dos: Vec<Rgb> = Palette::dos_default().color_iter().map(|c| c.get_rgb()).collect();
    let mut fresh = |rng: &mut Rng, avoid: Rgb| loop {
        let c = rnd_color(rng, six);
        if c != avoid {
            return c;
        }
    };
    match kind {
        0 => None,
        1 => Some((0..16).map(|i| if i < 8 { fresh(rng, dos[i]) } else { dos[i] }).collect()),
        2 => Some((0..16).map(|i| if i >= 8 { fresh(rng, dos[i]) } else { dos[i] }).collect()),
        3 => Some((0..16).map(|i| fresh(rng, dos[i])).collect()),
        4 => Some((0..8).map(|i| fresh(rng, dos[i])).collect()),
        5 => Some((0..15).map(|i| fresh(rng, dos[i])).collect()),
        6 => Some((0..17).map(|i| fresh(rng, dos[i % 16])).collect()),
        _ => Some((0..32).map(|i| fresh(rng, dos[i % 16])).collect()),
    }
}

fn make_case(rng: &mut Rng, fmt: &str, two_fonts: bool, kind: usize, six: bool, opts: u8) -> Case {
    let w = match fmt {
        "adf" | "tnd" => 80,
        _ => 4 + rng.below(13) as usize,
    };
    let h = 1 + rng.below(2) as usize;
    let ice = if fmt == "xb" && rng.chance(1, 4) { 1 } else { 2 };
    let fh: u8 = if fmt == "xb" && rng.chance(1, 2) { 8 } else { 16 };
    let fonts = if two_fonts {
        vec![(0usize, if fh == 16 && rng.chance(1, 2) { None } else { Some((fh, 1 + rng.below(9) as u32)) }), (1usize, Some((fh, 11 + rng.below(9) as u32)))]
    } else {
        vec![(0usize, if fh == 16 && rng.chance(1, 2) { None } else { Some((fh, 1 + rng.below(9) as u32)) })]
    };
    let ncol: u32 = 16;
    let mut cells = Vec::new();
    // a small alphabet of cells that together use every palette entry as a background (ice) / foreground
    let mut alpha: Vec<Cell> = Vec::new();
    for k in 0..12u32 {
        let page = if two_fonts { (k % 2) as usize } else { 0 };
        let fg = if two_fonts { k % 8 } else { (k * 5 + 3) % ncol };
        let bg = if ice == 2 { (15 - k) % ncol } else { k % 8 };
        alpha.push(Cell { ch: 0x41 + k, fg, bg, flags: 0, page });
    }
    for i in 0..w * h {
        cells.push(alpha[if i < alpha.len() { i } else { rng.below(alpha.len() as u64) as usize }].clone());
    }
    // narrow pictures: make sure both pages occur
    if two_fonts && w * h >= 2 {
        cells[0].page = 0;
        cells[1].page = 1;
    }
    Case { fmt: fmt.to_string(), ice, w, opts, pal: make_palette(rng, kind, six), fonts, cells }
}

pub fn savepal_cases(run: &mut Run, rng: &mut Rng, thorough: bool) {
    // fixed witness: two fonts, custom colours in the high half, one cell per page (cf. Props/C16b.lean `twoFontPic`)
    let dos: Vec<Rgb> = Palette::dos_default().color_iter().map(|c| c.get_rgb()).collect();
    let mut hi = dos.clone();
    for (i, c) in [(4u8, 8u8, 12u8), (16, 20, 24), (28, 32, 36), (40, 44, 48), (52, 56, 60), (65, 69, 73), (142, 190, 101), (255, 251, 247)].iter().enumerate() {
        hi[8 + i] = *c;
    }
    for opts in [0u8, 1, 2] {
        savepal_case(
            run,
            &Case {
                fmt: "xb".into(),
                ice: 2,
                w: 2,
                opts,
                pal: Some(hi.clone()),
                fonts: vec![(0, Some((8, 3))), (1, Some((8, 4)))],
                cells: vec![Cell { ch: 0x41, fg: 7, bg: 9, flags: 0, page: 0 }, Cell { ch: 0x42, fg: 5, bg: 15, flags: 0, page: 1 }],
            },
        );
    }
    // the product family
    let reps = if thorough { 12 } else { 2 };
    for _ in 0..reps {
        for fmt in ["xb", "adf", "idf", "tnd"] {
            for two_fonts in [false, true] {
                for kind in 0..8usize {
                    for six in [true, false] {
                        if kind == 0 && !six {
                            continue;
                        }
                        // the option sets rotate so that every (format, fonts, palette kind) meets raw, compressed and SAUCE files
                        let opts_all: &[u8] = match fmt {
                            "xb" | "idf" => &[0, 2, 1, 3],
                            _ => &[0, 1],
                        };
                        let n = if thorough || (fmt == "xb" && (1..=3).contains(&kind) && six) { opts_all.len() } else { 1 };
                        for k in 0..n {
                            let opts = opts_all[(k + kind + two_fonts as usize) % opts_all.len()];
                            let c = make_case(rng, fmt, two_fonts, kind, six, opts);
                            savepal_case(run, &c);
                        }
                    }
                }
            }
        }
    }
}
