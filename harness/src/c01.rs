//! C01: no byte stream can crash a terminal emulation (oracle: panic / abort / hang per character)
use crate::term::*;
use crate::util::*;

pub fn worker(inp: &str, out: &std::path::Path) {
    worker_loop(inp, out, |line, emit| run_case(line, 2000, emit));
}

pub fn sizes(rng: &mut Rng) -> (i32, i32) {
    match rng.below(6) {
        0 => (80, 25),
        1 => (1, 1),
        2 => (132, 60),
        3 => (rng.range(1, 8) as i32, rng.range(1, 5) as i32),
        _ => (rng.range(1, 132) as i32, rng.range(1, 60) as i32),
    }
}

pub fn run(run: &mut Run, seed: u64, thorough: bool, replay: Option<&str>, corpus: &[String]) {
    let dir = std::path::PathBuf::from(std::env::var("VERIF_WORK").unwrap_or_else(|_| "work/C01".to_string()));
    std::fs::create_dir_all(&dir).unwrap();
    let mut cases: Vec<String> = Vec::new();
    if let Some(r) = replay {
        cases.push(r.replace('_', " "));
    } else {
        for c in corpus {
            cases.push(c.replace('_', " "));
        }
        let mut rng = Rng::new(seed);
        let n = if thorough { 6000 } else { 600 };
        for k in 0..n {
            let emu = ALL_EMUS[k % ALL_EMUS.len()];
            let (w, h) = sizes(&mut rng);
            let ntok = rng.range(1, if k % 7 == 0 { 120 } else { 24 }) as usize;
            let huge = rng.chance(1, 3);
            let toks = Gen { rng: &mut rng, w, h, huge }.stream(emu, ntok);
            cases.push(case_line(emu, w, h, &toks));
        }
    }
    if replay.is_none() {
        // exhaustive short streams over the control alphabets of the byte-oriented emulations and the wrappers:
        // pairs in quick, triples in thorough, on a small screen after a scrollback-filling prefix and on a fresh one
        let lf = |emu: Emu| -> Token {
            let c = match emu {
                Emu::Atascii => '\u{9b}',
                Emu::Petscii => '\r',
                _ => '\n',
            };
            Token { label: "LFxN".into(), chars: vec![c; 6] }
        };
        for emu in [Emu::Atascii, Emu::Petscii, Emu::Viewdata, Emu::Mode7, Emu::Ascii, Emu::Avatar, Emu::CtrlA] {
            let alpha = byte_alphabet(emu);
            let depth = if thorough { 3 } else { 2 };
            exhaustive(emu, 7, 4, &[], &alpha, depth, &mut cases);
            exhaustive(emu, 7, 4, &[lf(emu)], &alpha, depth, &mut cases);
        }
    }
    let results = run_in_workers("c01", &dir, &cases, 20);
    for (case, res) in cases.iter().zip(results.iter()) {
        let short: String = case.split_whitespace().take(4).collect::<Vec<_>>().join("_");
        let emu = case.split_whitespace().next().unwrap_or("?").to_string();
        run.count(&format!("emu:{}", emu));
        match res {
            Err(reason) => {
                run.oracle_fail(&format!("{}:{}", emu_family(&emu), reason.split(':').next().unwrap_or("abort")), &short, &format!("worker died: {}", reason));
                run.case(&format!("# {}", short), "died");
            }
            Ok(lines) => {
                let mut mop: Option<String> = None;
                for l in lines {
                    if let Some(m) = l.strip_prefix("M ") {
                        mop = Some(m.to_string());
                        continue;
                    }
                    if let Some(i) = l.strip_prefix("I ") {
                        if let Some(m) = mop.take() {
                            let ev = run.evaluations;
                            run.case(&m, i.trim_end());
                            run.evaluations = ev; // evaluations count characters, not streams
                        }
                        continue;
                    }
                    let parts: Vec<&str> = l.split_whitespace().collect();
                    match parts.first() {
                        Some(&"P") => {
                            run.oracle_fail(parts[2], &short, &format!("panic at char {} in token {} ({})", parts[1], parts[3], parts.get(4).unwrap_or(&"")));
                            run.count("panic");
                        }
                        Some(&"S") => {
                            let n: u64 = parts[1].parse().unwrap_or(0);
                            let errs: u64 = parts[2].parse().unwrap_or(0);
                            run.evaluations += n;
                            if errs > 0 {
                                run.count("streams_with_errors");
                            }
                            run.nontrivial(fnv(case.bytes().map(|b| b as u64)));
                        }
                        _ => {}
                    }
                }
            }
        }
    }
    if run.samples.is_empty() {
        for c in cases.iter().take(3) {
            run.samples.push(c.chars().take(200).collect());
        }
    }
}

fn emu_family(e: &str) -> &str {
    if e.starts_with("ansi") {
        "ansi"
    } else {
        e
    }
}
