//! C01: no byte stream can crash a terminal emulation (oracle: panic / abort / hang per character)
//!
//! Phases of a run: (1) seeded grammar streams, exhaustive short streams over the control alphabets, corner
//! positions x own alphabet — each compared with the model and checked by the oracle, each with the
//! invariant-triggered failing-input search of `term::run_case_ex`; (2) the exhaustive probe family
//! (`probe::probe_plan`): position x own-alphabet prefix x every probe suffix, oracle only;
//! (3) `--replay @search:<file>`: probe search from the prefixes of correspondence mismatches (hook for `check`).
use crate::probe::*;
use crate::term::*;
use crate::util::*;

pub fn worker(inp: &str, out: &std::path::Path) {
    worker_loop(inp, out, |line, emit| {
        if line.starts_with("probe ") {
            probe_group(line, emit)
        } else {
            run_case_ex(line, 2000, !no_probe(), emit);
            // second pass: the shape of the row table after every character, for `Model/Rows*.lean`
            crate::rowsfam::rows_case(line, emit)
        }
    });
}

pub fn sizes(rng: &mut Rng) -> (i32, i32) {
    match rng.below(6) {
        0 => (80, 25),
        1 => (1, 1),
        2 => (132, 60),
        3 => (rng.range(1, 8) as i32, rng.range(1, 5) as i32),
        _ => (rng.range(1, 132) as i32, rng.range(1, 60) as i32),
    }
}

pub fn run(run: &mut Run, seed: u64, thorough: bool, replay: Option<&str>, corpus: &[String]) {
    let dir = std::path::PathBuf::from(std::env::var("VERIF_WORK").unwrap_or_else(|_| "work/C01".to_string()));
    std::fs::create_dir_all(&dir).unwrap();
    if let Some(path) = replay.and_then(|r| r.strip_prefix("@search:")) {
        // failing-input search from correspondence mismatches
        let groups = search_groups(path, 20);
        run.extra.push(("search_prefixes".into(), groups.len().to_string()));
        for lines in run_probe_groups("c01", &dir, &groups, jobs(), 15) {
            let (r, f) = report_probe_lines(run, &lines, c01_verdict);
            run.evaluations += f;
            run.count("search-group");
            let _ = r;
        }
        return;
    }
    let mut cases: Vec<String> = Vec::new();
    let mut groups: Vec<String> = Vec::new();
    if let Some(path) = replay.and_then(|r| r.strip_prefix("@rowsdump:")) {
        // debugging aid: the row table of the real terminal after every character of one case
        println!("{}", crate::rowsfam::dump_case(&path.replace('_', " ")));
        return;
    }
    if let Some(r) = replay {
        cases.push(r.replace('_', " "));
    } else {
        for c in corpus {
            cases.push(c.replace('_', " "));
        }
        let mut rng = Rng::new(seed);
        let n = if thorough { 6000 } else { 600 };
        for k in 0..n {
            let emu = ALL_EMUS[k % ALL_EMUS.len()];
            let (w, h) = sizes(&mut rng);
            let ntok = rng.range(1, if k % 7 == 0 { 120 } else { 24 }) as usize;
            let huge = rng.chance(1, 3);
            let toks = Gen { rng: &mut rng, w, h, huge }.stream(emu, ntok);
            cases.push(case_line(emu, w, h, &toks));
        }
    }
    if replay.is_none() {
        // exhaustive short streams over the control alphabets of the byte-oriented emulations and the wrappers:
        // pairs in quick, triples in thorough, on a small screen after a scrollback-filling prefix and on a fresh one
        let lf = |emu: Emu| -> Token {
            let c = match emu {
                Emu::Atascii => '\u{9b}',
                Emu::Petscii => '\r',
                _ => '\n',
            };
            Token { label: "LFxN".into(), chars: vec![c; 6] }
        };
        for emu in [Emu::Atascii, Emu::Petscii, Emu::Viewdata, Emu::Mode7, Emu::Ascii, Emu::Avatar, Emu::CtrlA] {
            let alpha = byte_alphabet(emu);
            let depth = if thorough { 3 } else { 2 };
            exhaustive(emu, 7, 4, &[], &alpha, depth, &mut cases);
            exhaustive(emu, 7, 4, &[lf(emu)], &alpha, depth, &mut cases);
        }
        // every control of every emulation's own alphabet in the four corners of the screen, with and without
        // scrollback: as ordinary cases (compared with the model) and as probe groups (followed by every probe suffix)
        let (pc, pg) = if no_probe() { (vec![], vec![]) } else { probe_plan(thorough) };
        run.extra.push(("corner_cases".into(), pc.len().to_string()));
        run.extra.push(("probe_groups".into(), pg.len().to_string()));
        cases.extend(pc);
        groups = pg;
        // two families found necessary by round-5 seeds (both were invisible to the grammar-based streams):
        // (1) SGR lists with a 38/48 selector that is NOT the first parameter and is cut short at every length
        //     (`parse_extended_colors` indexes relative to the selector's position);
        // (2) macros that invoke themselves through each invocation path — `CSI n * z` at top level and the
        //     in-DCS path `ESC P … ESC [ n * z` — defined as text and as hex macros (the nesting limit must hold on
        //     EVERY path; a missing limit overflows the stack = worker death)
        {
            let t = |label: &str, st: &str| Token { label: label.into(), chars: st.chars().collect() };
            let mut n = 0usize;
            for emu in [Emu::Ansi(0), Emu::Ansi(2), Emu::Avatar, Emu::PCBoard, Emu::CtrlA, Emu::Renegade] {
                for pre in ["", "0;", "1;", "0;5;", "1;4;7;"] {
                    for sel in ["38", "48"] {
                        for tail in ["", ";2", ";2;10", ";2;10;20", ";2;10;20;30", ";5", ";5;200", ";2;999;999;999", ";9", ";2;;;"] {
                            for post in ["", ";1"] {
                                let st = format!("\x1b[{}{}{}{}mX", pre, sel, tail, post);
                                cases.push(case_line(emu, 80, 25, &[t("SGRcut", &st)]));
                                n += 1;
                            }
                        }
                    }
                }
            }
            for emu in [Emu::Ansi(0), Emu::Avatar, Emu::Renegade] {
                for (body_hex, label) in [("1B5B302A7A", "csi-self"), ("1B501B5B302A7A", "dcs-self"), ("581B501B5B302A7A", "x-dcs-self"), ("1B5B312A7A", "csi-other"), ("1B501B5B312A7A", "dcs-other")] {
                    for top in ["\x1b[0*z", "\x1bP\x1b[0*z", "\x1b[1*z"] {
                        // macro 0 and macro 1 (mutual recursion when the body names the other one), hex definitions
                        let st = format!("\x1bP0;0;1!z{}\x1b\\\x1bP1;0;1!z{}\x1b\\{}Y", body_hex, body_hex.replace("302A", "312A").replace("312A7A", "302A7A"), top);
                        cases.push(case_line(emu, 80, 25, &[t(&format!("MACREC-{}", label), &st)]));
                        n += 1;
                    }
                }
            }
            run.extra.push(("sgr_cut_and_macro_recursion_cases".into(), n.to_string()));
        }
        // row-table family: ragged shapes x every content command (compared with Model/Rows via the `rows` driver)
        let rc = crate::rowsfam::cases(seed, thorough);
        run.extra.push(("rows_family_cases".into(), rc.len().to_string()));
        cases.extend(rc);
    }
    let results = run_in_workers("c01", &dir, &cases, 20);
    for (case, res) in cases.iter().zip(results.iter()) {
        let short: String = case.split_whitespace().take(4).collect::<Vec<_>>().join("_");
        let emu = case.split_whitespace().next().unwrap_or("?").to_string();
        run.count(&format!("emu:{}", emu));
        crate::rowsfam::count_labels(run, case);
        match res {
            Err(reason) => {
                run.oracle_fail(&format!("{}:{}", emu_family(&emu), reason.split(':').next().unwrap_or("abort")), &short, &format!("worker died: {}", reason));
                run.case(&format!("# {}", short), "died");
            }
            Ok(lines) => {
                let mut mop: Option<String> = None;
                for l in lines {
                    if let Some(m) = l.strip_prefix("M ") {
                        mop = Some(m.to_string());
                        continue;
                    }
                    if let Some(i) = l.strip_prefix("I ") {
                        if let Some(m) = mop.take() {
                            let ev = run.evaluations;
                            run.case(&m, i.trim_end());
                            run.evaluations = ev; // evaluations count characters, not streams
                        }
                        continue;
                    }
                    let parts: Vec<&str> = l.split_whitespace().collect();
                    match parts.first() {
                        Some(&"P") => {
                            run.oracle_fail(parts[2], &short, &format!("panic at char {} in token {} ({})", parts[1], parts[3], parts.get(4).unwrap_or(&"")));
                            run.count("panic");
                        }
                        Some(&"S") => {
                            let n: u64 = parts[1].parse().unwrap_or(0);
                            let errs: u64 = parts[2].parse().unwrap_or(0);
                            run.evaluations += n;
                            if errs > 0 {
                                run.count("streams_with_errors");
                            }
                            run.nontrivial(fnv(case.bytes().map(|b| b as u64)));
                        }
                        Some(&"Q") => {
                            let (_, f) = report_probe_lines(run, std::slice::from_ref(l), c01_verdict);
                            run.evaluations += f;
                        }
                        _ => {}
                    }
                }
            }
        }
    }
    // the exhaustive probe family (oracle only; aborts and hangs are pinned stream by stream)
    if !groups.is_empty() {
        let (mut runs, mut fed) = (0u64, 0u64);
        for (g, lines) in groups.iter().zip(run_probe_groups("c01", &dir, &groups, jobs(), 15).iter()) {
            let (r, f) = report_probe_lines(run, lines, c01_verdict);
            runs += r;
            fed += f;
            run.count(&format!("probe-emu:{}", g.split_whitespace().nth(1).unwrap_or("?")));
        }
        run.evaluations += fed;
        run.extra.push(("probe_runs".into(), runs.to_string()));
        run.extra.push(("probe_chars".into(), fed.to_string()));
    }
    if run.samples.is_empty() {
        for c in cases.iter().take(3) {
            run.samples.push(c.chars().take(200).collect());
        }
    }
}
