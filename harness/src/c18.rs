//! C18: 8-bit attribute codec and code-page converters are exact inverses on their domain.
//! The domains are finite, so the correspondence AND the oracle are exhaustive in both tiers; `thorough` only adds
//! more out-of-domain samples (wide colours / flag words, code points above the tables).
use crate::util::*;
use icy_engine::{ascii, atascii, mode7, petscii, viewdata, AttributedChar, IceMode, TextAttribute, UnicodeConverter};

const MODES: [(u8, &str); 3] = [(0, "unlimited"), (1, "blink"), (2, "ice")];
const CONVS: [&str; 5] = ["cp437", "atascii", "petscii", "viewdata", "mode7"];

fn mode(m: u8) -> IceMode {
    IceMode::from_byte(m)
}

fn conv(name: &str) -> Box<dyn UnicodeConverter> {
    match name {
        "cp437" => Box::<ascii::CP437Converter>::default(),
        "atascii" => Box::<atascii::CharConverter>::default(),
        "petscii" => Box::<petscii::CharConverter>::default(),
        "viewdata" => Box::<viewdata::CharConverter>::default(),
        _ => Box::<mode7::CharConverter>::default(),
    }
}

fn to_uni(c: &dyn UnicodeConverter, code: u32) -> Option<u32> {
    let ch = char::from_u32(code)?;
    Some(c.convert_to_unicode(AttributedChar::new(ch, TextAttribute::default())) as u32)
}
fn from_uni(c: &dyn UnicodeConverter, cp: u32) -> Option<u32> {
    let ch = char::from_u32(cp)?;
    Some(c.convert_from_unicode(ch, 0) as u32)
}

fn show_attr(a: TextAttribute) -> String {
    format!("{} {} {} {}", a.get_foreground(), a.get_background(), a.attr, a.get_font_page())
}

fn mk_attr(fg: u32, bg: u32, flags: u16) -> TextAttribute {
    let mut a = TextAttribute::new(fg, bg);
    a.attr = flags;
    a
}

/// decode one byte in one mode, re-encode; correspondence + oracle (attr_dec_enc)
fn attr_byte(run: &mut Run, m: u8, b: u8) {
    let inp = format!("attr:{}:{}", m, b);
    let r = catch(move || {
        let a = TextAttribute::from_u8(b, mode(m));
        (a, a.as_u8(mode(m)))
    });
    match r {
        Ok((a, back)) => {
            run.case(&format!("codec dec {} {}", m, b), &show_attr(a));
            run.case(&format!("codec rt {} {}", m, b), &back.to_string());
            if back != b {
                run.oracle_fail(
                    &format!("attr_dec_enc/{}", MODES[m as usize].1),
                    &inp,
                    &format!("from_u8({:#04x},{}).as_u8 = {:#04x}", b, MODES[m as usize].1, back),
                );
            }
        }
        Err(loc) => {
            run.case(&format!("codec dec {} {}", m, b), &format!("panic:{}", panic_site(&loc)));
            run.oracle_fail(&format!("panic/{}", panic_site(&loc)), &inp, "attribute codec panicked");
        }
    }
    run.count(&format!("attr-byte/{}", MODES[m as usize].1));
    run.nontrivial(fnv([1, m as u64, b as u64]));
}

/// the oracle's own notion of "expressible in a mode" (independent of the Lean text): what a DOS attribute byte can
/// carry under that mode's reading of bit 7
fn expressible(m: u8, fg: u32, bg: u32, blink: bool, bold: bool) -> bool {
    // bold sets fg bit 3 in the byte, so a bold attribute is carried exactly when its foreground is already bright
    if fg > 15 || (bold && fg < 8) {
        return false;
    }
    match m {
        2 => bg <= 15 && !blink, // ice: 16 backgrounds, no blink
        _ => bg <= 7,            // blink / unlimited: bit 7 is blink
    }
}

/// encode an attribute, decode the byte; correspondence for every tuple, oracle (attr_enc_dec) on expressible ones
fn attr_tuple(run: &mut Run, m: u8, fg: u32, bg: u32, flags: u16) {
    let inp = format!("tuple:{}:{}:{}:{}", m, fg, bg, flags);
    let r = catch(move || {
        let a = mk_attr(fg, bg, flags);
        let b = a.as_u8(mode(m));
        (a, b, TextAttribute::from_u8(b, mode(m)))
    });
    match r {
        Ok((a, b, d)) => {
            run.case(&format!("codec enc {} {} {} {}", m, fg, bg, flags), &b.to_string());
            if expressible(m, fg, bg, a.is_blinking(), a.is_bold()) {
                run.count(&format!("attr-tuple/{}/expressible", MODES[m as usize].1));
                if d.get_foreground() != fg || d.get_background() != bg || d.is_blinking() != a.is_blinking() {
                    run.oracle_fail(
                        &format!("attr_enc_dec/{}", MODES[m as usize].1),
                        &inp,
                        &format!(
                            "(fg {} bg {} blink {}) -> {:#04x} -> (fg {} bg {} blink {})",
                            fg,
                            bg,
                            a.is_blinking(),
                            b,
                            d.get_foreground(),
                            d.get_background(),
                            d.is_blinking()
                        ),
                    );
                }
            } else {
                run.count(&format!("attr-tuple/{}/other", MODES[m as usize].1));
            }
        }
        Err(loc) => {
            run.case(&format!("codec enc {} {} {} {}", m, fg, bg, flags), &format!("panic:{}", panic_site(&loc)));
            run.oracle_fail(&format!("panic/{}", panic_site(&loc)), &inp, "attribute codec panicked");
        }
    }
    run.nontrivial(fnv([2, m as u64, fg as u64, bg as u64, flags as u64]));
}

/// one code of one converter: code -> unicode -> code
fn code_point(run: &mut Run, cv: &str, code: u32, in_domain: bool) {
    let inp = format!("code:{}:{}", cv, code);
    let c = conv(cv);
    let r = catch(std::panic::AssertUnwindSafe(|| {
        let u = to_uni(c.as_ref(), code);
        (u, u.and_then(|u| from_uni(c.as_ref(), u)))
    }));
    match r {
        Ok((Some(u), Some(back))) => {
            run.case(&format!("codec touni {} {}", cv, code), &u.to_string());
            if in_domain && back != code {
                run.oracle_fail(&format!("code_rt/{}", cv), &inp, &format!("code {} -> U+{:04X} -> code {}", code, u, back));
            }
        }
        Ok(_) => {}
        Err(loc) => {
            run.case(&format!("codec touni {} {}", cv, code), &format!("panic:{}", panic_site(&loc)));
            run.oracle_fail(&format!("panic/{}", panic_site(&loc)), &inp, "converter panicked");
        }
    }
    run.count(&format!("touni/{}/{}", cv, if code < 256 { "table" } else { "above" }));
    run.nontrivial(fnv([3, CONVS.iter().position(|x| *x == cv).unwrap_or(9) as u64, code as u64]));
}

/// one Unicode scalar through convert_from_unicode (and back): typed characters are the property's domain
fn typed(run: &mut Run, cv: &str, cp: u32, in_domain: bool) {
    let inp = format!("typed:{}:{}", cv, cp);
    let c = conv(cv);
    let r = catch(std::panic::AssertUnwindSafe(|| {
        let code = from_uni(c.as_ref(), cp);
        (code, code.and_then(|k| to_uni(c.as_ref(), k)))
    }));
    match r {
        Ok((Some(code), Some(back))) => {
            run.case(&format!("codec fromuni {} {}", cv, cp), &code.to_string());
            if in_domain && back != cp {
                run.oracle_fail(&format!("typed_rt/{}", cv), &inp, &format!("U+{:04X} -> code {} -> U+{:04X}", cp, code, back));
            }
            // "converts to the emulation's code": where the emulation displays the character's own ASCII code as that
            // character, that code is what the key sends (several Viewdata / Mode 7 codes display as a blank, and only
            // 0x20 is the space key)
            if in_domain && to_uni(c.as_ref(), cp) == Some(cp) && code != cp {
                run.oracle_fail(
                    &format!("typed_code/{}", cv),
                    &inp,
                    &format!("U+{:04X} is sent as code {} but the emulation's code for it is {}", cp, code, cp),
                );
            }
        }
        Ok(_) => {}
        Err(loc) => {
            run.case(&format!("codec fromuni {} {}", cv, cp), &format!("panic:{}", panic_site(&loc)));
            run.oracle_fail(&format!("panic/{}", panic_site(&loc)), &inp, "converter panicked");
        }
    }
    run.count(&format!("fromuni/{}/{}", cv, if in_domain { "typed" } else { "other" }));
    run.nontrivial(fnv([4, CONVS.iter().position(|x| *x == cv).unwrap_or(9) as u64, cp as u64]));
}

fn is_typed(cp: u32) -> bool {
    char::from_u32(cp).map(|c| c.is_ascii_alphanumeric() || c == ' ').unwrap_or(false)
}

/// number of codes for which the property claims code -> unicode -> code
fn code_domain(cv: &str) -> u32 {
    match cv {
        "cp437" => 256,
        "atascii" => 128,
        _ => 0,
    }
}

fn replay_one(run: &mut Run, inp: &str) {
    let p: Vec<&str> = inp.trim().split(':').collect();
    let n = |i: usize| p.get(i).and_then(|s| s.parse::<u64>().ok()).unwrap_or(0);
    match p.first().copied() {
        Some("attr") => attr_byte(run, (n(1) % 3) as u8, n(2) as u8),
        Some("tuple") => attr_tuple(run, (n(1) % 3) as u8, n(2) as u32, n(3) as u32, n(4) as u16),
        Some("code") => {
            let cv = CONVS.iter().find(|c| Some(**c) == p.get(1).copied()).copied().unwrap_or("cp437");
            code_point(run, cv, n(2) as u32, (n(2) as u32) < code_domain(cv));
        }
        Some("typed") => {
            let cv = CONVS.iter().find(|c| Some(**c) == p.get(1).copied()).copied().unwrap_or("cp437");
            typed(run, cv, n(2) as u32, is_typed(n(2) as u32));
        }
        _ => {}
    }
}

pub fn run(run: &mut Run, seed: u64, thorough: bool, replay: Option<&str>, corpus: &[String]) {
    if let Some(r) = replay {
        replay_one(run, r);
        return;
    }
    for c in corpus {
        replay_one(run, c);
    }
    let mut rng = Rng::new(seed);
    // ---- attribute bytes: 256 x 3 modes (exhaustive)
    for (m, _) in MODES {
        for b in 0..=255u8 {
            attr_byte(run, m, b);
        }
    }
    // ---- attribute tuples: all (fg 0..=15, bg 0..=15, blink, bold) x 3 modes (exhaustive)
    for (m, _) in MODES {
        for fg in 0..16u32 {
            for bg in 0..16u32 {
                for bits in 0..4u16 {
                    let flags = (if bits & 1 != 0 { 0x0008 } else { 0 }) | (if bits & 2 != 0 { 0x0001 } else { 0 });
                    attr_tuple(run, m, fg, bg, flags);
                }
            }
        }
    }
    // out of the byte's range: wide colours (extended / RGB indices, the transparent marker) and arbitrary flag words
    let n_wide = if thorough { 60_000 } else { 3_000 };
    for i in 0..n_wide {
        let m = (i % 3) as u8;
        let pickc = |rng: &mut Rng| match rng.below(5) {
            0 => rng.below(16) as u32,
            1 => rng.below(256) as u32,
            2 => rng.next() as u32,
            3 => TextAttribute::TRANSPARENT_COLOR | rng.below(16) as u32,
            _ => 16 + rng.below(16) as u32,
        };
        let fg = pickc(&mut rng);
        let bg = pickc(&mut rng);
        let flags = if rng.chance(1, 2) { rng.next() as u16 } else { *rng.pick(&[0u16, 1, 8, 9, 0x8000, 0x4000, 0xFFFF, 0xFFF7, 0xFFFE]) };
        attr_tuple(run, m, fg, bg, flags);
    }
    // ---- converters: all 256 codes, both directions, 5 converters (exhaustive); then above the tables
    for cv in CONVS {
        for code in 0..256u32 {
            code_point(run, cv, code, code < code_domain(cv));
        }
        for cp in 0..0x300u32 {
            typed(run, cv, cp, is_typed(cp));
        }
        for code in 256..0x300u32 {
            code_point(run, cv, code, false);
        }
        // every code point that occurs in the converter's own table, backwards
        let c = conv(cv);
        let mut seen = std::collections::BTreeSet::new();
        for code in 0..256u32 {
            if let Some(u) = to_uni(c.as_ref(), code) {
                seen.insert(u);
            }
        }
        for u in seen {
            typed(run, cv, u, is_typed(u));
        }
        let n_rand = if thorough { 40_000 } else { 2_000 };
        for _ in 0..n_rand {
            let cp = match rng.below(4) {
                0 => rng.below(0x3000) as u32,
                1 => 0x2000 + rng.below(0x800) as u32,
                2 => 0x1FB00 + rng.below(0x100) as u32,
                _ => rng.below(0x11_0000) as u32,
            };
            if (0xD800..0xE000).contains(&cp) {
                continue;
            }
            typed(run, cv, cp, false);
            code_point(run, cv, cp, false);
        }
    }
    run.extra.push(("exhaustive_attr_bytes".into(), "256 x 3 modes".into()));
    run.extra.push(("exhaustive_attr_tuples".into(), "16 fg x 16 bg x blink x bold x 3 modes".into()));
    run.extra.push(("exhaustive_codes".into(), "256 codes x 5 converters, both directions; code points 0..0x300".into()));
}
