//! C19: CRC tables vs bitwise definitions
use crate::crcsites::*;
use crate::util::*;
use icy_engine::{get_crc16, get_crc32, update_crc16, update_crc32};

fn bit32(bs: &[u8]) -> u32 {
    let mut c: u32 = 0xFFFF_FFFF;
    for &b in bs {
        c ^= b as u32;
        for _ in 0..8 {
            c = if c & 1 != 0 { (c >> 1) ^ 0xEDB8_8320 } else { c >> 1 };
        }
    }
    !c
}

fn one(run: &mut Run, bs: &[u8]) {
    let h = hex(bs);
    let c16 = get_crc16(bs);
    let c32 = get_crc32(bs);
    run.case(&format!("crc 16 {}", h), &c16.to_string());
    run.case(&format!("crc 32 {}", h), &c32.to_string());
    let i16 = bs.iter().fold(0u16, |c, b| update_crc16(c, *b));
    let i32_ = !bs.iter().fold(0xFFFF_FFFFu32, |c, b| update_crc32(c, *b));
    run.case(&format!("crc inc16 {}", h), &i16.to_string());
    run.case(&format!("crc inc32 {}", h), &i32_.to_string());
    run.nontrivial(fnv(bs.iter().map(|b| *b as u64).chain([bs.len() as u64])));
    run.count(&format!("len{}", if bs.len() < 16 { "<16" } else if bs.len() < 32 { "16..31" } else { ">=32" }));
    // oracle: the property itself, on the implementation
    if c16 != bit16(bs) {
        run.oracle_fail("get_crc16", &h, &format!("get_crc16={} bitwise={}", c16, bit16(bs)));
    }
    if c32 != bit32(bs) {
        run.oracle_fail("get_crc32", &h, &format!("get_crc32={} bitwise={}", c32, bit32(bs)));
    }
    if i16 != c16 {
        run.oracle_fail("update_crc16", &h, &format!("incremental={} one-shot={}", i16, c16));
    }
    if i32_ != c32 {
        run.oracle_fail("update_crc32", &h, &format!("incremental={} one-shot={}", i32_, c32));
    }
}

/// one replay input: a hex byte string, or a call-site scenario (`rect:` / `font:` / `pal:`)
fn replay_one(run: &mut Run, r: &str) {
    let r = r.trim();
    if let Some(sc) = RectSc::parse(r) {
        let serial = run_rect(run, &sc);
        one(run, &serial);
    } else if let Some(sc) = FontSc::parse(r) {
        let bytes = run_font(run, &sc);
        one(run, &bytes);
        if let Some(&(g, row, m)) = sc.flips.last() {
            let mut base = sc.clone();
            base.flips.pop();
            run_font_pair(run, &base, g, row, m);
        }
    } else if let Some(h) = r.strip_prefix("pal:") {
        run_pal(run, h);
    } else if r.contains(':') {
        run.oracle_fail("replay", r, "replay input not understood");
    } else {
        one(run, &unhex(r));
    }
}

/// the call sites: the engine's own incremental use of update_crc16 / update_crc32
fn sites(run: &mut Run, rng: &mut Rng, thorough: bool) {
    // DECRQCRA through the real ANSI parser
    for sc in fixed_rects() {
        let serial = run_rect(run, &sc);
        if serial.len() > 16 {
            one(run, &serial);
        }
    }
    for k in 0..(if thorough { 6000 } else { 300 }) {
        let sc = gen_rect(rng, k % 150 == 149);
        let serial = run_rect(run, &sc);
        if k % 16 == 0 {
            one(run, &serial);
        }
    }
    // font checksums
    for sc in fixed_fonts() {
        let bytes = run_font(run, &sc);
        if bytes.len() < 6000 {
            one(run, &bytes);
        }
    }
    for (fmt, h, n, g) in [("psf1m1", 16, 512, 300), ("psf1m1", 16, 512, 256), ("psf1m1", 16, 512, 511), ("psf1m1", 16, 512, 255), ("psf2w8", 8, 400, 399), ("psf2w8", 8, 400, 0), ("plain", 16, 256, 255)] {
        let sc = FontSc { fmt: fmt.to_string(), h, n, seed: 77 + g as u64, len: None, holes: vec![], flips: vec![] };
        run_font_pair(run, &sc, g, rng.below(h as u64) as usize, 1 << rng.below(8));
    }
    for _ in 0..(if thorough { 600 } else { 30 }) {
        let sc = gen_font(rng);
        run_font(run, &sc);
        if rng.chance(1, 3) {
            run_font_pair(run, &sc, rng.below(sc.n.max(1) as u64) as usize, rng.below(sc.h as u64) as usize, (rng.next() as u8) | 1);
        }
    }
    if thorough {
        // a PSF2 font whose indices run through the surrogate gap (char::from_u32 has no value there)
        run_font(run, &FontSc { fmt: "psf2w8".to_string(), h: 1, n: 0xE010, seed: 5, len: None, holes: vec![], flips: vec![] });
    }
    // palette checksums: incremental across calls
    for h in fixed_pals() {
        run_pal(run, &h);
    }
    for start in ["n", "d", "l1.9"] {
        exhaustive_pal(run, start, &["p", "g"], if thorough { 9 } else { 6 });
    }
    let alphabet = ["p", "g", "s0", "sl", "r1", "c", "z-", "z+", "f", "i", "k"];
    exhaustive_pal(run, "n", &alphabet, if thorough { 5 } else { 2 });
    exhaustive_pal(run, "l2.4", &alphabet, if thorough { 4 } else { 3 });
    exhaustive_pal(run, "d", &["p", "g", "s0", "c", "z-", "i"], if thorough { 6 } else { 3 });
    for _ in 0..(if thorough { 6000 } else { 300 }) {
        let h = gen_pal(rng);
        run_pal(run, &h);
    }
}

pub fn run(run: &mut Run, seed: u64, thorough: bool, replay: Option<&str>, corpus: &[String]) {
    if let Some(r) = replay {
        replay_one(run, r);
        return;
    }
    for c in corpus {
        replay_one(run, c);
    }
    let mut rng = Rng::new(seed);
    {
        let mut rng_sites = Rng::new(seed ^ 0xC19C_19C1);
        sites(run, &mut rng_sites, thorough);
    }
    // all lengths 0..=48 over seeded bytes
    let reps = if thorough { 64 } else { 8 };
    for len in 0..=48usize {
        for _ in 0..reps {
            let bs = rng.bytes(len);
            one(run, &bs);
        }
    }
    // structured: a single non-zero byte at every position of 16/17/32/33-byte strings (routes one byte through
    // each row of the sliced table)
    for &len in &[16usize, 17, 32, 33, 48] {
        for pos in 0..len {
            let mut bs = vec![0u8; len];
            bs[pos] = if thorough { rng.next() as u8 | 1 } else { 0x80 | pos as u8 };
            one(run, &bs);
        }
    }
    // longer strings
    for _ in 0..(if thorough { 200 } else { 20 }) {
        let n = rng.range(49, 600) as usize;
        let bs = rng.bytes(n);
        one(run, &bs);
    }
    // the same bytes at every start address modulo 16 (a fast path that peels bytes up to an aligned address, or reads
    // words, behaves differently on an unaligned slice; a freshly allocated Vec is always aligned)
    {
        let pool = rng.bytes(16 + 160 + 16);
        for &len in &[0usize, 1, 15, 16, 17, 31, 32, 33, 47, 48, 49, 64, 100, 160] {
            for o in 0..16usize {
                one(run, &pool[o..o + len]);
                run.count(&format!("addr%16={}", (pool[o..].as_ptr() as usize) % 16));
            }
        }
    }
    // oracle, exhaustive in both tiers: all 2^16 two-byte strings (every index of a word-at-a-time table is reached from the
    // initial register) and all 2^16 two-byte tails behind a fixed 16-byte block, against the bitwise definition
    {
        let mut reported = 0;
        let mut long = vec![0x5Au8; 18];
        for a in 0..=255u8 {
            for b in 0..=255u8 {
                let bs = [a, b];
                long[16] = a;
                long[17] = b;
                let bad = get_crc16(&bs) != bit16(&bs) || get_crc32(&bs) != bit32(&bs);
                let bad_long = get_crc16(&long) != bit16(&long) || get_crc32(&long) != bit32(&long);
                if bad && reported < 4 {
                    reported += 1;
                    one(run, &bs);
                }
                if bad_long && reported < 4 {
                    reported += 1;
                    one(run, &long.clone());
                }
            }
        }
        run.count("two-byte strings (oracle only, exhaustive)");
    }
    // two-byte strings: all 2^16 in thorough, a seeded 2048 in quick
    if thorough {
        for a in 0..=255u8 {
            for b in 0..=255u8 {
                one(run, &[a, b]);
            }
        }
    } else {
        for _ in 0..2048 {
            let v = rng.next();
            one(run, &[v as u8, (v >> 8) as u8]);
        }
    }
    // update_crc16 over states: every state, all 256 bytes hashed (thorough: all 2^16 states)
    let states: Vec<u16> = if thorough { (0..=65535u16).collect() } else { (0..2048).map(|_| rng.next() as u16).collect() };
    for c in states {
        let h = fnv((0..=255u8).map(|b| update_crc16(c, b) as u64));
        run.case(&format!("crc u16row {}", c), &h.to_string());
        for b in [0u8, 1, 0x80, 0xFF] {
            let mut x = c ^ ((b as u16) << 8);
            for _ in 0..8 {
                x = if x & 0x8000 != 0 { (x << 1) ^ 0x1021 } else { x << 1 };
            }
            if update_crc16(c, b) != x {
                run.oracle_fail("update_crc16", &format!("{:04x}{:02x}", c, b), "update_crc16 != 8 bit steps");
            }
        }
    }
    // oracle, exhaustive in both tiers: every CRC-16 register value x 4 bytes against 8 bit steps; a failing
    // (state, byte) is turned into a failing byte STRING via the 2-byte prefix that produces the state
    let mut reported = 0;
    for c in 0..=65535u16 {
        for b in [0u8, 1, 0x80, 0xFF] {
            let mut x = c ^ ((b as u16) << 8);
            for _ in 0..8 {
                x = if x & 0x8000 != 0 { (x << 1) ^ 0x1021 } else { x << 1 };
            }
            if update_crc16(c, b) != x && reported < 4 {
                reported += 1;
                let mut found = false;
                'outer: for p0 in 0..=255u8 {
                    for p1 in 0..=255u8 {
                        if bit16(&[p0, p1]) == c {
                            one(run, &[p0, p1, b]);
                            found = true;
                            break 'outer;
                        }
                    }
                }
                if !found {
                    run.oracle_fail("update_crc16", &format!("{:04x}{:02x}", c, b), "update_crc16 != 8 bit steps");
                }
            }
        }
    }
    // update_crc32 over seeded states
    for _ in 0..(if thorough { 200_000 } else { 4096 }) {
        let c = rng.next() as u32;
        let b = rng.next() as u8;
        run.case(&format!("crc u32 {} {}", c, b), &update_crc32(c, b).to_string());
    }
    run.extra.push(("exhaustive_two_byte".into(), thorough.to_string()));
    run.extra.push(("exhaustive_crc16_states".into(), thorough.to_string()));
}
