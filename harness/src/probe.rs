//! Failing-input search for C01 / C09.
//!
//! A latent bad state (cursor out of range, degenerate margins, empty tab-stop list, stale saved cursor, wrong
//! parser state, rows that do not exist) is not yet a failure of the property; it becomes one when a later control
//! function *uses* the state.  This module holds
//!   * `probe_suffixes`  — a dictionary of short sequences that use every part of the state (ECH, ICH/DCH, IL/DL,
//!     insert-mode print, print at the margin, scroll in four directions, erase in line/display, tabulation, HPA/HPR,
//!     REP, rectangles, checksum, reports, save/restore, LF at the bottom, index/reverse index, resets, each
//!     emulation's own controls);
//!   * `own_alphabet`    — every control of an emulation's own language as complete tokens;
//!   * `positions`       — set-up sequences that put the cursor into the four corners of the screen, with and
//!     without scrollback, using the emulation's own controls;
//!   * the probe runner (`probe_group` in the worker, `run_probe_groups` in the parent): after a prefix, every probe
//!     suffix is run on a fresh terminal with the C01 oracle (panic) and the C09 oracle (cursor inside the visible
//!     screen after every character, fixed 40x24 grid); aborts/hangs are pinned by re-running the group's streams
//!     one by one in crash-isolated children;
//!   * `good_state`      — the invariant `GoodSt` proved in Lean (Lemmas/TermStep.lean), evaluated on the real
//!     terminal: where the implementation leaves it, the probes are run from exactly that prefix.
//! Everything reported from here is a concrete stream on which the property itself fails on the implementation.
use crate::term::*;
use crate::util::*;
use icy_engine::TextPane;

fn t(label: &str, s: &str) -> Token {
    Token { label: label.to_string(), chars: s.chars().collect() }
}
fn tc(label: &str, cs: &[u32]) -> Token {
    Token { label: label.to_string(), chars: cs.iter().map(|c| char::from_u32(*c).unwrap()).collect() }
}
fn rep(c: u32, n: i32) -> Vec<u32> {
    vec![c; n.max(0) as usize]
}

/// the line-feed of an emulation (the code that moves to the next row and scrolls at the bottom)
pub fn lf_code(emu: Emu) -> u32 {
    match emu {
        Emu::Atascii => 0x9b,
        Emu::Petscii => 0x0d,
        _ => 0x0a,
    }
}

/// Every control of the emulation's own language, as complete tokens (lead-in + arguments), plus a printable.
/// For the ANSI family members that wrap the ANSI parser this is the wrapper's own language only; `ansi_alphabet`
/// is the ANSI one.
pub fn own_alphabet(emu: Emu, w: i32, h: i32) -> Vec<Token> {
    let mut v: Vec<Token> = Vec::new();
    match emu {
        Emu::Ansi(_) => return ansi_alphabet(emu, w, h),
        Emu::Avatar => {
            v.push(t("AVTclr", "\x0c"));
            for (n, name) in [(1u32, "color"), (2, "blink"), (3, "up"), (4, "down"), (5, "left"), (6, "right"), (7, "cleol"), (9, "unsup"), (0, "nul"), (0x16, "cmdcmd")] {
                if n == 1 {
                    v.push(tc("AVTcolor", &[0x16, 1, 0x1f]));
                } else {
                    v.push(tc(&format!("AVT{}", name), &[0x16, n]));
                }
            }
            for (r, c) in [(1u32, 1u32), (h as u32, w as u32), (1, w as u32), (h as u32, 1), (200, 200), (0, 0), (h as u32 + 1, w as u32 + 1)] {
                v.push(tc("AVTgoto", &[0x16, 8, r, c]));
            }
            for (c, n) in [(0x41u32, 0u32), (0x41, 1), (0x41, w as u32), (0x41, 255), (0x0a, 3), (0x08, 2), (0x0c, 1), (0x1b, 2), (0x16, 2), (0x19, 2)] {
                v.push(tc("AVTrep", &[0x19, c, n]));
            }
        }
        Emu::PCBoard => {
            for s in ["@X07", "@X1F", "@XZZ", "@X0", "@CLS@", "@POS:3@", "@@", "@A", "@", "@X"] {
                v.push(t(&format!("PCB{}", s.replace('@', "a").replace(':', "c")), s));
            }
        }
        Emu::CtrlA => {
            for c in "L'J><|]AHIENZKBGCRMYW04261537x".chars() {
                v.push(t(&format!("CtrlA{}", c.escape_default()), &format!("\x01{}", c)));
            }
            for c in [0x01u32, 0x80, 0x81, 0xff, 0x7f, 0x00] {
                v.push(tc(&format!("CtrlA{:02x}", c), &[1, c]));
            }
        }
        Emu::Renegade => {
            for s in ["|00", "|15", "|16", "|23", "|39", "|4", "|0x", "||", "|"] {
                v.push(t("RNG", s));
            }
        }
        Emu::Petscii => {
            for c in [
                0x02u32, 0x05, 0x07, 0x08, 0x09, 0x0A, 0x0D, 0x8D, 0x0E, 0x8E, 0x11, 0x12, 0x92, 0x13, 0x14, 0x1C, 0x1D, 0x1E, 0x1F, 0x81, 0x90, 0x91, 0x93, 0x95, 0x9D, 0x9E, 0xFF, 0x00, 0x80, 0x41, 0xC1,
            ] {
                v.push(tc(&format!("PET{:02x}", c), &[c]));
            }
            for c in "OQP@JKACDIYZLMVWGHEFBTXUSRN~".chars() {
                v.push(tc(&format!("PETesc{}", if c == '@' { 'a' } else { c }), &[0x1B, c as u32]));
            }
        }
        Emu::Atascii => {
            for c in [0x1Cu32, 0x1D, 0x1E, 0x1F, 0x7D, 0x7E, 0x7F, 0x9B, 0x9C, 0x9D, 0x9E, 0x9F, 0xFD, 0xFE, 0xFF, 0x41, 0xC1, 0x00] {
                v.push(tc(&format!("ATA{:02x}", c), &[c]));
            }
            for c in [0x1Bu32, 0x7D, 0x9B, 0x41] {
                v.push(tc(&format!("ATAesc{:02x}", c), &[0x1B, c]));
            }
        }
        Emu::Viewdata => {
            for c in 0u32..0x20 {
                if c != 0x1B {
                    v.push(tc(&format!("VD{:02x}", c), &[c]));
                }
            }
            for c in [0x20u32, 0x41, 0x7F, 0x60, 0xFF] {
                v.push(tc(&format!("VD{:02x}", c), &[c]));
            }
            for c in 0x40u32..0x60 {
                v.push(tc(&format!("VDesc{:02x}", c), &[0x1B, c]));
            }
            v.push(tc("VDesc1b", &[0x1B, 0x1B]));
            v.push(tc("VDesc0a", &[0x1B, 0x0A]));
        }
        Emu::Mode7 => {
            for c in 0u32..0x20 {
                v.push(tc(&format!("M7{:02x}", c), &[c]));
            }
            for c in 0x80u32..=0x9F {
                v.push(tc(&format!("M7{:02x}", c), &[c]));
            }
            for c in [0x20u32, 0x41, 0x7F, 0xA0, 0xBF, 0xE1, 0xFF] {
                v.push(tc(&format!("M7{:02x}", c), &[c]));
            }
        }
        Emu::Ascii => {
            for c in [0x00u32, 0x07, 0x08, 0x09, 0x0A, 0x0C, 0x0D, 0x1B, 0x7F, 0xFF, 0x41, 0xD800 - 1, 0x10FFFF] {
                v.push(tc(&format!("ASC{:02x}", c), &[c]));
            }
        }
    }
    v
}

/// the control functions of the ANSI parser as complete tokens: every cursor / tab / margin / scroll / erase /
/// insert / delete / save-restore / mode / report / reset function with the parameter values of the quantifier,
/// the DCS / OSC / APS / macro sub-languages, and for music configurations the music lead-ins
pub fn ansi_alphabet(emu: Emu, w: i32, h: i32) -> Vec<Token> {
    let mut v: Vec<Token> = Vec::new();
    v.push(t("print", "A"));
    v.push(t("printW", &"x".repeat(w as usize)));
    for c in ['\n', '\r', '\x0c', '\x08', '\x7f', '\x09', '\x00', '\x07'] {
        v.push(t(&format!("C0:{}", c.escape_default()), &c.to_string()));
    }
    v.push(t("LFxH", &"\n".repeat(h as usize + 1)));
    for c in ['7', '8', 'c', 'D', 'M', 'E', 'H', '\x1b', '\n', 'Z'] {
        v.push(t(&format!("ESC{}", c.escape_default()), &format!("\x1b{}", c)));
    }
    let big = (h.max(w) + 1).to_string();
    let ps = ["".to_string(), "0".into(), "1".into(), big, "9999".into(), "2147483647".into()];
    for f in "ABCDEFGdeajk'`YZLMSTXP@bJKsugINOQRUVW[\\]^_cfhilmnopqrtvwxyz{|}~".chars() {
        for (k, p) in ps.iter().enumerate() {
            // rarely geometric finals get the two shortest parameter forms only
            if !"ABCDEFGdeajk'YZLMSTXP@bJKsug".contains(f) && k > 1 {
                continue;
            }
            v.push(t(&format!("CSI{}", f), &format!("\x1b[{}{}", p, f)));
        }
    }
    for p in ["", "1;1", "0;0", "2;3", "9999;9999", "3;2", &format!("{};{}", h, w), &format!("{};{}", h + 1, w + 1)] {
        v.push(t("CSIH", &format!("\x1b[{}H", p)));
        v.push(t("CSIr", &format!("\x1b[{}r", p)));
    }
    for p in ["1;2;1;2", "2;3;2;3", "0;0;0;0", "1;9999;1;9999", "3;2;3;2", "2;3;2"] {
        v.push(t("CSIr4", &format!("\x1b[{}r", p)));
    }
    for s in ["?69h", "?69l", "?7l", "?7h", "?6h", "?6l", "?25l", "4h", "4l", "?4h", "?1000h", "?9999h", "=255h"] {
        v.push(t(&format!("CSI{}", s.replace('?', "q").replace('=', "e")), &format!("\x1b[{}", s)));
    }
    for s in ["?69h\x1b[2;3s", "?69h\x1b[s", "?69h\x1b[0;0s", "?69h\x1b[9999s", "?69h\x1b[3;2s"] {
        v.push(t("DECSLRM", &format!("\x1b[{}", s)));
    }
    for s in ["=r", "=0;2m", "=1;2m", "=2;2m", "=3;2m", "=0;9999m", "=1;0m", "=3;0m", "=4;1m", "=m", "=1n", "=2n", "=3n", "=9n"] {
        v.push(t(&format!("CSIe{}", s.chars().last().unwrap()), &format!("\x1b[{}", s)));
    }
    for s in ["!p", "!x", "<c", "<0c", "<1;2c", "?62n", "?63;1n", "?63n", "5n", "6n", "255n", "0n", "c"] {
        v.push(t("CSIreport", &format!("\x1b[{}", s)));
    }
    for s in [" @", "2 @", "9999 @", " A", "2 A", "9999 A", " d", "1 d", "9 d", "9999 d", "0;0 D", "1;40 D", "0;9999 D", " D", " q"] {
        v.push(t("CSIsp", &format!("\x1b[{}", s)));
    }
    for s in ["$w", "2$w", "1$w", "65;1;1;2;2$x", "65;0;0;9999;9999$x", "55296;1;1;2;2$x", "1;1;2;2$z", "2;2;1;1$z", "1;1;2;2${", "0;0;9999;9999${", "$q", "1$}"] {
        v.push(t("CSIdollar", &format!("\x1b[{}", s)));
    }
    for s in ["*z", "0*z", "1*z", "*r", "0;5*r", "9;9999*r", "1;1;1;1;2;2*y", "1;1;0;0;9999;9999*y", &format!("1;1;0;0;{};{}*y", h, w), "*q"] {
        v.push(t("CSIstar", &format!("\x1b[{}", s)));
    }
    for s in ["8;2;3t", "8;0;0t", "8;9999;9999t", "8;1;1t", "1;2;3t", "0;1;2;3t", "1;1;2;3t", "2;1;2;3t", "t"] {
        v.push(t("CSIt", &format!("\x1b[{}", s)));
    }
    for s in ["m", "0m", "1;5;31;44m", "38;5;1m", "38;5;256m", "48;2;1;2;3m", "38;2;256;0;0m", "38m", "38;5m", "27m", "99m"] {
        v.push(t("CSIm", &format!("\x1b[{}", s)));
    }
    // DCS: macros (plain / hex / repeat groups / self-invoking), sixel, font, junk; OSC; APS
    for s in [
        "\x1bP1;0;0!zAB\x1b\\",
        "\x1bP1;0;0!z\x1b[5C\x1b\\",
        "\x1bP0;1;0!z\x1b[2J\x1b\\",
        "\x1bP1;0;1!z4142\x1b\\",
        "\x1bP1;0;1!z!3;41;\x1b\\",
        "\x1bP1;0;1!z!9999;4142\x1b\\",
        "\x1bP1;0;1!z1B5B312A7A\x1b\\",
        "\x1bP1;0;1!z4G\x1b\\",
        "\x1bP1;0;2!zAB\x1b\\",
        "\x1bP!zAB\x1b\\",
        "\x1bPx\x1b[1*zy\x1b\\",
        "\x1bPx\x1b[1;2*zy\x1b\\",
        "\x1bPx\x1b[*zy\x1b\\",
        "\x1bPq~\x1b\\",
        "\x1bP0;1q#1~~-~\x1b\\",
        "\x1bPCTerm:Font:1:QQ==\x1b\\",
        "\x1bPCTerm:Font:x\x1b\\",
        "\x1bP\x1b\\",
        "\x1bPjunk\x1bXmore\x1b\\",
        "\x1b]4;1;rgb:00/11/22\x1b\\",
        "\x1b]4;;rgb:00/00/00\x1b\\",
        "\x1b]4;99999999999;rgb:00/00/00\x1b\\",
        "\x1b]8;;http://a.b\x1b\\",
        "\x1b]8;;\x1b\\",
        "\x1b]9\x1b\\",
        "\x1b]\x1b\\",
        "\x1b_abc\x1b\\",
        "\x1b_\x1bx\x1b\\",
        "\x1b\\",
    ] {
        let lab = if s.starts_with("\x1bP") {
            "DCS"
        } else if s.starts_with("\x1b]") {
            "OSC"
        } else if s.starts_with("\x1b_") {
            "APS"
        } else {
            "ST"
        };
        v.push(t(lab, s));
    }
    // sequencing errors inside a DCS-embedded macro invocation, private markers that are not at the start, parameter
    // counts one off, reports that depend on modes set before, font selection under bold / blink
    for s in [
        "\x1bP\x1b[[\x1b\\",
        "\x1bP\x1b[1*1\x1b\\",
        "\x1bP\x1b[1**\x1b\\",
        "\x1bP\x1b[1z\x1b\\",
        "\x1bP\x1b[1;\x1b\\",
        "\x1bP1;0;1!z!3;;41\x1b\\",
        "\x1bP1;0;1!z!3;4\x1b\\",
        "\x1bP1;0;1!z!x\x1b\\",
        "\x1bP2q~\x1b\\",
        "\x1bP3q~\x1b\\",
        "\x1bP9;1q~\x1b\\",
        "\x1bPCTerm:Font:1:!!!!\x1b\\",
        "\x1bPCTerm:Font:1:\x1b\\",
    ] {
        v.push(t("DCS", s));
    }
    for s in ["\x1b[1?", "\x1b[1=", "\x1b[1!", "\x1b[1<", "\x1b[?69h\x1b[1;2;3s", "\x1b[2;3r\x1b[=0;2m\x1b[=1;2m", "\x1b[?69h\x1b[2;3s\x1b[=2;3m\x1b[=3;2m", "\x1b[=0m", "\x1b[=0;1;2m"] {
        v.push(t("CSIseq", s));
    }
    for m in ["4", "6", "7", "25", "33", "35", "9", "1000", "1001", "1002", "1003", "1004", "1005", "1006", "1007", "1015", "1016"] {
        v.push(t("mode+report", &format!("\x1b[?{}h\x1b[=2n\x1b[?{}l\x1b[=2n", m, m)));
    }
    for s in ["\x1b[1;5m\x1b[0;1 D", "\x1b[5m\x1b[0;2 D", "\x1b[1m\x1b[0;3 D", "\x1b[0;4 D\x1b[=1n", "\x1b[0;9999 D\x1b[=1n"] {
        v.push(t("FNT", s));
    }
    // unterminated strings / sequences (the probe then arrives in a non-ground parser state)
    for s in ["\x1b", "\x1b[", "\x1b[1;", "\x1b[?", "\x1b[=", "\x1b[<", "\x1b[!", "\x1b[*", "\x1b[$", "\x1b[ ", "\x1bP1;0;0!zab", "\x1bP\x1b", "\x1bP\x1b[1", "\x1b]8;;u", "\x1b]\x1b", "\x1b_a", "\x1b_\x1b"] {
        v.push(t("open", s));
    }
    if let Emu::Ansi(m) = emu {
        if m != 0 {
            for lead in ["\x1b[M", "\x1b[N", "\x1b[|"] {
                for body in ["", "F", "T120O3L4CDEFGAB", "O6B+", "O6B#.", "O7", "C99999999999.", "T99999999999L99999999999C", "P99999999999.", "MFMBMNMLMS", "<<<<<<<<C", ">>>>>>>>B+"] {
                    v.push(t("music", &format!("{}{}\x0e", lead, body)));
                    v.push(t("musicopen", &format!("{}{}", lead, body)));
                }
            }
        }
    }
    v
}

/// cursor positions: the four corners of the visible screen, without and with a scrollback, reached with the
/// emulation's own controls.  Labels `pos:<corner>[+sb]`.
pub fn positions(emu: Emu, w: i32, h: i32) -> Vec<Token> {
    let (w, h) = if emu.fixed_grid() { (40, 24) } else { (w, h) };
    let mut v: Vec<Token> = Vec::new();
    let lf = lf_code(emu);
    for sb in [false, true] {
        let scroll: Vec<u32> = if sb { rep(lf, if emu.fixed_grid() { h + 6 } else { h + 3 }) } else { vec![] };
        let suffix = if sb { "+sb" } else { "" };
        for (corner, right, bottom) in [("TL", false, false), ("TR", true, false), ("BL", false, true), ("BR", true, true)] {
            let mut cs = scroll.clone();
            match emu {
                Emu::Ansi(_) | Emu::Avatar | Emu::PCBoard | Emu::CtrlA | Emu::Renegade => {
                    let s = format!("\x1b[{};{}H", if bottom { h } else { 1 }, if right { w } else { 1 });
                    cs.extend(s.chars().map(|c| c as u32));
                }
                Emu::Petscii => {
                    cs.push(0x13);
                    if bottom {
                        cs.extend(rep(0x11, h - 1));
                    }
                    if right {
                        cs.extend(rep(0x1D, w - 1));
                    }
                }
                Emu::Atascii => {
                    cs.extend(rep(0x1C, h));
                    cs.extend(rep(0x1E, w));
                    if bottom {
                        cs.extend(rep(0x1D, h - 1));
                    }
                    if right {
                        cs.extend(rep(0x1F, w - 1));
                    }
                }
                Emu::Ascii => {
                    // no cursor addressing: the top row exists on a fresh screen only
                    if !bottom && sb {
                        continue;
                    }
                    if bottom && !sb {
                        cs.extend(rep(0x0a, h - 1));
                    }
                    cs.push(0x0d);
                    if right {
                        cs.extend(rep(0x41, w - 1));
                    }
                }
                Emu::Viewdata | Emu::Mode7 => {
                    cs.push(0x1E);
                    match (right, bottom) {
                        (false, false) => {}
                        (true, false) => cs.extend(rep(0x09, w - 1)),
                        (false, true) => cs.push(0x0B),
                        (true, true) => cs.push(0x08),
                    }
                }
            }
            v.push(tc(&format!("pos:{}{}", corner, suffix), &cs));
        }
    }
    v
}

/// Probe suffixes: short sequences that turn a latent bad state into an observable failure of the property.
pub fn probe_suffixes(emu: Emu, w: i32, h: i32) -> Vec<Token> {
    let (w, h) = if emu.fixed_grid() { (40, 24) } else { (w, h) };
    let mut v: Vec<Token> = Vec::new();
    if emu.ansi_family() {
        let ww = "A".repeat(w as usize + 1);
        let hh = "\n".repeat(h as usize + 1);
        let list: Vec<(&str, String)> = vec![
            // erase / insert / delete characters
            ("ECH", "\x1b[X".into()),
            ("ECH", "\x1b[1X".into()),
            ("ECH", "\x1b[9999X".into()),
            ("ICH", "\x1b[@".into()),
            ("ICH", "\x1b[9999@".into()),
            ("DCH", "\x1b[P".into()),
            ("DCH", "\x1b[9999P".into()),
            ("DEL", "\x7f".into()),
            ("BS", "\x08".into()),
            ("key", "\x1b[2~\x1b[3~".into()),
            ("key", "\x1b[4~A\x1b[1~A".into()),
            // insert / delete lines
            ("IL", "\x1b[L".into()),
            ("IL", "\x1b[9999L".into()),
            ("DL", "\x1b[M".into()),
            ("DL", "\x1b[1M".into()),
            ("DL", "\x1b[9999M".into()),
            // print: plain, over the right margin, insert mode, no-wrap
            ("print", "A".into()),
            ("printW", ww.clone()),
            ("IRMprint", "\x1b[4hA".into()),
            ("IRMprintW", format!("\x1b[4h{}", ww)),
            ("nowrap", format!("\x1b[?7l{}", ww)),
            ("ESCprint", "\x1b\x1b\x1b\n".into()),
            ("REP", "A\x1b[b".into()),
            ("REP", "\x1b[9999b".into()),
            ("REP", "\x1b[4hA\x1b[9999b".into()),
            // scrolling in four directions, with the current margins and with fresh ones
            ("SU", "\x1b[S".into()),
            ("SU", "\x1b[9999S".into()),
            ("SD", "\x1b[T".into()),
            ("SD", "\x1b[9999T".into()),
            ("SL", "\x1b[ @".into()),
            ("SL", "\x1b[9999 @".into()),
            ("SR", "\x1b[ A".into()),
            ("SR", "\x1b[9999 A".into()),
            ("LRscroll", "\x1b[?69h\x1b[2;3s\x1b[ @\x1b[ A".into()),
            ("TBscroll", "\x1b[2;3r\x1b[S\x1b[T\x1bM\x1bD".into()),
            // erase in line / display
            ("EL", "\x1b[K".into()),
            ("EL", "\x1b[1K".into()),
            ("EL", "\x1b[2K".into()),
            ("ED", "\x1b[J".into()),
            ("ED", "\x1b[1J".into()),
            ("ED", "\x1b[2JA".into()),
            // tabulation
            ("CVT", "\x1b[Y".into()),
            ("CVT", "\x1b[9999Y".into()),
            ("CBT", "\x1b[Z".into()),
            ("CBT", "\x1b[9999Z".into()),
            ("TBC+CBT", "\x1b[3g\x1b[Z".into()),
            ("TBC+CVT", "\x1b[3g\x1b[Y".into()),
            ("TBC0", "\x1b[g\x1b[Z\x1b[Y".into()),
            ("HTS", "\x1bH\x1b[Z\x1b[Y\x1b[2$w".into()),
            ("TSR", "\x1b[1 d\x1b[Z".into()),
            // absolute / relative positioning that reads the row
            ("HPA", "\x1b['".into()),
            ("HPA", "\x1b[9999'".into()),
            ("HPR", "\x1b[a".into()),
            ("HPR", "\x1b[2147483647a".into()),
            ("CHA", "\x1b[G".into()),
            ("VPA", "\x1b[d".into()),
            ("VPR", "\x1b[2147483647e".into()),
            ("CNL", "\x1b[2147483647E".into()),
            ("CPL", "\x1b[2147483647F".into()),
            ("CUP", "\x1b[2147483647;2147483647H".into()),
            ("CUU", "\x1b[A".into()),
            ("CUU", "\x1b[9999A".into()),
            ("CUD", "\x1b[B".into()),
            ("CUD", "\x1b[2147483647B".into()),
            ("CUF", "\x1b[2147483647C".into()),
            ("CUB", "\x1b[2147483647D".into()),
            // rectangles, checksum, reports
            ("DECFRA", "\x1b[65;1;1;9999;9999$x".into()),
            ("DECFRA", "\x1b[65;0;0;0;0$x".into()),
            ("DECERA", "\x1b[1;1;9999;9999$z".into()),
            ("DECSERA", "\x1b[1;1;9999;9999${".into()),
            ("DECRQCRA", format!("\x1b[1;1;0;0;{};{}*y", h, w)),
            ("DECTABSR", "\x1b[2$w".into()),
            ("CPR", "\x1b[6n".into()),
            ("report", "\x1b[255n\x1b[=1n\x1b[=2n\x1b[=3n\x1b[?62n\x1b[?63;1n\x1b[c\x1b[<c".into()),
            // save / restore
            ("RCP", "\x1b[u".into()),
            ("RCP", "\x1b[uA".into()),
            ("DECRC", "\x1b8".into()),
            ("DECRC", "\x1b8A".into()),
            ("DECSC+RC", "\x1b7\x1b8\x1b[s\x1b[u".into()),
            // state captured in one geometry and restored in another: after the scrollback was dropped (ED 2/3, FF,
            // RIS), after a soft reset, after the scrollback grew, after the margins changed — with the capture in the
            // prefix (ESC 7 / CSI s are in the alphabet) and with the capture here
            ("drop+DECRC", "\x1b[2J\x1b8".into()),
            ("drop+DECRC", "\x1b[3J\x1b8".into()),
            ("drop+DECRC", "\x0c\x1b8".into()),
            ("drop+DECRC", "\x1bc\x1b8".into()),
            ("drop+RCP", "\x1b[2J\x1b[u".into()),
            ("drop+RCP", "\x0c\x1b[u".into()),
            ("drop+RCP", "\x1bc\x1b[u".into()),
            ("reset+DECRC", "\x1b[!p\x1b8\x1b[u".into()),
            ("grow+DECRC", format!("{}\x1b8", hh)),
            ("grow+RCP", format!("{}\x1b[u", hh)),
            ("margins+DECRC", "\x1b[2;3r\x1b8".into()),
            ("margins+RCP", "\x1b[2;3r\x1b[u".into()),
            ("SC+drop+RC", "\x1b7\x1b[s\x1b[2J\x1b8".into()),
            ("SC+drop+RC", "\x1b7\x1b[s\x1b[2J\x1b[u".into()),
            ("SC+grow+drop+RC", format!("\x1b7\x1b[s{}\x1b[2J\x1b8\x1b[u", hh)),
            ("grow+SC+drop+RC", format!("{}\x1b7\x1b[s\x0c\x1b8", hh)),
            ("grow+SC+drop+RC", format!("{}\x1b7\x1b[s\x1bc\x1b[u", hh)),
            // line feed at the bottom, index / reverse index / next line
            ("LF", "\n".into()),
            ("LFxH", hh.clone()),
            ("CR", "\r".into()),
            ("IND", "\x1bD".into()),
            ("IND", format!("{}", "\x1bD".repeat(h as usize + 1))),
            ("RI", "\x1bM".into()),
            ("RI", format!("{}", "\x1bM".repeat(h as usize + 1))),
            ("NEL", "\x1bE".into()),
            // margins set now, then motion
            ("STBM+LF", format!("\x1b[2;3r{}", hh)),
            ("STBM+CUU", "\x1b[2;3r\x1b[9999A".into()),
            // the largest parameter the number parser produces, for every parameter-driven loop (a hang is a failure of
            // C01 as well: the emulation no longer accepts further characters)
            ("STBM+CUUmax", "\x1b[2;3r\x1b[2147483647A".into()),
            ("max", "\x1b[2147483647X\x1b[2147483647@\x1b[2147483647P".into()),
            ("max", "\x1b[2147483647L\x1b[2147483647M".into()),
            ("max", "\x1b[2147483647S\x1b[2147483647T\x1b[2147483647 @\x1b[2147483647 A".into()),
            ("max", "A\x1b[2147483647b\x1b[2147483647Y\x1b[2147483647Z".into()),
            ("SSM", "\x1b[=0;1m\x1b[=1;1m\x1bM\x1bD".into()),
            // resets (resize-free)
            ("DECSTR", "\x1b[!pA".into()),
            ("RIS", "\x1bcA".into()),
            ("FF", "\x0cA".into()),
            ("RSM", "\x1b[=r\x1b[L\x1b[M".into()),
            // hyperlinks, macros, sixel hand-off, music terminator
            ("OSC8", "\x1b]8;;\x1b\\".into()),
            ("OSC8", "\x1b]8;;u\x1b\\A\n\x1b]8;;\x1b\\".into()),
            ("macro", "\x1b[0*z\x1b[1*z".into()),
            ("macro", "\x1bP1;0;0!z\x1b[X\x1b[L\x1b\\\x1b[1*z".into()),
            ("sixel", "\x1bPq~\x1b\\".into()),
            ("SO", "\x0e".into()),
            ("ST", "\x1b\\A".into()),
        ];
        for (l, s) in list {
            v.push(t(&format!("probe:{}", l), &s));
        }
    }
    // the emulation's own controls, once and repeated past the screen size
    if !matches!(emu, Emu::Ansi(_)) {
        for tk in own_alphabet(emu, w, h) {
            let mut once = tk.clone();
            once.label = format!("probe:{}", tk.label);
            v.push(once);
            if !emu.ansi_family() && tk.chars.len() <= 2 {
                let mut many = tk.clone();
                many.label = format!("probe:{}xN", tk.label);
                many.chars = (0..(w.max(h) + 1)).flat_map(|_| tk.chars.clone()).collect();
                v.push(many);
            }
        }
    }
    if !emu.ansi_family() {
        v.push(tc("probe:print", &[0x41]));
        v.push(tc("probe:printW", &rep(0x41, w + 1)));
        v.push(tc("probe:LFxH", &rep(lf_code(emu), h + 1)));
    }
    v
}

/// The invariant `GoodSt` of Lemmas/TermStep.lean evaluated on the real terminal: sizes and margins sane, cursor
/// non-negative and near the buffer, and — unless a resize was requested — inside the visible screen.
pub fn good_state(t: &Term, resized: bool) -> bool {
    let p = t.caret.get_position();
    let ts = &t.buf.terminal_state;
    let (tw, th) = (ts.get_width(), ts.get_height());
    let bh = t.buf.get_height();
    if !(1..=132).contains(&tw) || !(1..=60).contains(&th) || bh < 1 {
        return false;
    }
    if let Some((a, b)) = ts.get_margins_top_bottom() {
        if !(0 <= a && a <= b && b < th) {
            return false;
        }
    }
    if let Some((a, b)) = ts.get_margins_left_right() {
        if !(0 <= a && a <= b && b < tw) {
            return false;
        }
    }
    if !(0 <= p.x && p.x <= 132 && 0 <= p.y && p.y as i64 <= bh as i64 + 60) {
        return false;
    }
    if !resized && !(th <= bh && t.cursor_in_screen() && t.size_ok()) {
        return false;
    }
    if t.emu.fixed_grid() && !t.grid_ok() {
        return false;
    }
    true
}

pub fn short_id(emu: Emu, w: i32, h: i32, chars: &[char]) -> String {
    let s: String = chars.iter().collect();
    format!("{}_{}_{}_{}", emu.name(), w, h, hex(s.as_bytes()))
}

/// One probe: a fresh terminal is fed `prefix` (unchecked — the prefix on its own is checked by the caller), then
/// `suffix` with both oracles.  Records (all carry the replayable id of the whole stream):
///   `Q P <id> <i> <site> <label> <loc>`            panic at char i
///   `Q C <id> <i> <label> <x> <y> <first> <w> <h>` cursor left the visible screen at char i (resize-free so far)
///   `Q G <id> <i> <label>`                         fixed grid changed size / grew a scrollback
///   `Q Z <id> <i> <label> <tw> <th> <w> <h>`       terminal size changed without a resize request
/// Returns the number of characters fed.
pub fn probe_one(emu: Emu, w: i32, h: i32, prefix: &[char], suffix: &Token, emit: &mut dyn FnMut(String)) -> usize {
    let mut t = Term::new(emu, w, h);
    let mut resized = false;
    for ch in prefix {
        match t.feed(*ch) {
            Outcome::Panic(_, _) => return 0,
            Outcome::Resize(_, _) => resized = true,
            _ => {}
        }
    }
    resized = resized || t.resized_in_macro;
    let mut inside = t.cursor_in_screen();
    let mut size_same = t.size_ok();
    let mut grid = !emu.fixed_grid() || t.grid_ok();
    let id = || {
        let mut all: Vec<char> = prefix.to_vec();
        all.extend(suffix.chars.iter());
        short_id(emu, w, h, &all)
    };
    let lab = suffix.label.replace([' ', ',', '*'], "_");
    for (k, ch) in suffix.chars.iter().enumerate() {
        let i = prefix.len() + k;
        match t.feed(*ch) {
            Outcome::Panic(site, loc) => {
                emit(format!("Q P {} {} {} {} {}", id(), i, site, lab, loc));
                return i + 1;
            }
            Outcome::Resize(_, _) => resized = true,
            _ => {}
        }
        resized = resized || t.resized_in_macro;
        if !resized {
            let now = t.cursor_in_screen();
            if inside && !now {
                let p = t.caret.get_position();
                emit(format!("Q C {} {} {} {} {} {} {} {}", id(), i, lab, p.x, p.y, t.exp_first_visible(), t.exp_w, t.exp_h));
            }
            inside = now;
            let sz = t.size_ok();
            if size_same && !sz {
                emit(format!("Q Z {} {} {} {} {} {} {}", id(), i, lab, t.buf.terminal_state.get_width(), t.buf.terminal_state.get_height(), t.exp_w, t.exp_h));
            }
            size_same = sz;
        }
        if emu.fixed_grid() {
            let g = t.grid_ok();
            if grid && !g {
                emit(format!("Q G {} {} {}", id(), i, lab));
            }
            grid = g;
        }
    }
    prefix.len() + suffix.chars.len()
}

/// all probe suffixes after `prefix`; emits the records of `probe_one` and a summary `Q S <runs> <chars>`
pub fn probe_all(emu: Emu, w: i32, h: i32, prefix: &[char], emit: &mut dyn FnMut(String)) {
    let mut runs = 0usize;
    let mut fed = 0usize;
    for s in probe_suffixes(emu, w, h) {
        fed += probe_one(emu, w, h, prefix, &s, emit);
        runs += 1;
    }
    emit(format!("Q S {} {}", runs, fed));
}

/// worker side of a group line `probe <emu> <w> <h> <prefix-hex> [labels]`: the prefix on its own (with both oracles,
/// as an ordinary probe with an empty prefix), then every probe suffix after it
pub fn probe_group(line: &str, emit: &mut dyn FnMut(String)) {
    let Some(rest) = line.strip_prefix("probe ") else {
        emit("BAD".into());
        return;
    };
    let Some((emu, w, h, chars, labels)) = parse_case(rest) else {
        emit("BAD".into());
        return;
    };
    let lab = labels.last().cloned().unwrap_or_else(|| "?".into());
    let own = Token { label: lab, chars: chars.clone() };
    let mut died = false;
    probe_one(emu, w, h, &[], &own, &mut |s| {
        if s.starts_with("Q P ") {
            died = true;
        }
        emit(s)
    });
    if died {
        emit("Q S 1 0".into());
        return;
    }
    probe_all(emu, w, h, &chars, emit);
}

pub fn group_line(emu: Emu, w: i32, h: i32, tokens: &[Token]) -> String {
    format!("probe {}", case_line(emu, w, h, tokens))
}

/// the ordinary case lines (one per probe suffix) a group stands for — used to pin an abort or a hang
pub fn expand_group(line: &str) -> Vec<String> {
    let Some(rest) = line.strip_prefix("probe ") else { return vec![] };
    let Some((emu, w, h, chars, _)) = parse_case(rest) else { return vec![] };
    let pre = Token { label: "prefix".into(), chars };
    let mut out = vec![case_line(emu, w, h, &[pre.clone()])];
    for s in probe_suffixes(emu, w, h) {
        out.push(case_line(emu, w, h, &[pre.clone(), s]));
    }
    out
}

/// Runs probe groups (and ordinary case lines) in `jobs` parallel chains of crash-isolated children.  A group whose
/// child died or hung is expanded into its single streams, which are run again one per case so that the stream that
/// kills the child is pinned: it is reported as `Q A <id> <reason>`.
pub fn run_probe_groups(prop: &str, dir: &std::path::Path, groups: &[String], jobs: usize, timeout_s: u64) -> Vec<Vec<String>> {
    let jobs = jobs.max(1).min(groups.len().max(1));
    let mut handles = Vec::new();
    // round robin: neighbouring groups cost about the same, so every chain gets the same share of the expensive ones
    for k in 0..jobs {
        let part: Vec<String> = groups.iter().skip(k).step_by(jobs).cloned().collect();
        let d = dir.join(format!("probe{}", k));
        let prop = prop.to_string();
        handles.push(std::thread::spawn(move || {
            std::fs::create_dir_all(&d).unwrap();
            // a probe that kills or hangs the child does so after most prefixes: pin the first few, skip the rest
            let res = run_in_workers_capped(&prop, &d, &part, timeout_s, 2);
            let mut out: Vec<Vec<String>> = Vec::new();
            for (line, r) in part.iter().zip(res.into_iter()) {
                match r {
                    Ok(lines) => out.push(lines),
                    Err(reason) if reason == "skipped" => out.push(vec!["Q K".to_string()]),
                    Err(reason) => {
                        let singles = expand_group(line);
                        let rs = run_in_workers_capped(&prop, &d, &singles, timeout_s, 3);
                        let mut lines: Vec<String> = Vec::new();
                        for (s, r) in singles.iter().zip(rs.iter()) {
                            match r {
                                Err(why) if why == "skipped" => {}
                                Err(why) => lines.push(format!("Q A {} {}", s.split_whitespace().take(4).collect::<Vec<_>>().join("_"), why.replace(' ', "_"))),
                                Ok(ls) => {
                                    for l in ls {
                                        if l.starts_with("P ") || l.starts_with("C ") || l.starts_with("G ") || l.starts_with("Z ") {
                                            // re-shape an ordinary record into a probe record
                                            let id = s.split_whitespace().take(4).collect::<Vec<_>>().join("_");
                                            let mut p = l.split_whitespace();
                                            let kind = p.next().unwrap_or("?");
                                            let i = p.next().unwrap_or("0");
                                            let rest: Vec<&str> = p.collect();
                                            lines.push(format!("Q {} {} {} {}", kind, id, i, rest.join(" ")));
                                        }
                                    }
                                }
                            }
                        }
                        if lines.is_empty() {
                            // not reproducible one by one: report the group as a whole
                            lines.push(format!("Q A {} {}", line.split_whitespace().skip(1).take(4).collect::<Vec<_>>().join("_"), reason.replace(' ', "_")));
                        }
                        out.push(lines);
                    }
                }
            }
            let _ = std::fs::remove_dir_all(&d);
            out
        }));
    }
    let parts: Vec<Vec<Vec<String>>> = handles.into_iter().map(|h| h.join().unwrap()).collect();
    let mut its: Vec<std::vec::IntoIter<Vec<String>>> = parts.into_iter().map(|p| p.into_iter()).collect();
    let mut all: Vec<Vec<String>> = Vec::with_capacity(groups.len());
    for i in 0..groups.len() {
        all.push(its[i % jobs].next().unwrap_or_default());
    }
    all
}

/// a parsed probe record
pub struct Hit {
    pub kind: char, // P panic, C cursor, G grid, A abort/timeout
    pub id: String, // replayable input `<emu>_<w>_<h>_<hex>`
    pub fields: Vec<String>,
}

pub fn parse_hit(l: &str) -> Option<Hit> {
    let p: Vec<&str> = l.split_whitespace().collect();
    if p.len() < 3 || p[0] != "Q" || p[1] == "S" || p[1] == "K" {
        return None;
    }
    Some(Hit { kind: p[1].chars().next()?, id: p[2].to_string(), fields: p[3..].iter().map(|s| s.to_string()).collect() })
}

pub fn emu_family(e: &str) -> &str {
    if e.starts_with("ansi") {
        "ansi"
    } else {
        e
    }
}

/// C01's verdict on a probe record: (key, input, what)
pub fn c01_verdict(h: &Hit) -> Option<(String, String, String)> {
    let emu = h.id.split('_').next().unwrap_or("?").to_string();
    match h.kind {
        'P' => Some((
            h.fields.get(1).cloned().unwrap_or_default(),
            h.id.clone(),
            format!("panic at char {} in {} ({}) [failing-input search]", h.fields.first().cloned().unwrap_or_default(), h.fields.get(2).cloned().unwrap_or_default(), h.fields.get(3).cloned().unwrap_or_default()),
        )),
        'A' => {
            let reason = h.fields.first().cloned().unwrap_or_default();
            Some((format!("{}:{}", emu_family(&emu), reason.split(':').next().unwrap_or("abort")), h.id.clone(), format!("worker died: {} [failing-input search]", reason)))
        }
        _ => None,
    }
}

/// C09's verdict on a probe record
pub fn c09_verdict(h: &Hit) -> Option<(String, String, String)> {
    let emu = h.id.split('_').next().unwrap_or("?").to_string();
    let fam = emu_family(&emu).to_string();
    let f = |k: usize| h.fields.get(k).cloned().unwrap_or_default();
    match h.kind {
        'C' => Some((
            format!("{}:{}", fam, f(1)),
            h.id.clone(),
            format!("cursor ({},{}) outside screen first_visible={} size={}x{} after char {} [failing-input search]", f(2), f(3), f(4), f(5), f(6), f(0)),
        )),
        'G' => Some((format!("{}:grid:{}", fam, f(1)), h.id.clone(), format!("fixed 40x24 page changed size or grew a scrollback at char {} [failing-input search]", f(0)))),
        'Z' => Some((
            format!("{}:size:{}", fam, f(1)),
            h.id.clone(),
            format!("terminal size became {}x{} (opened / last resized to {}x{}) without a resize request, at char {} [failing-input search]", f(2), f(3), f(4), f(5), f(0)),
        )),
        _ => None,
    }
}

/// The exhaustive probe family: position x (1 token of `alpha`; 2 tokens at the first `depth2_positions` positions)
/// as group lines; each group stands for "this prefix followed by every probe suffix".
pub fn family_groups(emu: Emu, w: i32, h: i32, alpha: &[Token], pos: &[Token], depth2_positions: usize, out: &mut Vec<String>) {
    for (pi, p) in pos.iter().enumerate() {
        out.push(group_line(emu, w, h, &[p.clone()]));
        for a in alpha {
            out.push(group_line(emu, w, h, &[p.clone(), a.clone()]));
        }
        if pi < depth2_positions {
            for a in alpha {
                for b in alpha {
                    out.push(group_line(emu, w, h, &[p.clone(), a.clone(), b.clone()]));
                }
            }
        }
    }
}

/// `@search:<file>` mode (hook for `check`, see notes/check_search.patch): every line of the file is
/// `op <TAB> impl <TAB> model` of a correspondence mismatch.  The stream is rebuilt from the op; the suspect window
/// is the stretch between the last agreeing and the first disagreeing checkpoint (or the whole stream when it is
/// short); every prefix that ends in the window is extended with every probe suffix.
pub fn search_groups(path: &str, max_mismatches: usize) -> Vec<String> {
    let text = std::fs::read_to_string(path).unwrap_or_default();
    let mut cands: Vec<(Emu, i32, i32, Vec<char>, usize, usize)> = Vec::new();
    for line in text.lines() {
        let parts: Vec<&str> = line.split('\t').collect();
        if parts.len() < 3 {
            continue;
        }
        let op: Vec<&str> = parts[0].split_whitespace().collect();
        if op.len() < 6 || op[0] != "term" {
            continue;
        }
        let (emu, w, h, items) = match op[1] {
            "run" if op.len() >= 7 => (Emu::from_name(&format!("ansi{}", op[2])), op[4], op[5], op[6]),
            "runw" | "runo" => (Emu::from_name(op[2]), op[3], op[4], op[5]),
            _ => continue,
        };
        let (Some(emu), Ok(w), Ok(h)) = (emu, w.parse::<i32>(), h.parse::<i32>()) else { continue };
        let chars: Vec<char> = if items == "-" { vec![] } else { items.split(',').filter_map(|it| it.split(':').next()?.parse::<u32>().ok().and_then(char::from_u32)).collect() };
        let cps = |s: &str| -> Vec<String> {
            // `<n> <hash> [digest] cp cp …`
            match s.find(']') {
                Some(p) => s[p + 1..].split_whitespace().map(|x| x.to_string()).collect(),
                None => vec![],
            }
        };
        let (a, b) = (cps(parts[1]), cps(parts[2]));
        let mut k = 0usize;
        while k < a.len() && k < b.len() && a[k] == b[k] {
            k += 1;
        }
        let lo = 32 * k;
        let hi = (32 * (k + 1)).min(chars.len());
        cands.push((emu, w, h, chars, lo, hi));
    }
    cands.sort_by_key(|c| c.3.len());
    cands.truncate(max_mismatches);
    let mut out = Vec::new();
    for (emu, w, h, chars, lo, hi) in cands {
        for n in (lo + 1)..=hi.max(lo + 1).min(chars.len()) {
            out.push(group_line(emu, w, h, &[Token { label: "mismatch-prefix".into(), chars: chars[..n].to_vec() }]));
        }
    }
    out
}

fn b64(data: &[u8]) -> String {
    const T: &[u8; 64] = b"ABCDEFGHIJKLMNOPQRSTUVWXYZabcdefghijklmnopqrstuvwxyz0123456789+/";
    let mut s = String::new();
    for c in data.chunks(3) {
        let b = [c[0], *c.get(1).unwrap_or(&0), *c.get(2).unwrap_or(&0)];
        let n = ((b[0] as u32) << 16) | ((b[1] as u32) << 8) | b[2] as u32;
        s.push(T[(n >> 18) as usize & 63] as char);
        s.push(T[(n >> 12) as usize & 63] as char);
        s.push(if c.len() > 1 { T[(n >> 6) as usize & 63] as char } else { '=' });
        s.push(if c.len() > 2 { T[n as usize & 63] as char } else { '=' });
    }
    s
}

/// What the quick / thorough tier runs besides the seeded streams: (ordinary case lines — position x one token of
/// the own alphabet, compared with the model like every other stream; probe groups — the exhaustive family
/// "position x (<= 1 token quick, <= 2 tokens thorough) x every probe suffix").  Screen 7x4 (40x24 for the pages).
pub fn probe_plan(thorough: bool) -> (Vec<String>, Vec<String>) {
    let (w, h) = (7, 4);
    let mut cases: Vec<String> = Vec::new();
    let mut groups: Vec<String> = Vec::new();
    for emu in ALL_EMUS {
        let pos = positions(emu, w, h);
        let (alpha, pos, d2): (Vec<Token>, Vec<Token>, usize) = match emu {
            Emu::Ansi(0) => (ansi_alphabet(emu, w, h), pos, 0),
            Emu::Ansi(_) => {
                // music configurations: the music sub-language only (everything else is configuration-independent)
                let a: Vec<Token> = ansi_alphabet(emu, w, h).into_iter().filter(|t| t.label.starts_with("music")).collect();
                let p = vec![pos[0].clone(), pos[pos.len() - 1].clone()];
                (a, p, 0)
            }
            _ => {
                let n = pos.len();
                (own_alphabet(emu, w, h), pos, if thorough { n } else { 0 })
            }
        };
        for p in &pos {
            for a in &alpha {
                cases.push(case_line(emu, w, h, &[p.clone(), a.clone()]));
            }
        }
        family_groups(emu, w, h, &alpha, &pos, d2, &mut groups);
    }
    // every CSI final byte with every private marker / intermediate (markers before, intermediates after the parameters),
    // with no, one and two parameters — the complete table, compared with the model
    for fin in CSI_FINALS.chars() {
        for inter in CSI_INTER {
            for params in ["", "1", "1;2", "0;0;0;0;0;0"] {
                let s = match inter {
                    "?" | "=" | "!" | "<" => format!("\x1b[{}{}{}", inter, params, fin),
                    _ => format!("\x1b[{}{}{}", params, inter, fin),
                };
                cases.push(case_line(Emu::Ansi(0), w, h, &[t(&format!("CSI{}{}", inter, fin), &s), t("print", "A\n")]));
            }
        }
    }
    // once, on a fresh screen (no geometry involved): every SGR number on its own and in front of an extended colour,
    // a custom font that loads
    let sgr = |s: String| case_line(Emu::Ansi(0), w, h, &[t("SGR", &s)]);
    for n in 0..=110 {
        cases.push(sgr(format!("\x1b[{}mA", n)));
        cases.push(sgr(format!("\x1b[{};38;5;{}m", n, n)));
    }
    for s in ["38;2;1;2;3", "48;2;1;2", "38;5", "38;9;1", "48;5;255;1", "38;2;255;255;255;48;2;0;0;0", "0;0;0;0;0;0;0;0;0;0;0;0;0;0;0;0;0;0;0;0"] {
        cases.push(sgr(format!("\x1b[{}m", s)));
    }
    {
        for height in [8usize, 14, 16, 1, 33] {
            let font = b64(&vec![0x55u8; 256 * height]);
            cases.push(case_line(Emu::Ansi(0), w, h, &[t("DCSfont", &format!("\x1bPCTerm:Font:{}:{}\x1b\\\x1b[0;{} DA", 40 + height, font, 40 + height))]));
        }
    }
    (cases, groups)
}

/// report the probe records of one case / group; returns the number of probe runs and characters they fed
pub fn report_probe_lines(run: &mut Run, lines: &[String], verdict: fn(&Hit) -> Option<(String, String, String)>) -> (u64, u64) {
    let (mut runs, mut fed) = (0u64, 0u64);
    let mut reported = 0;
    for l in lines {
        if let Some(rest) = l.strip_prefix("Q S ") {
            let mut it = rest.split_whitespace();
            runs += it.next().and_then(|v| v.parse().ok()).unwrap_or(0);
            fed += it.next().and_then(|v| v.parse().ok()).unwrap_or(0);
            continue;
        }
        if let Some(hit) = parse_hit(l) {
            if hit.kind == 'V' {
                run.count("invariant-left(search started)");
            }
            if let Some((key, input, what)) = verdict(&hit) {
                // one prefix usually fails with many suffixes: the first few are enough
                if reported < 3 {
                    run.oracle_fail(&key, &input, &what);
                }
                reported += 1;
                run.count("probe-hit");
            }
        }
    }
    (runs, fed)
}


/// parallel chains of worker children for the probe family (other agents share the machine: at most 6)
pub fn jobs() -> usize {
    std::env::var("VERIF_JOBS").ok().and_then(|v| v.parse().ok()).unwrap_or(4).clamp(1, 6)
}

/// `VERIF_NO_PROBE=1` switches the unconditional probe family and the invariant-triggered search off (to look at
/// what the seeded streams alone find, and to exercise the `@search:` hook of `check`)
pub fn no_probe() -> bool {
    std::env::var("VERIF_NO_PROBE").map(|v| v == "1").unwrap_or(false)
}
