mod c19;
mod util;
use util::*;

fn main() {
    let args: Vec<String> = std::env::args().collect();
    if args.len() < 2 {
        eprintln!("usage: harness <prop> --seed N --tier quick|thorough --out DIR [--replay INPUT]");
        std::process::exit(2);
    }
    let prop = args[1].to_lowercase();
    let mut seed = 1u64;
    let mut thorough = false;
    let mut out = std::path::PathBuf::from("work/tmp");
    let mut replay: Option<String> = None;
    let mut corpus: Vec<String> = Vec::new();
    let mut i = 2;
    while i < args.len() {
        match args[i].as_str() {
            "--seed" => {
                seed = args[i + 1].parse().unwrap_or(1);
                i += 1;
            }
            "--tier" => {
                thorough = args[i + 1] == "thorough";
                i += 1;
            }
            "--out" => {
                out = args[i + 1].clone().into();
                i += 1;
            }
            "--replay" => {
                replay = Some(args[i + 1].clone());
                i += 1;
            }
            "--inputs" => {
                if let Ok(t) = std::fs::read_to_string(&args[i + 1]) {
                    corpus = t.lines().map(|l| l.trim().to_string()).filter(|l| !l.is_empty()).collect();
                }
                i += 1;
            }
            _ => {}
        }
        i += 1;
    }
    install_panic_hook();
    let mut run = Run::new(&out);
    match prop.as_str() {
        "c19" => c19::run(&mut run, seed, thorough, replay.as_deref(), &corpus),
        _ => {
            eprintln!("unknown property {}", prop);
            std::process::exit(2);
        }
    }
    run.finish();
}
