//! C06: XBin compression is transparent and conforms to the XBin specification.
//!
//! A case is a whole buffer: ice mode, width, cells (character, fg, bg, attribute flags, font page),
//! options (SAUCE on/off, colour-optimiser path on/off).  The REAL crate saves it compressed and
//! uncompressed and loads both files back.
//!
//! correspondence (ops/impl): the image data (bytes after header/palette/fonts, before SAUCE) of both
//!   files vs the Lean model's `compressImage`/`rawImage`; the harness's spec decoder vs the Lean spec
//!   decoder on the implementation's bytes and on corrupted variants of them.
//! oracle (the property itself, on the implementation only):
//!   * the harness's OWN decoder, written from doc/FileFormats/x_bin.htm, accepts the compressed image data:
//!     every run 1..=64 cells, no run crosses a row end, every row is exactly `width` cells, the data ends
//!     with the last row and only the optional SAUCE record follows;
//!   * the cells it decodes are the (char, attribute) pairs of the uncompressed file;
//!   * `from_bytes(compressed)` and `from_bytes(uncompressed)` are equal cell by cell incl. font page.
use crate::util::*;
use icy_engine::{AttributedChar, BitFont, Buffer, ColorOptimizer, IceMode, SaveOptions, TextAttribute, TextPane};
use std::path::Path;

#[derive(Clone, Copy, PartialEq, Eq, Hash, Debug, PartialOrd, Ord)]
pub struct Cell {
    ch: u32,
    fg: u32,
    bg: u32,
    flags: u16,
    page: usize,
}

#[derive(Clone, Debug)]
pub struct Case {
    ice: u8, // 0 Unlimited, 1 Blink, 2 Ice
    w: usize,
    opts: u8, // bit0: save SAUCE, bit1: go through the colour optimiser (lossles_output = false)
    cells: Vec<Cell>,
}

const B36: &[u8] = b"0123456789abcdefghijklmnopqrstuvwxyz";

fn cell_str(c: &Cell) -> String {
    format!("{}.{}.{}.{}.{}", c.ch, c.fg, c.bg, c.flags, c.page)
}

/// `<ice>:<w>:<opts>:<alphabet>:<symbols>`; alphabet = `ch.fg.bg.flags.page,…`; symbols = one base-36 digit per
/// cell (alphabets of <= 36 cells) or `*` (cell i is alphabet entry i)
fn token(ice: u8, w: usize, opts: u8, cells: &[Cell]) -> String {
    let mut alpha: Vec<Cell> = Vec::new();
    let mut idx = Vec::with_capacity(cells.len());
    let mut small = true;
    for c in cells {
        match alpha.iter().position(|a| a == c) {
            Some(i) => idx.push(i),
            None => {
                if alpha.len() == 36 {
                    small = false;
                    break;
                }
                alpha.push(*c);
                idx.push(alpha.len() - 1);
            }
        }
    }
    if small {
        let a: Vec<String> = alpha.iter().map(cell_str).collect();
        let s: String = idx.iter().map(|i| B36[*i] as char).collect();
        format!("{}:{}:{}:{}:{}", ice, w, opts, a.join(","), s)
    } else {
        let a: Vec<String> = cells.iter().map(cell_str).collect();
        format!("{}:{}:{}:{}:*", ice, w, opts, a.join(","))
    }
}

fn parse_token(t: &str) -> Option<Case> {
    let p: Vec<&str> = t.trim().split(':').collect();
    if p.len() != 5 {
        return None;
    }
    let ice: u8 = p[0].parse().ok()?;
    let w: usize = p[1].parse().ok()?;
    let opts: u8 = p[2].parse().ok()?;
    let mut alpha = Vec::new();
    for c in p[3].split(',') {
        let f: Vec<&str> = c.split('.').collect();
        if f.len() != 5 {
            return None;
        }
        alpha.push(Cell { ch: f[0].parse().ok()?, fg: f[1].parse().ok()?, bg: f[2].parse().ok()?, flags: f[3].parse().ok()?, page: f[4].parse().ok()? });
    }
    let cells: Vec<Cell> = if p[4] == "*" {
        alpha
    } else {
        let mut v = Vec::new();
        for b in p[4].bytes() {
            let i = B36.iter().position(|x| *x == b)?;
            v.push(*alpha.get(i)?);
        }
        v
    };
    if w == 0 || cells.is_empty() || cells.len() % w != 0 || ice > 2 {
        return None;
    }
    Some(Case { ice, w, opts, cells })
}

fn ice_of(i: u8) -> IceMode {
    match i {
        0 => IceMode::Unlimited,
        1 => IceMode::Blink,
        _ => IceMode::Ice,
    }
}

fn observe(b: &Buffer, x: i32, y: i32) -> Cell {
    let c = b.get_char((x, y));
    Cell { ch: c.ch as u32, fg: c.attribute.get_foreground(), bg: c.attribute.get_background(), flags: c.attribute.attr, page: c.get_font_page() }
}

fn build(case: &Case) -> Buffer {
    let h = case.cells.len() / case.w;
    let mut buf = Buffer::new((case.w as i32, h as i32));
    buf.is_terminal_buffer = false;
    buf.ice_mode = ice_of(case.ice);
    for c in &case.cells {
        if !buf.has_font(c.page) {
            buf.set_font(c.page, BitFont::default());
        }
    }
    for (i, c) in case.cells.iter().enumerate() {
        let mut a = TextAttribute::new(c.fg, c.bg);
        a.attr = c.flags;
        a.set_font_page(c.page);
        let ch = char::from_u32(c.ch).unwrap_or('?');
        buf.layers[0].set_char(((i % case.w) as i32, (i / case.w) as i32), AttributedChar::new(ch, a));
    }
    buf
}

// ------------------------------------------------------------------ the harness's own reading of the XBin spec

struct Header {
    w: usize,
    h: usize,
    flags: u8,
    image_at: usize,
}

/// "The XBIN header consists of 11 bytes": ID(4) EOFChar(1) Width(2) Height(2) FontSize(1) Flags(1); palette = 48
/// bytes when bit 0; font = FontSize*256 bytes (x2 with bit 4 = 512Chars) when bit 1; Compress = bit 2.
fn parse_header(d: &[u8]) -> Result<Header, String> {
    if d.len() < 11 || &d[0..4] != b"XBIN" || d[4] != 0x1A {
        return Err("bad header".into());
    }
    let w = d[5] as usize + ((d[6] as usize) << 8);
    let h = d[7] as usize + ((d[8] as usize) << 8);
    let fs = d[9] as usize;
    let flags = d[10];
    if flags & 0xE0 != 0 {
        return Err("unused flag bits set".into());
    }
    if flags & 0x10 != 0 && flags & 0x02 == 0 {
        return Err("512Chars without Font bit".into());
    }
    let mut o = 11;
    if flags & 1 != 0 {
        o += 48;
    }
    if flags & 2 != 0 {
        o += fs * 256 * if flags & 0x10 != 0 { 2 } else { 1 };
    }
    if o > d.len() {
        return Err("palette/font beyond EOF".into());
    }
    Ok(Header { w, h, flags, image_at: o })
}

pub struct Decoded {
    pairs: Vec<(u8, u8)>,
    runs: usize,
    used: usize,
}

/// XBin-Compression, row by row: `ttcccccc`, repeat = c+1 (1..=64); 00 pairs, 01 char then attrs, 10 attr then
/// chars, 11 one pair.  A run that does not fit into the rest of the row is an error ("Whenever a line doesn't
/// nicely work out to the required width there must be some error").
pub fn spec_decode(d: &[u8], w: usize, h: usize) -> Result<Decoded, String> {
    let mut o = 0usize;
    let mut pairs = Vec::with_capacity(w * h);
    let mut runs = 0;
    for y in 0..h {
        let mut x = 0usize;
        while x < w {
            if o >= d.len() {
                return Err(format!("data ends inside row {} at column {}", y, x));
            }
            let b = d[o];
            o += 1;
            let n = (b & 0x3F) as usize + 1;
            if x + n > w {
                return Err(format!("run of {} cells at row {} column {} crosses the row end (width {})", n, y, x, w));
            }
            let need = match b >> 6 {
                0 => 2 * n,
                1 | 2 => 1 + n,
                _ => 2,
            };
            if o + need > d.len() {
                return Err(format!("run payload at row {} column {} beyond end of data", y, x));
            }
            match b >> 6 {
                0 => {
                    for i in 0..n {
                        pairs.push((d[o + 2 * i], d[o + 2 * i + 1]));
                    }
                }
                1 => {
                    for i in 0..n {
                        pairs.push((d[o], d[o + 1 + i]));
                    }
                }
                2 => {
                    for i in 0..n {
                        pairs.push((d[o + 1 + i], d[o]));
                    }
                }
                _ => {
                    for _ in 0..n {
                        pairs.push((d[o], d[o + 1]));
                    }
                }
            }
            o += need;
            x += n;
            runs += 1;
        }
    }
    Ok(Decoded { pairs, runs, used: o })
}

fn pairs_hash(p: &[(u8, u8)]) -> u64 {
    fnv(p.iter().map(|(c, a)| (*c as u64) * 256 + *a as u64))
}

/// is `tail` nothing, or exactly an EOF char + optional COMNT block + one 128-byte SAUCE record?
fn tail_ok(tail: &[u8], sauce: bool) -> Result<(), String> {
    if !sauce {
        return if tail.is_empty() { Ok(()) } else { Err(format!("{} bytes follow the last row (no SAUCE requested)", tail.len())) };
    }
    if tail.len() < 129 || tail[0] != 0x1A {
        return Err(format!("{} bytes follow the last row, not EOF+SAUCE", tail.len()));
    }
    let rec = &tail[tail.len() - 128..];
    if &rec[0..7] != b"SAUCE00" {
        return Err("data after the last row does not end in a SAUCE00 record".into());
    }
    let mid = &tail[1..tail.len() - 128];
    if !(mid.is_empty() || (mid.len() >= 5 && &mid[0..5] == b"COMNT" && (mid.len() - 5) % 64 == 0)) {
        return Err(format!("{} unexplained bytes between the last row and the SAUCE record", mid.len()));
    }
    Ok(())
}

// ------------------------------------------------------------------ one case against the real crate

pub struct Outcome {
    input: Vec<Cell>, // what the format writer saw (Buffer::get_char of the buffer handed to it)
    h: usize,
    loaded: Vec<(u8, bool, String)>, // (header flags, compressed?, digest of the cells the crate's loader produced)
    img_c: Result<Vec<u8>, String>,
    img_u: Result<Vec<u8>, String>,
    failures: Vec<(String, String)>,
}

fn save(buf: &Buffer, compress: bool, opts: u8) -> Result<Vec<u8>, String> {
    let mut o = SaveOptions::new();
    o.compress = compress;
    o.save_sauce = opts & 1 != 0;
    o.lossles_output = opts & 2 == 0;
    match catch(std::panic::AssertUnwindSafe(|| buf.to_bytes("xb", &o))) {
        Ok(Ok(v)) => Ok(v),
        Ok(Err(_)) => Err("err".to_string()),
        Err(loc) => Err(format!("panic:{}", panic_site(&loc))),
    }
}

fn load(bytes: &[u8]) -> Result<Buffer, String> {
    match catch(std::panic::AssertUnwindSafe(|| Buffer::from_bytes(Path::new("a.xb"), false, bytes))) {
        Ok(Ok(b)) => Ok(b),
        Ok(Err(e)) => Err(format!("err:{}", e)),
        Err(loc) => Err(format!("panic:{}", panic_site(&loc))),
    }
}

pub fn eval(case: &Case) -> Outcome {
    let w = case.w;
    let h = case.cells.len() / w;
    let buf = build(case);
    // the buffer the writer really sees
    let seen = if case.opts & 2 != 0 {
        let mut o = SaveOptions::new();
        o.save_sauce = case.opts & 1 != 0;
        match catch(std::panic::AssertUnwindSafe(|| ColorOptimizer::new(&buf, &o).optimize(&buf))) {
            Ok(b) => b,
            Err(_) => build(case),
        }
    } else {
        build(case)
    };
    let mut input = Vec::with_capacity(w * h);
    for y in 0..h {
        for x in 0..w {
            input.push(observe(&seen, x as i32, y as i32));
        }
    }
    let mut failures: Vec<(String, String)> = Vec::new();
    let full_c = save(&buf, true, case.opts);
    let full_u = save(&buf, false, case.opts);
    let sauce = case.opts & 1 != 0;
    let mut img_c = Err("err".to_string());
    let mut img_u = Err("err".to_string());
    let mut dec_c: Option<Decoded> = None;
    let mut loaded: Vec<(u8, bool, String)> = Vec::new();
    match (&full_c, &full_u) {
        (Ok(c), Ok(u)) => {
            // uncompressed file: header + w*h*2 bytes
            match parse_header(u) {
                Ok(hd) if hd.w == w && hd.h == h && hd.flags & 4 == 0 => {
                    let end = hd.image_at + 2 * w * h;
                    if end > u.len() {
                        failures.push(("xb.raw-short".into(), format!("uncompressed image data has {} of {} bytes", u.len() - hd.image_at, 2 * w * h)));
                        img_u = Ok(u[hd.image_at..].to_vec());
                    } else {
                        img_u = Ok(u[hd.image_at..end].to_vec());
                        if let Err(e) = tail_ok(&u[end..], sauce) {
                            failures.push(("xb.raw-trailing".into(), e));
                        }
                    }
                }
                Ok(hd) => failures.push(("xb.header".into(), format!("uncompressed header says {}x{} flags {:02x}", hd.w, hd.h, hd.flags))),
                Err(e) => failures.push(("xb.header".into(), e)),
            }
            match parse_header(c) {
                Ok(hd) if hd.w == w && hd.h == h && hd.flags & 4 != 0 => {
                    let data = &c[hd.image_at..];
                    match spec_decode(data, w, h) {
                        Ok(d) => {
                            img_c = Ok(data[..d.used].to_vec());
                            if let Err(e) = tail_ok(&data[d.used..], sauce) {
                                failures.push(("xb.trailing".into(), e));
                            }
                            dec_c = Some(d);
                        }
                        Err(e) => {
                            // image data not delimitable: hand everything up to a SAUCE tail to the tie
                            let cut = if sauce && data.len() >= 129 { data.len() - 129 } else { data.len() };
                            img_c = Ok(data[..cut].to_vec());
                            failures.push(("xb.spec-invalid".into(), e));
                        }
                    }
                }
                Ok(hd) => failures.push(("xb.header".into(), format!("compressed header says {}x{} flags {:02x}", hd.w, hd.h, hd.flags))),
                Err(e) => failures.push(("xb.header".into(), e)),
            }
            if let (Some(d), Ok(raw)) = (&dec_c, &img_u) {
                if raw.len() == 2 * w * h {
                    for i in 0..w * h {
                        if d.pairs[i] != (raw[2 * i], raw[2 * i + 1]) {
                            failures.push((
                                "xb.spec-cells".into(),
                                format!(
                                    "cell ({},{}) decodes to char {:02x} attr {:02x} from the compressed data, the uncompressed data has char {:02x} attr {:02x}",
                                    i % w, i / w, d.pairs[i].0, d.pairs[i].1, raw[2 * i], raw[2 * i + 1]
                                ),
                            ));
                            break;
                        }
                    }
                }
            }
            // the crate's own loader on both files
            match (load(c), load(u)) {
                (Ok(bc), Ok(bu)) => {
                    for (b, bytes, compressed) in [(&bc, c, true), (&bu, u, false)] {
                        if let Ok(hd) = parse_header(bytes) {
                            loaded.push((hd.flags, compressed, loaded_digest(b, w, h)));
                        }
                    }
                    if bc.get_width() != bu.get_width() || bc.get_height() != bu.get_height() {
                        failures.push(("xb.load-differs".into(), format!("sizes {}x{} vs {}x{}", bc.get_width(), bc.get_height(), bu.get_width(), bu.get_height())));
                    } else {
                        'cmp: for y in 0..bc.get_height() {
                            for x in 0..bc.get_width() {
                                let a = observe(&bc, x, y);
                                let b = observe(&bu, x, y);
                                if a != b {
                                    failures.push((
                                        "xb.load-differs".into(),
                                        format!("cell ({},{}) loads as {} from the compressed file and as {} from the uncompressed file", x, y, cell_str(&a), cell_str(&b)),
                                    ));
                                    break 'cmp;
                                }
                            }
                        }
                        if bc.ice_mode != bu.ice_mode || bc.font_mode != bu.font_mode {
                            failures.push(("xb.load-differs".into(), "ice/font mode differ".into()));
                        }
                    }
                }
                (Err(e), Ok(_)) => failures.push(("xb.load-compressed".into(), format!("compressed file does not load: {}", e))),
                (Ok(_), Err(e)) => failures.push(("xb.load-raw".into(), format!("uncompressed file does not load: {}", e))),
                (Err(a), Err(b)) => failures.push(("xb.load-compressed".into(), format!("neither file loads: {} / {}", a, b))),
            }
        }
        (Err(a), Err(b)) => {
            // both refuse (e.g. character > 255, more than two fonts): transparent; a panic is not a refusal
            img_c = Err(a.clone());
            img_u = Err(b.clone());
            if a.starts_with("panic") || b.starts_with("panic") {
                failures.push(("xb.save-panic".into(), format!("compressed: {} uncompressed: {}", a, b)));
            }
        }
        (a, b) => {
            failures.push((
                "xb.save-differs".into(),
                format!("compressed save {} but uncompressed save {}", if a.is_ok() { "succeeds" } else { "fails" }, if b.is_ok() { "succeeds" } else { "fails" }),
            ));
            if let Err(e) = a {
                img_c = Err(e.clone());
            }
            if let Err(e) = b {
                img_u = Err(e.clone());
            }
        }
    }
    Outcome { input, h, loaded, img_c, img_u, failures }
}

/// what `Buffer::from_bytes` made of the file: FNV over (ch, fg, bg, attr flags, font page) of the w x h cells the
/// image data describes, row-major.  (The loaded buffer may be TALLER than the file says: the loader starts from an
/// 80x25 buffer whose 25 pre-allocated lines survive `crop_loaded_file` — C05's business, not compared here.)
fn loaded_digest(b: &Buffer, w: usize, h: usize) -> String {
    if b.get_width() as usize != w || (b.get_height() as usize) < h {
        return format!("size {}x{}", b.get_width(), b.get_height());
    }
    let mut hsh = 14695981039346656037u64;
    for y in 0..h {
        for x in 0..w {
            let c = observe(b, x as i32, y as i32);
            for v in [c.ch as u64, c.fg as u64, c.bg as u64, c.flags as u64, c.page as u64] {
                hsh = fnv_step(hsh, v);
            }
        }
    }
    format!("cells {}", hsh)
}

fn show(r: &Result<Vec<u8>, String>, hashed: bool) -> String {
    match r {
        Ok(v) if hashed => format!("{} {}", v.len(), fnv(v.iter().map(|b| *b as u64))),
        Ok(v) => hex(v),
        Err(e) if e.starts_with("panic") => e.clone(),
        Err(_) => "err".to_string(),
    }
}

fn one(run: &mut Run, case: &Case, rng: &mut Rng, dec_tie: bool) {
    let out = eval(case);
    let tok_in = token(case.ice, case.w, case.opts, &case.cells);
    let tok_seen = token(case.ice, case.w, 0, &out.input);
    let big = case.cells.len() > 160;
    run.case(&format!("xbcompress {} {}", if big { "comph" } else { "comp" }, tok_seen), &show(&out.img_c, big));
    run.case(&format!("xbcompress {} {}", if big { "rawh" } else { "raw" }, tok_seen), &show(&out.img_u, big));
    run.nontrivial(fnv(tok_in.bytes().map(|b| b as u64)));
    // tie between the two spec decoders (harness / Lean) on what the implementation wrote, and on a corrupted copy
    if dec_tie {
        if let Ok(img) = &out.img_c {
            if img.len() <= 4096 {
                let mut variants = vec![img.clone()];
                let mut m = img.clone();
                match rng.below(4) {
                    0 if !m.is_empty() => {
                        let i = rng.below(m.len() as u64) as usize;
                        m[i] = rng.next() as u8;
                    }
                    1 if !m.is_empty() => {
                        let n = rng.below(m.len() as u64) as usize;
                        m.truncate(n);
                    }
                    2 => m.push(rng.next() as u8),
                    _ => {
                        if !m.is_empty() {
                            let i = rng.below(m.len() as u64) as usize;
                            m[i] ^= 1 << rng.below(8);
                        }
                    }
                }
                variants.push(m);
                for v in variants {
                    let ans = match spec_decode(&v, case.w, out.h) {
                        Ok(d) => format!("ok {} {} {}", d.runs, pairs_hash(&d.pairs), v.len() - d.used),
                        Err(_) => "invalid".to_string(),
                    };
                    run.case(&format!("xbcompress dec {} {} {}", case.w, out.h, hex(&v)), &ans);
                }
            }
        }
        // tie of the loader model: the crate's from_bytes on both files vs readCompressed/readUncompressed + decode_char
        for (flags, compressed, digest) in &out.loaded {
            if let Ok(img) = if *compressed { &out.img_c } else { &out.img_u } {
                if img.len() <= 8192 {
                    run.case(&format!("xbcompress load {} {} {} {}", flags, case.w, out.h, hex(img)), digest);
                }
            }
        }
    }
    // histogram
    let pages: std::collections::BTreeSet<usize> = case.cells.iter().map(|c| c.page).collect();
    run.count(&format!("fonts={}", pages.len()));
    run.count(&format!("ice={}", case.ice));
    run.count(match case.w {
        1..=10 => "w<=10",
        11..=62 => "w11..62",
        63..=65 => "w63..65",
        66..=126 => "w66..126",
        127..=129 => "w127..129",
        _ => "w>=130",
    });
    if case.opts & 1 != 0 {
        run.count("sauce");
    }
    if case.opts & 2 != 0 {
        run.count("via-optimizer");
    }
    if let (Ok(c), Ok(u)) = (&out.img_c, &out.img_u) {
        run.count(if c.len() < u.len() { "compressed<raw" } else { "compressed>=raw" });
        for b in runs_modes(c, case.w, out.h) {
            run.count(b);
        }
    } else {
        run.count("save-refused");
    }
    // oracle
    for (key, what) in &out.failures {
        let (inp, what2) = shrink(case, key, what);
        run.oracle_fail(key, &inp, &what2);
    }
}

/// which run types occur (for the input-distribution histogram)
fn runs_modes(d: &[u8], w: usize, h: usize) -> Vec<&'static str> {
    let mut seen = [false; 5];
    let mut o = 0;
    let mut cells = 0;
    while o < d.len() && cells < w * h {
        let b = d[o];
        let n = (b & 0x3F) as usize + 1;
        seen[(b >> 6) as usize] = true;
        if n == 64 {
            seen[4] = true;
        }
        o += 1 + match b >> 6 {
            0 => 2 * n,
            1 | 2 => 1 + n,
            _ => 2,
        };
        cells += n;
    }
    let names = ["has-run-off", "has-run-char", "has-run-attr", "has-run-full", "has-run-of-64"];
    (0..5).filter(|i| seen[*i]).map(|i| names[i]).collect()
}

/// smallest reproduction: a single row of the case that fails with the same key, else the whole case
fn shrink(case: &Case, key: &str, what: &str) -> (String, String) {
    let h = case.cells.len() / case.w;
    if h > 1 {
        for y in 0..h {
            let row = Case { ice: case.ice, w: case.w, opts: case.opts, cells: case.cells[y * case.w..(y + 1) * case.w].to_vec() };
            let o = eval(&row);
            if let Some((_, w2)) = o.failures.iter().find(|(k, _)| k == key) {
                // drop cells from the right end while the failure stays
                let mut best = row.clone();
                let mut what_best = w2.clone();
                while best.w > 1 {
                    let mut t = best.clone();
                    t.w -= 1;
                    t.cells.truncate(t.w);
                    let o2 = eval(&t);
                    match o2.failures.iter().find(|(k, _)| k == key) {
                        Some((_, w3)) => {
                            what_best = w3.clone();
                            best = t;
                        }
                        None => break,
                    }
                }
                return (token(best.ice, best.w, best.opts, &best.cells), what_best);
            }
        }
    }
    (token(case.ice, case.w, case.opts, &case.cells), what.to_string())
}

// ------------------------------------------------------------------ generators

fn attr_cell(ch: u32, byte: u8, page: usize) -> Cell {
    Cell { ch, fg: (byte & 15) as u32, bg: (byte >> 4) as u32, flags: 0, page }
}

/// the quantifier's small alphabet: 3 characters x 3 attributes x 2 font pages (symbol = ch + 3*attr + 9*page)
fn alphabet18(npages: usize) -> Vec<Cell> {
    let chars = [0x41u32, 0x20, 0xDB];
    let attrs = [0x07u8, 0x17, 0x4E];
    let mut v = Vec::new();
    for p in 0..npages {
        for a in 0..3 {
            for c in 0..3 {
                v.push(attr_cell(chars[c], attrs[a], p));
            }
        }
    }
    v
}

fn alphabet4() -> Vec<Cell> {
    vec![attr_cell(0x41, 0x07, 0), attr_cell(0x42, 0x07, 0), attr_cell(0x41, 0x1F, 0), attr_cell(0x42, 0x1F, 0)]
}

/// all rows of width `w` over `alpha` with indices in [from, to), packed `rows_per_buf` to a buffer
fn enumerate(run: &mut Run, rng: &mut Rng, alpha: &[Cell], w: usize, ice: u8, from: u64, to: u64, rows_per_buf: usize) {
    let n = alpha.len() as u64;
    let mut cells: Vec<Cell> = Vec::new();
    let mut i = from;
    while i < to {
        let mut k = i;
        for _ in 0..w {
            cells.push(alpha[(k % n) as usize]);
            k /= n;
        }
        i += 1;
        if cells.len() == w * rows_per_buf || i == to {
            let case = Case { ice, w, opts: 0, cells: std::mem::take(&mut cells) };
            one(run, &case, rng, false);
        }
    }
}

/// rows in canonical form under renaming of characters and of attributes (first occurrences in increasing order);
/// pages are not renamed.  `alpha` must be the 3x3xP alphabet above.
fn enumerate_canonical(run: &mut Run, rng: &mut Rng, alpha: &[Cell], w: usize, ice: u8, rows_per_buf: usize) -> u64 {
    fn rg(w: usize, k: usize) -> Vec<Vec<usize>> {
        // restricted-growth strings of length w over at most k symbols
        let mut out: Vec<Vec<usize>> = vec![vec![]];
        for _ in 0..w {
            let mut nxt = Vec::new();
            for s in &out {
                let m = s.iter().copied().max().map(|m| m + 1).unwrap_or(0);
                for v in 0..=m.min(k - 1) {
                    let mut t = s.clone();
                    t.push(v);
                    nxt.push(t);
                }
            }
            out = nxt;
        }
        out
    }
    let npages = alpha.len() / 9;
    let strings = rg(w, 3);
    let mut cells: Vec<Cell> = Vec::new();
    let mut total = 0u64;
    let page_words: u64 = (npages as u64).pow(w as u32);
    let count = strings.len() * strings.len();
    for (si, cs) in strings.iter().enumerate() {
        for (ai, at) in strings.iter().enumerate() {
            for pw in 0..page_words {
                let mut p = pw;
                for x in 0..w {
                    cells.push(alpha[cs[x] + 3 * at[x] + 9 * (p % npages as u64) as usize]);
                    p /= npages as u64;
                }
                total += 1;
                let last = si * strings.len() + ai + 1 == count && pw + 1 == page_words;
                if cells.len() == w * rows_per_buf || last {
                    let case = Case { ice, w, opts: 0, cells: std::mem::take(&mut cells) };
                    one(run, &case, rng, false);
                }
            }
        }
    }
    total
}

fn random_small_alphabet(rng: &mut Rng) -> Vec<Cell> {
    let nch = rng.range(1, 4) as usize;
    let nat = rng.range(1, 4) as usize;
    let npg = if rng.chance(1, 2) { 2 } else { 1 };
    let pages: Vec<usize> = if npg == 2 {
        match rng.below(4) {
            0 => vec![0, 1],
            1 => vec![0, 5],
            2 => vec![2, 3],
            _ => vec![1, 0],
        }
    } else if rng.chance(1, 6) {
        vec![3]
    } else {
        vec![0]
    };
    let chars: Vec<u32> = (0..nch).map(|_| *rng.pick(&[0x20u32, 0x41, 0x42, 0xDB, 0xB0, 0x00, 0xFF, 0x1A])).collect();
    // attributes that differ structurally but may share the encoded byte (bold vs fg>=8, blink vs bg>=8, extra flags, colours > 15)
    let mut attrs: Vec<(u32, u32, u16)> = Vec::new();
    for _ in 0..nat {
        let kind = rng.below(10);
        let fg = rng.below(16) as u32;
        let bg = rng.below(16) as u32;
        attrs.push(match kind {
            0 => (fg & 7, bg, 1),          // bold flag instead of fg bit 3
            1 => (fg, bg & 7, 8),          // blink flag
            2 => (fg, bg, 0x10),           // underline: invisible to XBin
            3 => (fg + 16, bg + 16, 0),    // colours beyond the 16-colour range
            4 => (fg | 8, bg, 0),
            _ => (fg, bg, 0),
        });
    }
    let mut v = Vec::new();
    for p in &pages {
        for a in &attrs {
            for c in &chars {
                v.push(Cell { ch: *c, fg: a.0, bg: a.1, flags: a.2, page: *p });
            }
        }
    }
    v
}

fn pick_width(rng: &mut Rng) -> usize {
    match rng.below(10) {
        0..=2 => *rng.pick(&[63usize, 64, 65, 127, 128, 129, 191, 192, 193, 200]),
        3 => rng.range(1, 10) as usize,
        4 => rng.range(60, 70) as usize,
        _ => rng.range(1, 200) as usize,
    }
}

/// seeded random buffer: `style` 0 = small alphabet with long runs, 1 = small alphabet uniform, 2 = full byte range
fn random_case(rng: &mut Rng, style: u64, max_cells: usize) -> Case {
    let w = pick_width(rng);
    let mut h = rng.range(1, 30) as usize;
    while w * h > max_cells && h > 1 {
        h -= 1;
    }
    let ice = rng.below(3) as u8;
    let opts = (if rng.chance(1, 4) { 1 } else { 0 }) | (if rng.chance(1, 6) { 2 } else { 0 });
    let mut cells = Vec::with_capacity(w * h);
    if style == 2 {
        let two = rng.chance(1, 3);
        for _ in 0..w * h {
            let v = rng.next();
            cells.push(Cell {
                ch: (v & 0xFF) as u32,
                fg: ((v >> 8) & 15) as u32,
                bg: ((v >> 12) & 15) as u32,
                flags: (if (v >> 16) & 7 == 0 { 1 } else { 0 }) | (if (v >> 19) & 7 == 0 { 8 } else { 0 }),
                page: if two { ((v >> 24) & 1) as usize } else { 0 },
            });
        }
    } else {
        let alpha = random_small_alphabet(rng);
        let keep = if style == 0 { rng.range(50, 98) as u64 } else { 0 };
        let mut prev = *rng.pick(&alpha);
        for i in 0..w * h {
            let c = if i > 0 && rng.below(100) < keep {
                // continue a run: same cell, same char, or same attribute
                match rng.below(6) {
                    0 => {
                        let o = *rng.pick(&alpha);
                        Cell { ch: prev.ch, ..o }
                    }
                    1 => {
                        let o = *rng.pick(&alpha);
                        Cell { ch: o.ch, ..prev }
                    }
                    _ => prev,
                }
            } else {
                *rng.pick(&alpha)
            };
            cells.push(c);
            prev = c;
        }
    }
    Case { ice, w, opts, cells }
}

pub fn run(run: &mut Run, seed: u64, thorough: bool, replay: Option<&str>, corpus: &[String]) {
    let mut rng = Rng::new(seed);
    if let Some(r) = replay {
        match parse_token(r) {
            Some(c) => one(run, &c, &mut rng, true),
            None => eprintln!("c06: cannot parse replay input"),
        }
        return;
    }
    for c in corpus {
        if let Some(c) = parse_token(c) {
            one(run, &c, &mut rng, true);
        }
    }
    // fixed witnesses and boundary shapes
    let a = attr_cell(0x41, 0x07, 0);
    let a1 = attr_cell(0x41, 0x07, 1);
    let b = attr_cell(0x42, 0x07, 0);
    let c = attr_cell(0x41, 0x1F, 0);
    for ice in 0..3u8 {
        for cells in [vec![a, a1], vec![a, a, a1, a1], vec![a, a1, a], vec![b, a, a1, c], vec![a1, a1, a, a, a, a1]] {
            let w = cells.len();
            one(run, &Case { ice, w, opts: 0, cells }, &mut rng, true);
        }
        for &w in &[1usize, 2, 63, 64, 65, 66, 127, 128, 129, 130, 200] {
            for proto in [vec![a], vec![a, b], vec![a, c], vec![a, a1], vec![a, a, a, b, c]] {
                let cells: Vec<Cell> = (0..w).map(|i| proto[i % proto.len()]).collect();
                one(run, &Case { ice, w, opts: 0, cells }, &mut rng, ice == 1);
            }
        }
    }
    // neighbours that differ in exactly ONE field (character, fg, bg, bold flag, blink flag, both flags, font page, a flag XBin
    // cannot store), in every run shape of up to four cells and in longer alternations: a comparison that ignores one field
    // merges exactly these
    {
        let bases = [Cell { ch: 0x41, fg: 3, bg: 1, flags: 0, page: 0 }, Cell { ch: 0xDB, fg: 7, bg: 0, flags: 0, page: 0 }, Cell { ch: 0x20, fg: 14, bg: 5, flags: 8, page: 0 }];
        let pats: [&[usize]; 8] = [&[0, 1], &[0, 0, 1, 1], &[0, 1, 0, 1], &[0, 0, 0, 1], &[1, 0, 0, 0], &[0, 1, 1, 0], &[0, 0, 1, 1, 0, 0, 1, 1, 1, 0], &[1, 1, 1, 1, 1, 0, 0, 0, 0, 0, 1]];
        for base in bases {
            let variants = [
                Cell { ch: base.ch ^ 3, ..base },
                Cell { fg: base.fg ^ 1, ..base },
                Cell { fg: base.fg ^ 8, ..base },
                Cell { bg: base.bg ^ 2, ..base },
                Cell { bg: base.bg ^ 8, ..base },
                Cell { flags: base.flags ^ 1, ..base },
                Cell { flags: base.flags ^ 8, ..base },
                Cell { flags: base.flags ^ 9, ..base },
                Cell { page: 1, ..base },
                Cell { flags: base.flags ^ 0x10, ..base },
            ];
            for ice in 0..3u8 {
                for v in variants {
                    for pat in pats {
                        let cells: Vec<Cell> = pat.iter().map(|i| if *i == 0 { base } else { v }).collect();
                        let w = cells.len();
                        one(run, &Case { ice, w, opts: 0, cells: cells.clone() }, &mut rng, false);
                        if w == 4 {
                            // the same four cells as two rows of two: the pair meets across a row boundary
                            one(run, &Case { ice, w: 2, opts: 0, cells }, &mut rng, false);
                        }
                    }
                }
            }
        }
    }
    // refused saves: a character above 255, three font pages
    one(run, &Case { ice: 1, w: 3, opts: 0, cells: vec![a, Cell { ch: 0x263A, ..a }, b] }, &mut rng, false);
    one(run, &Case { ice: 1, w: 3, opts: 0, cells: vec![a, a1, Cell { page: 2, ..a }] }, &mut rng, false);

    // exhaustive small scopes
    let a18 = alphabet18(2);
    let a9 = alphabet18(1);
    let a4 = alphabet4();
    let mut exhaustive = String::new();
    if thorough {
        let per = 1024;
        for w in 1..=5usize {
            enumerate(run, &mut rng, &a18, w, 1, 0, 18u64.pow(w as u32), per);
        }
        let c6 = enumerate_canonical(run, &mut rng, &a18, 6, 1, per);
        let c7 = enumerate_canonical(run, &mut rng, &a18, 7, 1, per);
        for w in 1..=6usize {
            enumerate(run, &mut rng, &a9, w, 2, 0, 9u64.pow(w as u32), per);
        }
        for w in 1..=10usize {
            enumerate(run, &mut rng, &a4, w, 1, 0, 4u64.pow(w as u32), per);
        }
        exhaustive = format!(
            "all rows of width 1..=5 over 3 chars x 3 attrs x 2 pages; width 6 and 7 over the same alphabet up to renaming of characters and of attributes ({} + {} rows); all rows of width 1..=6 over 3x3 (one page); all rows of width 1..=10 over 2x2",
            c6, c7
        );
    } else {
        for w in 1..=3usize {
            enumerate(run, &mut rng, &a18, w, 1, 0, 18u64.pow(w as u32), 512);
        }
        for w in 4..=7usize {
            // seeded windows of the enumeration
            let total = 18u64.pow(w as u32);
            for _ in 0..6 {
                let from = rng.below(total - 256);
                let ice = 1 + (rng.below(2) as u8);
                enumerate(run, &mut rng, &a18, w, ice, from, from + 256, 256);
            }
        }
        for w in 1..=6usize {
            enumerate(run, &mut rng, &a4, w, 1, 0, 4u64.pow(w as u32), 512);
        }
        for w in 7..=10usize {
            let total = 4u64.pow(w as u32);
            for _ in 0..4 {
                let from = rng.below(total - 256);
                enumerate(run, &mut rng, &a4, w, 1, from, from + 256, 256);
            }
        }
        exhaustive.push_str("quick tier: all rows of width 1..=3 over 3x3x2 and width 1..=6 over 2x2, seeded windows of the wider enumerations");
    }
    // seeded random buffers
    let n = if thorough { 6000 } else { 400 };
    for i in 0..n {
        let style = match i % 5 {
            0 | 1 => 0,
            2 | 3 => 1,
            _ => 2,
        };
        let case = random_case(&mut rng, style, if thorough { 6000 } else { 3000 });
        one(run, &case, &mut rng, i % 2 == 0);
    }
    run.extra.push(("exhaustive_scope".into(), exhaustive));
    run.extra.push(("oracle".into(), "harness spec decoder (from doc/FileFormats/x_bin.htm) on the implementation's compressed bytes; decoded pairs vs uncompressed file; from_bytes(compressed) vs from_bytes(uncompressed) cell by cell incl. font page".into()));
}
