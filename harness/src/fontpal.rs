//! Shared by C02 and C03: observation of the bitmap-font loaders and palette importers on arbitrary bytes, and the
//! generators of their cases (PSF1 / PSF2 header fields at extremes, raw fonts of every length around a multiple of
//! 256, palette files with huge / negative / non-numeric numbers in every numeric position, overlong lines, missing
//! headers, truncations of the engine's own export).
//!
//! Case syntax (no blanks): `@font:<hexr>`, `@fontdcs.<slot>:<hexr>` (the same bytes as a `CTerm:Font:` DCS through
//! the ANSI parser), `@palf.<fmt>:<hexr>` (`load_palette`), `@pal.<ext>:<hexr>` (`import_palette` of `p.<ext>`;
//! `@pal.-` = a file name without extension).
use crate::icybox::*;
use crate::pngwrap::b64;
use crate::term::{Emu, Outcome, Term};
use crate::util::*;
use icy_engine::{BitFont, Palette, PaletteFormat};
use std::path::PathBuf;

pub struct Obs {
    /// model request (`fontload …`)
    pub op: String,
    /// what the implementation answered: `ok …` | `err` | `panic:<site>`
    pub obs: String,
    /// panic location, if any
    pub panic: Option<(String, String)>,
    pub class: &'static str,
}

pub fn site_of(loc: &str) -> String {
    if loc.starts_with("/rustc/") {
        let f = loc.rsplit("library/").next().unwrap_or(loc);
        return format!("std:{}", f.rsplit_once(':').map(|x| x.0).unwrap_or(f));
    }
    panic_site(loc)
}

fn font_dims(f: &BitFont) -> String {
    format!("{} {} {} {}", f.size.width, f.size.height, f.length, f.glyphs.len())
}

pub fn is_fontpal_tag(tag: &str) -> bool {
    tag == "@font" || tag.starts_with("@fontdcs.") || tag.starts_with("@pal.") || tag.starts_with("@palf.")
}

fn fmt_of(name: &str) -> Option<PaletteFormat> {
    Some(match name {
        "ice" => PaletteFormat::Ice,
        "hex" => PaletteFormat::Hex,
        "pal" => PaletteFormat::Pal,
        "gpl" => PaletteFormat::Gpl,
        "txt" => PaletteFormat::Txt,
        _ => return None,
    })
}

fn pal_obs(p: &Palette) -> String {
    let mut v: Vec<u64> = Vec::new();
    for c in p.color_iter() {
        let (r, g, b) = c.get_rgb();
        v.extend([r as u64, g as u64, b as u64]);
    }
    format!("ok {} {}", p.len(), fnv(v))
}

/// run one font / palette case on the real crate
pub fn observe(tag: &str, bytes: &[u8]) -> Option<Obs> {
    let mut class = "ok";
    let mut panic = None;
    let fin = |r: Result<Result<String, ()>, String>, class: &mut &'static str, panic: &mut Option<(String, String)>| -> String {
        match r {
            Ok(Ok(s)) => s,
            Ok(Err(())) => {
                *class = "err";
                "err".to_string()
            }
            Err(loc) => {
                *class = "panic";
                let site = site_of(&loc);
                *panic = Some((site.clone(), loc));
                format!("panic:{}", site)
            }
        }
    };
    let (op, obs) = if tag == "@font" {
        let r = catch(std::panic::AssertUnwindSafe(|| BitFont::from_bytes("x", bytes).map(|f| format!("ok {}", font_dims(&f))).map_err(|_| ())));
        (format!("fontload font {}", hexr(bytes)), fin(r, &mut class, &mut panic))
    } else if let Some(slot) = tag.strip_prefix("@fontdcs.") {
        let slot_n: usize = slot.parse().ok()?;
        let seq = format!("\x1bPCTerm:Font:{}:{}\x1b\\", slot, b64(bytes));
        let mut t = Term::new(Emu::Ansi(0), 80, 25);
        let mut any_err = false;
        let mut pan: Option<String> = None;
        for ch in seq.chars() {
            match t.feed(ch) {
                Outcome::Panic(_site, loc) => {
                    pan = Some(loc);
                    break;
                }
                Outcome::Err => any_err = true,
                _ => {}
            }
        }
        let r: Result<Result<String, ()>, String> = match pan {
            Some(loc) => Err(loc),
            None if any_err => Ok(Err(())),
            None => match t.buf.get_font(slot_n) {
                Some(f) => Ok(Ok(format!("ok {} {}", slot, font_dims(f)))),
                None => Ok(Ok("ok-but-no-font".to_string())),
            },
        };
        (format!("fontload dcs {} {}", slot, hexr(bytes)), fin(r, &mut class, &mut panic))
    } else if let Some(fmt) = tag.strip_prefix("@palf.") {
        let f = fmt_of(fmt)?;
        let r = catch(std::panic::AssertUnwindSafe(|| Palette::load_palette(&f, bytes).map(|p| pal_obs(&p)).map_err(|_| ())));
        (format!("fontload pal {} {}", fmt, hexr(bytes)), fin(r, &mut class, &mut panic))
    } else if let Some(ext) = tag.strip_prefix("@pal.") {
        let name = if ext == "-" { PathBuf::from("p") } else { PathBuf::from(format!("p.{}", ext)) };
        let r = catch(std::panic::AssertUnwindSafe(|| Palette::import_palette(&name, bytes).map(|p| pal_obs(&p)).map_err(|_| ())));
        (format!("fontload imp {} {}", ext, hexr(bytes)), fin(r, &mut class, &mut panic))
    } else {
        return None;
    };
    Some(Obs { op, obs, panic, class })
}

// ------------------------------------------------------------------------------------------------ generators

fn case(tag: &str, bytes: &[u8]) -> String {
    format!("{}:{}", tag, hexr(bytes))
}

pub const U32_EXTREMES: [u32; 14] = [0, 1, 7, 8, 31, 32, 33, 0x7F, 0x80, 0xFF, 0xFFFF, 0x7FFF_FFFF, 0x8000_0000, 0xFFFF_FFFF];

pub fn psf1(mode: u8, charsize: u8, data_len: usize, fill: u8) -> Vec<u8> {
    let mut f = vec![0x36, 0x04, mode, charsize];
    f.extend(std::iter::repeat(fill).take(data_len));
    f
}

/// magic, version, headersize, flags, length, charsize, height, width + data
pub fn psf2(fields: [u32; 8], data_len: usize, fill: u8) -> Vec<u8> {
    let mut f = Vec::with_capacity(32 + data_len);
    for v in fields {
        f.extend(v.to_le_bytes());
    }
    f.extend(std::iter::repeat(fill).take(data_len));
    f
}

pub const PSF2_MAGIC: u32 = 0x864a_b572;

fn psf1_lengths(cs: usize, wide: bool) -> Vec<usize> {
    let mut v = vec![0, 1, cs.saturating_sub(1), cs, 256 * cs];
    if wide {
        v.extend([(512 * cs).saturating_sub(1), 512 * cs, 512 * cs + 1]);
    }
    v.sort();
    v.dedup();
    v
}


/// PSF2 headers that SOLVE the size equation of `load_psf2`: `i64(length as i32) * i64(charsize as i32) + headersize == file length`
/// for extreme `length` / `charsize` (sign bit set, `i32::MAX`, powers of two) by choosing `headersize`, with `height` / `width`
/// chosen so that `charsize == height * ((width + 7) / 8)` holds as well.  Each solved header then violates AT MOST ONE of the
/// four guards (`length < 0`, `charsize <= 0`, the size equation by +-1, the glyph shape), so every guard is the only thing
/// standing between the header and `&data[headersize..]` / the glyph loop at least once.
pub fn psf2_solved_cases(thorough: bool) -> Vec<String> {
    let mut cs = Vec::new();
    let lens: [u32; 13] = [0, 1, 2, 255, 256, 512, 0x7FFF_FFFF, 0x8000_0000, 0x8000_0001, 0xC000_0000, 0xFFFF_FF00, 0xFFFF_FFFE, 0xFFFF_FFFF];
    let sizes: [u32; 15] = [1, 2, 8, 16, 32, 255, 256, 0xFFFF, 0x1_0000, 0x4000_0000, 0x7FFF_FFFF, 0, 0x8000_0000, 0xFFFF_FFF0, 0xFFFF_FFFF];
    let files: [usize; 5] = [32, 33, 48, 64, 32 + 4096];
    for &n in &files {
        for &l in &lens {
            for &c in &sizes {
                if n > 64 && !(thorough || (matches!(l, 256 | 0x8000_0000 | 0xFFFF_FFFF) && matches!(c, 1 | 16 | 0xFFFF_FFFF))) {
                    continue;
                }
                let hs0 = n as i64 - i64::from(l as i32) * i64::from(c as i32);
                // glyph shapes with height * ((width + 7) / 8) == charsize (u64 arithmetic), and one that is off
                let mut shapes: Vec<(u32, u32, bool)> = vec![(c, 8, true), (c, 1, true), (c, 9, c == 0)];
                if let Some(w) = (c as u64 * 8).checked_sub(7).filter(|w| *w <= u32::MAX as u64) {
                    shapes.push((1, w as u32, true));
                }
                if c % 2 == 0 && c > 0 {
                    shapes.push((c / 2, 16, true));
                }
                for (h, w, fits) in shapes {
                    for dh in [0i64, -1, 1] {
                        if dh != 0 && !(fits && w == 8) {
                            continue; // the equation is violated alone only on a header whose shape is right
                        }
                        let hs = hs0 + dh;
                        if (0..=u32::MAX as i64).contains(&hs) {
                            cs.push(case("@font", &psf2([PSF2_MAGIC, 0, hs as u32, 0, l, c, h, w], n - 32, 0x5A)));
                        }
                    }
                }
            }
        }
    }
    cs
}

/// font cases; `dcs`: also the DCS route for a subset
pub fn font_cases(rng: &mut Rng, thorough: bool) -> Vec<String> {
    let mut cs: Vec<String> = Vec::new();
    let k = if thorough { 10 } else { 1 };
    // --- PSF1: charsize byte exhaustively x mode bit x data lengths around the glyph / table boundaries
    let edge = [0usize, 1, 2, 15, 16, 17, 31, 32, 33, 127, 128, 254, 255];
    for charsize in 0..=255usize {
        let modes: &[u8] = if thorough { &[0, 1, 2, 3, 4, 5, 0x7F, 0x80, 0xFF] } else { &[0, 1] };
        for &mode in modes {
            let wide = thorough || edge.contains(&charsize) || charsize % 8 == (mode as usize & 1) * 4;
            for l in psf1_lengths(charsize, wide) {
                cs.push(case("@font", &psf1(mode, charsize as u8, l, 0xA5)));
            }
        }
    }
    // --- PSF1: mode byte exhaustively x a few heights; the glyph table is as long as the mode announces or one short
    for mode in 0..=255u8 {
        for charsize in [0u8, 1, 16, 255] {
            let n = if mode & 1 == 1 { 512 } else { 256 } * charsize as usize;
            cs.push(case("@font", &psf1(mode, charsize, n, mode)));
            if thorough && n > 0 {
                cs.push(case("@font", &psf1(mode, charsize, n - 1, mode)));
            }
        }
    }
    // a glyph height of 0 with data behind the header (the data can never be consumed)
    for mode in [0u8, 1, 2, 0xFF] {
        for l in [1usize, 2, 255, 4096] {
            cs.push(case("@font", &psf1(mode, 0, l, 0x11)));
        }
    }
    // --- PSF2: a consistent base, then every header field at every extreme, pairs of fields, truncations
    let bases: [([u32; 8], usize); 5] = [
        ([PSF2_MAGIC, 0, 32, 0, 4, 2, 2, 8], 8),
        ([PSF2_MAGIC, 0, 32, 0, 256, 16, 16, 8], 4096),
        ([PSF2_MAGIC, 0, 40, 1, 3, 6, 3, 12], 8 + 18),
        ([PSF2_MAGIC, 0, 32, 0, 0, 1, 1, 1], 0),
        ([PSF2_MAGIC, 0, 32, 0, 1, 0x2000_0000, 1, 0xFFFF_FFFF], 0),
    ];
    for (fields, n) in bases.iter() {
        let base = psf2(*fields, *n, 0x3C);
        cs.push(case("@font", &base));
        for fi in 0..8 {
            for v in U32_EXTREMES {
                let mut f = *fields;
                f[fi] = v;
                cs.push(case("@font", &psf2(f, *n, 0x3C)));
                // ... and the data length made consistent with the edited field where that is small
                if fi >= 2 {
                    let want = (f[4] as u64).saturating_mul(f[5] as u64).saturating_add(f[2] as u64);
                    if want >= 32 && want <= 70_000 {
                        cs.push(case("@font", &psf2(f, want as usize - 32, 0x3C)));
                    }
                }
            }
        }
        if *n <= 64 {
            for l in 0..=base.len() {
                cs.push(case("@font", &base[..l]));
            }
            let mut longer = base.clone();
            longer.push(0);
            cs.push(case("@font", &longer));
        }
    }
    {
        let small: [u32; 7] = [0, 1, 8, 32, 0x7FFF_FFFF, 0x8000_0000, 0xFFFF_FFFF];
        let fields = bases[0].0;
        for a in 1..8 {
            for b in (a + 1)..8 {
                for &va in &small {
                    for &vb in &small {
                        if !thorough && !rng.chance(1, 4) {
                            continue;
                        }
                        let mut f = fields;
                        f[a] = va;
                        f[b] = vb;
                        cs.push(case("@font", &psf2(f, 8, 0x3C)));
                    }
                }
            }
        }
        // consistent headers: length x charsize (+ headersize) equals the file, height x row bytes equals charsize
        for (len, h, w, hs) in [(0u32, 1u32, 1u32, 32u32), (1, 1, 8, 32), (512, 1, 1, 32), (3, 255, 8, 32), (2, 3, 17, 32), (1, 1, 8, 100), (0, 3, 0xFFFF_FFF9, 32), (5000, 1, 8, 32), (70000, 1, 3, 33)] {
            let rowb = ((w as u64 + 7) / 8) as u32;
            let charsize = h.wrapping_mul(rowb);
            let n = (len as usize) * (charsize as usize) + (hs as usize - 32);
            if n <= 200_000 {
                cs.push(case("@font", &psf2([PSF2_MAGIC, 0, hs, 0, len, charsize, h, w], n, 0x55)));
            }
        }
    }
    // --- PSF2 headers whose fields JOINTLY satisfy the size equation at the extremes (solver)
    let solved = psf2_solved_cases(thorough);
    cs.extend(solved.iter().cloned());
    // --- raw fonts: every length k*256 and k*256 +- 1, k = 0..=33; with and without a sniffed magic in front
    for kk in 0..=33usize {
        for l in [(kk * 256).saturating_sub(1), kk * 256, kk * 256 + 1] {
            let b = vec![0x11u8; l];
            cs.push(case("@font", &b));
            if l >= 4 && (kk % 8 == 1 || thorough) {
                let mut m1 = b.clone();
                m1[0..4].copy_from_slice(&[0x36, 0x04, (kk & 1) as u8, kk as u8]);
                cs.push(case("@font", &m1));
                let mut m2 = b.clone();
                m2[0..4].copy_from_slice(&PSF2_MAGIC.to_le_bytes());
                cs.push(case("@font", &m2));
            }
        }
    }
    for l in [0usize, 1, 2, 3, 4, 5, 65536, 65537] {
        cs.push(case("@font", &vec![0u8; l]));
    }
    // --- random bytes, with and without magic
    for _ in 0..(60 * k) {
        let n = *rng.pick(&[0usize, 1, 2, 3, 4, 5, 31, 32, 33, 40, 255, 256, 257, 4096, 4097]);
        let mut b = rng.bytes(n);
        match rng.below(4) {
            0 if n >= 4 => b[0..2].copy_from_slice(&[0x36, 0x04]),
            1 if n >= 4 => b[0..4].copy_from_slice(&PSF2_MAGIC.to_le_bytes()),
            2 if n >= 32 => {
                b[0..4].copy_from_slice(&PSF2_MAGIC.to_le_bytes());
                b[4..8].copy_from_slice(&[0, 0, 0, 0]);
                for fi in 2..8 {
                    let v = if rng.chance(1, 2) { *rng.pick(&U32_EXTREMES) } else { rng.below(64) as u32 };
                    b[4 * fi..4 * fi + 4].copy_from_slice(&v.to_le_bytes());
                }
            }
            _ => {}
        }
        cs.push(case("@font", &b));
    }
    // --- the same loader behind the DCS `CTerm:Font:` of the ANSI parser
    for slot in [0usize, 1, 42, 43, 300, 99999] {
        for (mode, charsize, l) in [(0u8, 0u8, 0usize), (0, 0, 1), (1, 0, 300), (0, 1, 256), (1, 1, 511), (0, 16, 4096), (1, 255, 255), (0xFF, 8, 9)] {
            if slot <= 1 || rng.chance(1, 3) || thorough {
                cs.push(case(&format!("@fontdcs.{}", slot), &psf1(mode, charsize, l, 0x42)));
            }
        }
        cs.push(case(&format!("@fontdcs.{}", slot), &psf2(bases[0].0, 8, 1)));
        cs.push(case(&format!("@fontdcs.{}", slot), &psf2(bases[0].0, 7, 1)));
        cs.push(case(&format!("@fontdcs.{}", slot), &psf2([PSF2_MAGIC, 0, 32, 0, 0x7FFF_FFFF, 16, 16, 8], 0, 1)));
        // solved size equations with a negative length (see `psf2_solved_cases`)
        cs.push(case(&format!("@fontdcs.{}", slot), &psf2([PSF2_MAGIC, 0, 48, 0, 0xFFFF_FFFF, 16, 16, 8], 0, 1)));
        cs.push(case(&format!("@fontdcs.{}", slot), &psf2([PSF2_MAGIC, 0, 0x8000_0028, 0, 0x8000_0000, 1, 1, 8], 8, 1)));
        cs.push(case(&format!("@fontdcs.{}", slot), &vec![0x22u8; 2048]));
        cs.push(case(&format!("@fontdcs.{}", slot), &vec![0x22u8; 2047]));
        cs.push(case(&format!("@fontdcs.{}", slot), &[]));
    }
    cs
}

/// what may stand where a file format expects a number
pub const NUMBERS: [&str; 24] = [
    "0", "1", "16", "255", "256", "65535", "65536", "2147483647", "2147483648", "4294967295", "4294967296", "9223372036854775807",
    "18446744073709551615", "18446744073709551616", "99999999999999999999999999999999", "-1", "+1", "", "abc", "1e9", "0x10",
    "\u{0661}\u{0662}\u{0663}", "1\u{0662}", "007",
];

pub fn pal_exports() -> Vec<(&'static str, Vec<u8>)> {
    let pal = Palette::dos_default();
    let mut v = Vec::new();
    for (fmt, name) in [(PaletteFormat::Ice, "ice"), (PaletteFormat::Hex, "hex"), (PaletteFormat::Pal, "pal"), (PaletteFormat::Gpl, "gpl"), (PaletteFormat::Txt, "txt")] {
        v.push((name, pal.export_palette(&fmt)));
    }
    v
}

fn both(cs: &mut Vec<String>, fmt: &str, text: &[u8]) {
    cs.push(case(&format!("@palf.{}", fmt), text));
    if fmt != "ice" {
        cs.push(case(&format!("@pal.{}", fmt), text));
    }
}

pub fn palette_cases(rng: &mut Rng, thorough: bool) -> Vec<String> {
    let mut cs: Vec<String> = Vec::new();
    let k = if thorough { 10 } else { 1 };
    // --- the engine's own export: as written, under every extension, EVERY truncation, corruptions
    for (name, file) in pal_exports() {
        cs.push(case(&format!("@palf.{}", name), &file));
        for ext in ["pal", "gpl", "txt", "hex", "ice", "zzz", "PAL", "Gpl", "-", "ase"] {
            cs.push(case(&format!("@pal.{}", ext), &file));
        }
        for other in ["ice", "hex", "pal", "gpl", "txt"] {
            cs.push(case(&format!("@palf.{}", other), &file));
        }
        for l in 0..file.len() {
            if file.len() <= 700 || thorough || l < 64 || rng.chance(1, 6) {
                both(&mut cs, name, &file[..l]);
            }
        }
        for i in 0..(16 * k) {
            let mut c = file.clone();
            for _ in 0..(1 + i % 5) {
                if c.is_empty() {
                    break;
                }
                let p = rng.below(c.len() as u64) as usize;
                match rng.below(5) {
                    0 => c[p] = rng.next() as u8,
                    1 => c[p] = *rng.pick(&[0u8, 0x0A, 0x0D, 0x20, 0x23, 0x3B, 0x80, 0xC3, 0xFF]),
                    2 => {
                        c.remove(p);
                    }
                    3 => c.insert(p, *rng.pick(&[b'9', b'\n', b' ', b'f', 0xE2])),
                    _ => c[p] ^= 1 << rng.below(8),
                }
            }
            both(&mut cs, name, &c);
        }
    }
    // --- every numeric position of every format x what may stand there
    let jasc = ["JASC-PAL\n", "\n", "\n", " ", " ", "\n"]; // version, count, r, g, b
    let jasc_dflt = ["0100", "1", "10", "20", "30"];
    let gpl = ["GIMP Palette\n#Palette Name: x\n#Description: y\n#Colors: ", "\n", " ", " ", " Untitled\n"]; // count, r, g, b
    let gpl_dflt = ["1", "10", "20", "30"];
    for (fmt, segs, dflt) in [("pal", &jasc[..], &jasc_dflt[..]), ("gpl", &gpl[..], &gpl_dflt[..])] {
        for pos in 0..dflt.len() {
            for n in NUMBERS {
                let mut t = String::new();
                for (i, s) in segs.iter().enumerate() {
                    t.push_str(s);
                    if i < dflt.len() {
                        t.push_str(if i == pos { n } else { dflt[i] });
                    }
                }
                both(&mut cs, fmt, t.as_bytes());
                // ... followed by more colour lines than announced
                if rng.chance(1, 4) || thorough {
                    let more = format!("{}1 2 3\n4 5 6\n", t);
                    both(&mut cs, fmt, more.as_bytes());
                }
            }
        }
        // all three channels at once
        for n in NUMBERS {
            let mut t = String::new();
            for (i, s) in segs.iter().enumerate() {
                t.push_str(s);
                if i < dflt.len() {
                    t.push_str(if i >= dflt.len() - 3 { n } else { dflt[i] });
                }
            }
            both(&mut cs, fmt, t.as_bytes());
        }
    }
    // GIMP files as GIMP writes them (Name: / Columns: lines that are not comments)
    for n in NUMBERS {
        both(&mut cs, "gpl", format!("GIMP Palette\nName: test\nColumns: {}\n#\n  0   0   0\tBlack\n{} 2 3 x\n", n, n).as_bytes());
    }
    // hex-digit formats: count lines and colour fields of every width
    let hexes = ["", "f", "ff", "fff", "ffff", "fffff", "ffffff", "fffffff", "ffffffff", "fffffffff", "FFFFFFFFFFFFFFFFFFFFFFFFF", "gggggg", "12345g", "0x123456", "#123456", "-123456", "ｆｆｆｆｆｆ", "١٢٣٤٥٦"];
    for n in NUMBERS {
        both(&mut cs, "ice", format!("ICE Palette\n#Palette Name: n\n#Author: a\n#Description: d\n#Colors: {}\n#Name: c\n{}\n000000\n", n, n).as_bytes());
        both(&mut cs, "txt", format!(";paint.net Palette File\n;Palette Name: n\n;Description: d\n;Colors: {}\n{}\nFF000000\n", n, n).as_bytes());
        both(&mut cs, "hex", format!("{}\n000000\n", n).as_bytes());
    }
    for h in hexes {
        both(&mut cs, "ice", format!("ICE Palette\n{}\n#Name: x\n{} {}\n", h, h, h).as_bytes());
        both(&mut cs, "txt", format!("{}\n;x\n{}{}\n", h, h, h).as_bytes());
        both(&mut cs, "hex", format!("{}\n{} {}", h, h, h).as_bytes());
    }
    // --- missing / damaged headers
    for fmt in ["ice", "hex", "pal", "gpl", "txt"] {
        for t in [
            "", "\n", "\r\n", "\n\n\n", "1 2 3\n", "ffffff\n", "ffffffff\n", "JASC-PAL", "JASC-PAL\n", "JASC-PAL\r\n0100\r\n1\r\n1 2 3\r\n", "JASC-PAL \n0100\n1\n1 2 3\n",
            "jasc-pal\n0100\n1\n1 2 3\n", "\u{feff}JASC-PAL\n0100\n1\n1 2 3\n", "JASC-PAL\n1 2 3\n4 5 6\n7 8 9\n", "JASC-PAL\n\n\n\n\n1 2 3", "0100\n1\n1 2 3\nJASC-PAL\n",
            "GIMP Palette", "GIMP Palette\n", "GIMP Palette\r\n1 2 3 x\r\n", "GIMP Palette \n1 2 3\n", "\u{feff}GIMP Palette\n1 2 3\n", "GIMP Palette\n#\n#1 2 3\n 1 2 3\n1 2\n1 2 3 4 5 6\n",
            "ICE Palette", "ICE Palette\n", "ICE Palette\r\n112233\r\n", "ICE palette\n112233\n", "ICE Palette\n#Name:\n#Name: \n112233\n#112233\n", "ICE Palette\rffffff\r",
            ";", ";\n", ";Palette Name:", "; \n;;\n", "JASC-PAL\n0100\n1\n1\u{2003}2\u{a0}3\n", "JASC-PAL\n0100\n1\n1\t2\u{b}3\u{c}\n", "GIMP Palette\n1\u{3000}2\u{2028}3\n",
            "JASC-PAL\n0100\n1\n\u{0661} \u{0662} \u{0663}\n", "GIMP Palette\n\u{ff11} \u{ff12} \u{ff13} wide\n", "GIMP Palette\n1 2 \u{0663}\n", "JASC-PAL\n0100\n1\n1 2 3\u{0664} 5 6\n",
            "JASC-PAL\n0100\n1\n1 2 3 4 5 6 7\n", "JASC-PAL\n0100\n1\n1  2   3    4 5 6\n", "JASC-PAL\n0100\n1\n12 34\n56 78 90\n",
        ] {
            cs.push(case(&format!("@palf.{}", fmt), t.as_bytes()));
        }
    }
    // --- not UTF-8 / cut multi-byte sequences, at the start, inside a number, at the end
    for fmt in ["ice", "hex", "pal", "gpl", "txt"] {
        for bad in [&[0xFFu8][..], &[0xC3], &[0xE2, 0x80], &[0xF0, 0x9F, 0x98], &[0xC0, 0x80], &[0xED, 0xA0, 0x80], &[0xF4, 0x90, 0x80, 0x80], &[0x80]] {
            let (name, file) = pal_exports().into_iter().find(|(n, _)| *n == fmt).unwrap();
            for pos in [0usize, file.len() / 2, file.len()] {
                let mut c = file.clone();
                c.splice(pos..pos, bad.iter().copied()).for_each(drop);
                both(&mut cs, name, &c);
            }
        }
    }
    // --- overlong lines / many lines / many colours (work must follow the length, not explode)
    let big = if thorough { 400_000 } else { 60_000 };
    for fmt in ["ice", "hex", "pal", "gpl", "txt"] {
        let magic = match fmt {
            "pal" => "JASC-PAL\n0100\n1\n",
            "gpl" => "GIMP Palette\n",
            "ice" => "ICE Palette\n",
            _ => "",
        };
        for (fill, tail) in [(b'1', "\n"), (b'1', " 2 3\n"), (b'f', "\n"), (b' ', "1 2 3\n"), (b'\n', "1 2 3\n"), (b'#', "\n"), (b';', "\n"), (b'\r', "\n")] {
            for n in [2500usize, big] {
                let mut t = magic.as_bytes().to_vec();
                t.extend(std::iter::repeat(fill).take(n));
                t.extend(tail.as_bytes());
                cs.push(case(&format!("@palf.{}", fmt), &t));
            }
        }
        let mut t = magic.as_bytes().to_vec();
        for i in 0..(if thorough { 20_000 } else { 1500 }) {
            t.extend(format!("{} {} {} c{}\n", i % 256, (i / 3) % 300, i, i).as_bytes());
            if i % 2 == 0 {
                t.extend(format!("{:06x} {:08X}\n", i * 977, i * 7919).as_bytes());
            }
        }
        cs.push(case(&format!("@palf.{}", fmt), &t));
    }
    // --- random text over the alphabet of the formats
    let alpha: Vec<&str> = vec!["0", "1", "9", "255", "256", "4294967296", " ", "  ", "\t", "\n", "\r\n", "#", ";", "ff", "FF", "g", "JASC-PAL", "GIMP Palette", "ICE Palette", "#Name:", "#Colors:", ";Palette Name:", "\u{0663}", "\u{a0}", "x", "-", "+"];
    for _ in 0..(120 * k) {
        let mut t = String::new();
        if rng.chance(1, 2) {
            t.push_str(*rng.pick(&["JASC-PAL\n0100\n2\n", "GIMP Palette\n", "ICE Palette\n", ";paint.net\n", "JASC-PAL\n"]));
        }
        for _ in 0..rng.below(40) {
            t.push_str(*rng.pick(&alpha[..]));
        }
        let fmt = *rng.pick(&["ice", "hex", "pal", "gpl", "txt"]);
        both(&mut cs, fmt, t.as_bytes());
    }
    for _ in 0..(30 * k) {
        let n = rng.below(80) as usize;
        let b = rng.bytes(n);
        cs.push(case(&format!("@pal.{}", rng.pick(&["pal", "gpl", "txt", "hex"])), &b));
        cs.push(case(&format!("@palf.{}", rng.pick(&["ice", "pal", "gpl", "txt", "hex"])), &b));
    }
    cs
}

// ------------------------------------------------------------------------------------------------ worker chain with a circuit breaker

/// family of a light case: `@font:…` -> font, `@palf.pal:…` -> palf, `rect fra …` -> rect:fra
pub fn family_of(case: &str) -> String {
    if let Some(rest) = case.strip_prefix('@') {
        rest.split(|c| c == ':' || c == '.').next().unwrap_or("?").to_string()
    } else if let Some(rest) = case.strip_prefix("rect ") {
        format!("rect:{}", rest.split_whitespace().next().unwrap_or("?"))
    } else {
        case.split_whitespace().next().unwrap_or("?").to_string()
    }
}

/// Like `term::run_in_workers` (child processes; the case being processed when a child dies or stops making progress is
/// pinned with `Err(reason)`), plus a CIRCUIT BREAKER: once `limit` cases of one family have killed / hung a child, the
/// remaining cases of that family are not run (`Ok(["SKIP"])`).  A regression that makes a whole family of cases run
/// away (each costing the full timeout) is then reported with its first few inputs in bounded time.
pub fn run_in_workers_breaker(prop: &str, dir: &std::path::Path, cases: &[String], timeout_s: u64, limit: usize) -> Vec<Result<Vec<String>, String>> {
    let mut results: Vec<Option<Result<Vec<String>, String>>> = vec![None; cases.len()];
    let mut deaths: std::collections::HashMap<String, usize> = Default::default();
    let exe = std::env::current_exe().unwrap();
    let mut pending: Vec<usize> = (0..cases.len()).collect();
    let mut round = 0;
    while !pending.is_empty() {
        round += 1;
        // drop the cases of tripped families
        let mut send: Vec<usize> = Vec::new();
        for &i in &pending {
            if deaths.get(&family_of(&cases[i])).copied().unwrap_or(0) >= limit {
                results[i] = Some(Ok(vec!["SKIP".to_string()]));
            } else {
                send.push(i);
            }
        }
        if send.is_empty() {
            break;
        }
        let inp = dir.join(format!("worker_in_{}.txt", round));
        let outp = dir.join(format!("worker_out_{}.txt", round));
        std::fs::write(&inp, send.iter().map(|&i| cases[i].as_str()).collect::<Vec<_>>().join("\n") + "\n").unwrap();
        let _ = std::fs::remove_file(&outp);
        let vmem = std::env::var("VERIF_WORKER_VMEM_KB").ok();
        let mut cmd = if let Some(kb) = &vmem {
            let mut c = std::process::Command::new("sh");
            c.arg("-c").arg(format!("ulimit -v {}; exec \"$0\" \"$@\"", kb)).arg(&exe);
            c
        } else {
            std::process::Command::new(&exe)
        };
        let mut child = cmd.arg(prop).arg("--worker").arg(&inp).arg("--out").arg(&outp).stdout(std::process::Stdio::null()).stderr(std::process::Stdio::null()).spawn().unwrap();
        let mut last_done = 0usize;
        let mut last_size = 0u64;
        let mut last_progress = std::time::Instant::now();
        let status = loop {
            if let Some(st) = child.try_wait().unwrap() {
                break Some(st);
            }
            std::thread::sleep(std::time::Duration::from_millis(20));
            // progress = the output file grew by at least one "#done" marker (checked only when its size changed)
            if let Ok(md) = std::fs::metadata(&outp) {
                if md.len() != last_size {
                    last_size = md.len();
                    if let Ok(t) = std::fs::read_to_string(&outp) {
                        let d = t.matches("#done").count();
                        if d != last_done {
                            last_done = d;
                            last_progress = std::time::Instant::now();
                        }
                    }
                }
            }
            if last_progress.elapsed().as_secs() >= timeout_s {
                let _ = child.kill();
                let _ = child.wait();
                break None;
            }
        };
        let text = std::fs::read_to_string(&outp).unwrap_or_default();
        let mut cur: Vec<String> = Vec::new();
        let mut done = 0usize;
        for l in text.lines() {
            if l == "#done" {
                if done < send.len() {
                    results[send[done]] = Some(Ok(std::mem::take(&mut cur)));
                }
                done += 1;
            } else {
                cur.push(l.to_string());
            }
        }
        let _ = std::fs::remove_file(&inp);
        let _ = std::fs::remove_file(&outp);
        let clean = matches!(status, Some(st) if st.success());
        if clean && done >= send.len() {
            break;
        }
        if done < send.len() {
            let reason = match status {
                None => "timeout".to_string(),
                Some(st) => format!("abort:{}", st),
            };
            let killer = send[done];
            results[killer] = Some(Err(reason));
            *deaths.entry(family_of(&cases[killer])).or_insert(0) += 1;
            pending = send[done + 1..].to_vec();
        } else {
            break;
        }
    }
    results.into_iter().map(|r| r.unwrap_or_else(|| Ok(vec!["SKIP".to_string()]))).collect()
}

thread_local! {
    static SLOW: std::cell::RefCell<std::collections::HashMap<String, usize>> = Default::default();
}

/// child-side half of the breaker: cases that finish but are slow.  `note_slow` after a slow case; `tripped` before the next.
pub fn note_slow(family: &str) {
    SLOW.with(|s| *s.borrow_mut().entry(family.to_string()).or_insert(0) += 1);
}
pub fn tripped(family: &str, limit: usize) -> bool {
    SLOW.with(|s| s.borrow().get(family).copied().unwrap_or(0) >= limit)
}
