//! C11: SAUCE metadata round-trips and is cut off the content exactly.
//!
//! correspondence (`sauce …` ops): bytes appended by the real `Buffer::write_sauce_info` / `Buffer::to_bytes(save_sauce)`
//! vs the model's `writeSauceInfo` (date taken from the implementation's bytes), `SauceData::extract` vs the model's
//! `extract` (ok/err/none/panic, every field, header length, content length) on engine-written files, truncated and
//! corrupted tails, arbitrary 128-byte records starting with SAUCE; `SauceString` read/append/len/eq; width rule of
//! `set_sauce`.
//! oracle (the property itself, independent of the model): metadata round trip per SAUCE variant, exact content split,
//! metadata after `Buffer::from_bytes` for every writer, "picture with SAUCE = picture without", no panic in the
//! SAUCE code on any input.
//!
//! replay inputs (one token each): `m/…` metadata case, `c/…` splice case, `f/…` probe case and `l/…` binary-format load
//! case (c11load.rs), `y/<hex>` probe file, `z/<ext>/<hex>` binary-format file, `x/<ext>/<hex>` raw file,
//! `s/<len>/<pad>/<hex>` string, `p/<ext>/<seed>` picture case, `big/<extra>` 2-GiB file.
use crate::util::*;
use icy_engine::{
    ascii::CP437_TO_UNICODE, AttributedChar, BitFont, Buffer, IceMode, SauceData, SauceFileType, SauceString, SaveOptions, Size, TextAttribute, TextPane,
    FORMATS, SAUCE_FONT_NAMES,
};
use std::collections::HashMap;
use std::panic::AssertUnwindSafe;
use std::path::PathBuf;

pub(crate) const EXTS: [&str; 10] = ["ans", "asc", "avt", "pcb", "bin", "xb", "tnd", "adf", "idf", "icy"];
pub(crate) const KINDS: [SauceFileType; 9] = [
    SauceFileType::Undefined,
    SauceFileType::Ascii,
    SauceFileType::Ansi,
    SauceFileType::ANSiMation,
    SauceFileType::PCBoard,
    SauceFileType::Avatar,
    SauceFileType::TundraDraw,
    SauceFileType::Bin,
    SauceFileType::XBin,
];
pub(crate) const KIND_NAMES: [&str; 9] = ["Undefined", "Ascii", "Ansi", "ANSiMation", "PCBoard", "Avatar", "TundraDraw", "Bin", "XBin"];

/// SauceFileType written by each format's writer (read off the source; the translator extracts the same table)
pub(crate) fn ext_kind(ext: &str) -> usize {
    match ext {
        "ans" | "adf" | "icy" => 2,
        "asc" => 1,
        "avt" => 5,
        "pcb" => 4,
        "bin" | "idf" => 7,
        "xb" => 8,
        "tnd" => 6,
        _ => 0,
    }
}

pub(crate) fn cp_str(bs: &[u8]) -> String {
    bs.iter().map(|b| CP437_TO_UNICODE[*b as usize]).collect()
}
pub(crate) fn cp_bytes(s: &str) -> Vec<u8> {
    s.chars().map(|c| CP437_TO_UNICODE.iter().position(|t| *t == c).map(|p| p as u8).unwrap_or(b'?')).collect()
}
fn strip(s: &[u8]) -> &[u8] {
    let mut n = s.len();
    while n > 0 && (s[n - 1] == 0 || s[n - 1] == b' ') {
        n -= 1;
    }
    &s[..n]
}
fn upto_nul(s: &[u8]) -> &[u8] {
    match s.iter().position(|b| *b == 0) {
        Some(p) => &s[..p],
        None => s,
    }
}
pub(crate) fn b01(b: bool) -> &'static str {
    if b {
        "1"
    } else {
        "0"
    }
}

#[derive(Clone, Debug)]
pub(crate) struct Case {
    pub(crate) mode: char, // 'm' metadata round trip, 'c' splice (arbitrary content + engine-written tail with loader defaults)
    pub(crate) target: String, // "k0".."k8" (write_sauce_info directly) or an extension (to_bytes / from_bytes)
    pub(crate) w: i32,
    pub(crate) h: i32,
    pub(crate) ice: bool,
    pub(crate) ar: bool,
    pub(crate) ls: bool,
    pub(crate) has: bool,
    pub(crate) font: Vec<u8>,
    pub(crate) title: Vec<u8>,
    pub(crate) author: Vec<u8>,
    pub(crate) group: Vec<u8>,
    pub(crate) vec: Vec<u8>, // existing contents of the vector (mode m, kind target), cell seed (ext target), content (mode c)
    pub(crate) comments: Vec<Vec<u8>>,
}

impl Case {
    pub(crate) fn encode(&self) -> String {
        format!(
            "{}/{}/{}/{}/{}{}{}{}/{}/{}/{}/{}/{}/{}:{}",
            self.mode,
            self.target,
            self.w,
            self.h,
            b01(self.ice),
            b01(self.ar),
            b01(self.ls),
            b01(self.has),
            hex(&self.font),
            hex(&self.title),
            hex(&self.author),
            hex(&self.group),
            hex(&self.vec),
            self.comments.len(),
            self.comments.iter().map(|c| hex(c)).collect::<Vec<_>>().join(",")
        )
    }
    pub(crate) fn decode(s: &str) -> Option<Case> {
        let p: Vec<&str> = s.split('/').collect();
        if p.len() != 11 {
            return None;
        }
        let fl: Vec<char> = p[4].chars().collect();
        if fl.len() != 4 {
            return None;
        }
        let (n, cs) = p[10].split_once(':')?;
        let n: usize = n.parse().ok()?;
        let comments: Vec<Vec<u8>> = if n == 0 { Vec::new() } else { cs.split(',').map(unhex).collect() };
        if comments.len() != n {
            return None;
        }
        Some(Case {
            mode: p[0].chars().next()?,
            target: p[1].to_string(),
            w: p[2].parse().ok()?,
            h: p[3].parse().ok()?,
            ice: fl[0] == '1',
            ar: fl[1] == '1',
            ls: fl[2] == '1',
            has: fl[3] == '1',
            font: unhex(p[5]),
            title: unhex(p[6]),
            author: unhex(p[7]),
            group: unhex(p[8]),
            vec: unhex(p[9]),
            comments,
        })
    }
    pub(crate) fn kind(&self) -> usize {
        if let Some(k) = self.target.strip_prefix('k') {
            if let Ok(k) = k.parse::<usize>() {
                return k.min(8);
            }
        }
        ext_kind(&self.target)
    }
    pub(crate) fn is_ext(&self) -> bool {
        EXTS.contains(&self.target.as_str())
    }
    /// the buffer the case describes (cells are filled from `vec` for extension targets)
    pub(crate) fn buffer(&self, fill: bool) -> Buffer {
        let mut buf = Buffer::new((self.w, self.h));
        if self.ice {
            buf.ice_mode = IceMode::Ice;
        }
        let mut f = BitFont::default();
        f.name = cp_str(&self.font);
        buf.set_font(0, f);
        if self.has {
            let mut sd = SauceData::default();
            sd.title = SauceString::from(cp_str(&self.title));
            sd.author = SauceString::from(cp_str(&self.author));
            sd.group = SauceString::from(cp_str(&self.group));
            sd.comments = self.comments.iter().map(|c| SauceString::from(cp_str(c))).collect();
            sd.use_aspect_ratio = self.ar;
            sd.use_letter_spacing = self.ls;
            sd.buffer_size = Size::new(self.w, self.h);
            buf.set_sauce(Some(sd), false);
        }
        if fill {
            fill_cells(&mut buf, &self.vec);
        }
        buf
    }
    /// request line for the model's writer
    pub(crate) fn write_op(&self, date: &[u8], vec_len: usize) -> String {
        let t = |s: &[u8], n: usize| hex(&s[..s.len().min(n)]);
        let e: &[u8] = &[];
        let (ti, au, gr) = if self.has { (&self.title[..], &self.author[..], &self.group[..]) } else { (e, e, e) };
        let mut op = format!(
            "sauce write {} {} {} {} {} {} {} {} {} {} {} {} {} {}",
            self.kind(),
            b01(self.has),
            self.w,
            self.h,
            b01(self.ice),
            b01(self.ar),
            b01(self.ls),
            hex(&self.font),
            hex(date),
            t(ti, 35),
            t(au, 20),
            t(gr, 20),
            vec_len,
            if self.has { self.comments.len() } else { 0 }
        );
        if self.has {
            for c in &self.comments {
                op.push(' ');
                op.push_str(&t(c, 64));
            }
        }
        op
    }
}

pub(crate) fn fill_cells(buf: &mut Buffer, seed: &[u8]) {
    let mut r = Rng::new(fnv(seed.iter().map(|b| *b as u64)));
    let (w, h) = (buf.get_width(), buf.get_height());
    for y in 0..h {
        let n = r.below(w as u64 + 1) as i32;
        for x in 0..n {
            if r.chance(1, 5) {
                continue;
            }
            let ch = char::from_u32(r.range(33, 126) as u32).unwrap();
            let attr = TextAttribute::new(r.below(16) as u32, r.below(8) as u32);
            buf.layers[0].set_char((x, y), AttributedChar::new(ch, attr));
        }
    }
}

pub(crate) fn err_name(msg: &str) -> &'static str {
    if msg.starts_with("unsupported version") {
        "version"
    } else if msg.starts_with("invalid sauce comment block") {
        "comment-block"
    } else if msg.starts_with("invalid sauce comment id") {
        "comment-id"
    } else if msg.starts_with("unsupported sauce date format") {
        "date"
    } else if msg.starts_with("comment limit exceeded") {
        "comment-limit"
    } else if msg.starts_with("bin file width limit exceeded") {
        "bin-width"
    } else {
        "other"
    }
}

fn ss_bytes<const L: usize, const P: u8>(s: &SauceString<L, P>) -> Vec<u8> {
    let mut v = Vec::new();
    s.append_to(&mut v);
    v
}

/// same format as `showSauce` in lean/IcyVerif/Drv/Sauce.lean
fn show_sauce(sd: &SauceData, total: usize) -> String {
    let kind = KIND_NAMES.iter().position(|n| *n == format!("{:?}", sd.sauce_file_type)).unwrap_or(99);
    let cs: Vec<String> = sd.comments.iter().map(|c| hex(upto_nul(&ss_bytes(c)))).collect();
    format!(
        "ok t={} {} a={} {} g={} {} tt={} at={} gt={} c={}:{} dt={} w={} h={} f={} i={} l={} r={} hl={} k={} cl={}",
        hex(&ss_bytes(&sd.title)),
        b01(sd.title.is_empty()),
        hex(&ss_bytes(&sd.author)),
        b01(sd.author.is_empty()),
        hex(&ss_bytes(&sd.group)),
        b01(sd.group.is_empty()),
        hex(&cp_bytes(&sd.title.to_string())),
        hex(&cp_bytes(&sd.author.to_string())),
        hex(&cp_bytes(&sd.group.to_string())),
        sd.comments.len(),
        cs.join(","),
        sd.data_type.clone() as u8,
        sd.buffer_size.width,
        sd.buffer_size.height,
        match &sd.font_opt {
            None => "none".to_string(),
            Some(f) => hex(&cp_bytes(f)),
        },
        b01(sd.use_ice),
        b01(sd.use_letter_spacing),
        b01(sd.use_aspect_ratio),
        sd.sauce_header_len,
        kind,
        total as i64 - sd.sauce_header_len as i64
    )
}

pub(crate) struct Ctx {
    pub(crate) dates: HashMap<Vec<u8>, bool>,
}

impl Ctx {
    /// verdict of the date parser (chrono, outside the model) on 8 bytes, obtained from the implementation on a
    /// clean record that differs from an accepted one only in the date field
    pub(crate) fn date_ok(&mut self, d: &[u8]) -> bool {
        if let Some(v) = self.dates.get(d) {
            return *v;
        }
        let mut rec = vec![0x1Au8];
        rec.extend(b"SAUCE00");
        rec.extend(std::iter::repeat(b' ').take(75));
        rec.extend(d);
        rec.extend(std::iter::repeat(0u8).take(128 - 7 - 75 - 8));
        let r = catch(|| match SauceData::extract(&rec) {
            Ok(_) => true,
            Err(e) => !e.to_string().starts_with("unsupported sauce date format"),
        });
        let v = r.unwrap_or(false);
        self.dates.insert(d.to_vec(), v);
        v
    }
}

pub(crate) fn is_sauce_site(site: &str) -> bool {
    site.starts_with("sauce_mod/") || site == "buffers.rs::from_bytes" || site == "buffers.rs::set_sauce"
}

/// `SauceData::extract` on arbitrary bytes: correspondence line + "no panic" oracle. Returns the record, if any.
pub(crate) fn extract_case(run: &mut Run, ctx: &mut Ctx, bytes: &[u8], input: &str) -> Option<SauceData> {
    let dok = if bytes.len() >= 128 { ctx.date_ok(&bytes[bytes.len() - 128 + 82..bytes.len() - 128 + 90]) } else { true };
    let r = catch(|| SauceData::extract(bytes));
    let op = format!("sauce extract {} {}", b01(dok), hex(bytes));
    match r {
        Err(loc) => {
            let site = panic_site(&loc);
            run.case(&op, "panic");
            run.count("extract:panic");
            run.oracle_fail(&site, input, &format!("SauceData::extract panics at {} on a {}-byte input", loc, bytes.len()));
            None
        }
        Ok(Err(e)) => {
            let n = err_name(&e.to_string());
            run.case(&op, &format!("err:{}", n));
            run.count(&format!("extract:err:{}", n));
            None
        }
        Ok(Ok(None)) => {
            run.case(&op, "none");
            run.count("extract:none");
            None
        }
        Ok(Ok(Some(sd))) => {
            run.case(&op, &show_sauce(&sd, bytes.len()));
            run.count("extract:ok");
            if sd.sauce_header_len > bytes.len() {
                run.oracle_fail("split", input, &format!("sauce_header_len {} exceeds the file length {}", sd.sauce_header_len, bytes.len()));
            }
            Some(sd)
        }
    }
}

/// `Buffer::from_bytes` must not panic inside the SAUCE code (panics of the format loaders belong to C01/C02)
pub(crate) fn from_bytes_case(run: &mut Run, ext: &str, bytes: &[u8], input: &str) -> Option<Buffer> {
    let path = PathBuf::from(format!("c11.{}", ext));
    match catch(|| Buffer::from_bytes(&path, false, bytes)) {
        Err(loc) => {
            let site = panic_site(&loc);
            if is_sauce_site(&site) {
                run.count("from_bytes:panic-sauce");
                run.oracle_fail(&site, input, &format!("Buffer::from_bytes panics at {} on a {}-byte .{} file", loc, bytes.len(), ext));
            } else {
                run.count(&format!("from_bytes:panic-foreign(loader,not C11):{}:{}", ext, site));
            }
            None
        }
        Ok(Err(_)) => {
            run.count("from_bytes:err");
            None
        }
        Ok(Ok(b)) => {
            run.count("from_bytes:ok");
            Some(b)
        }
    }
}

/// what the SAUCE variant `kind` can carry of the case's metadata — written from the SAUCE spec as implemented by
/// the writer arms, independently of the Lean model
struct Expect {
    width: i32,
    height: i32,
    ice: bool,
    ls: bool,
    ar: bool,
    font: Option<Vec<u8>>,
}
fn expect(c: &Case) -> Expect {
    let k = c.kind();
    let flags = matches!(k, 0 | 1 | 2 | 3 | 7);
    let font: Vec<u8> = strip(upto_nul(&c.font[..c.font.len().min(22)])).to_vec();
    Expect {
        width: if k == 7 { (c.w / 2) * 2 } else { c.w & 0xFFFF },
        height: match k {
            7 => 25,
            // TundraDraw: TInfo2 = number of lines (SAUCE rev. 5); the engine wrote 0 before `fix: SAUCE record of a Tundra file …`
            _ => c.h & 0xFFFF,
        },
        ice: flags && c.ice,
        ls: matches!(k, 0 | 2) && c.has && c.ls,
        ar: matches!(k, 0 | 2) && c.has && c.ar,
        font: if flags { Some(font) } else { None },
    }
}

/// oracle: the strings of `sd` are the case's strings as far as SAUCE can carry them
pub(crate) fn check_strings(run: &mut Run, c: &Case, sd: &SauceData, input: &str, whence: &str) {
    let e: &[u8] = &[];
    let ec: &[Vec<u8>] = &[];
    let (t, a, g, cs) = if c.has { (&c.title[..], &c.author[..], &c.group[..], &c.comments[..]) } else { (e, e, e, ec) };
    let ot = SauceString::<35, b' '>::from(cp_str(t));
    let oa = SauceString::<20, b' '>::from(cp_str(a));
    let og = SauceString::<20, b' '>::from(cp_str(g));
    if sd.title != ot || sd.title.to_string() != ot.to_string() {
        run.oracle_fail("roundtrip-title", input, &format!("{}: title {:?} came back as {:?}", whence, ot.to_string(), sd.title.to_string()));
    }
    if sd.author != oa || sd.author.to_string() != oa.to_string() {
        run.oracle_fail("roundtrip-author", input, &format!("{}: author {:?} came back as {:?}", whence, oa.to_string(), sd.author.to_string()));
    }
    if sd.group != og || sd.group.to_string() != og.to_string() {
        run.oracle_fail("roundtrip-group", input, &format!("{}: group {:?} came back as {:?}", whence, og.to_string(), sd.group.to_string()));
    }
    if sd.comments.len() != cs.len() {
        run.oracle_fail("roundtrip-comments", input, &format!("{}: {} comment lines came back as {}", whence, cs.len(), sd.comments.len()));
    } else {
        for (i, c0) in cs.iter().enumerate() {
            let c0 = &c0[..c0.len().min(64)];
            // a comment line is a NUL-terminated field: it carries the text up to its first NUL
            let want = SauceString::<64, 0>::from(cp_str(upto_nul(c0)));
            if sd.comments[i] != want || sd.comments[i].to_string() != want.to_string() {
                run.oracle_fail("roundtrip-comments", input, &format!("{}: comment {} {:?} came back as {:?}", whence, i, want.to_string(), sd.comments[i].to_string()));
                break;
            }
        }
    }
}

fn check_record(run: &mut Run, c: &Case, sd: &SauceData, input: &str, whence: &str) {
    let e = expect(c);
    check_strings(run, c, sd, input, whence);
    if sd.buffer_size.width != e.width {
        run.oracle_fail("roundtrip-width", input, &format!("{}: width {} came back as {} (expected {})", whence, c.w, sd.buffer_size.width, e.width));
    }
    if sd.buffer_size.height != e.height {
        run.oracle_fail("roundtrip-height", input, &format!("{}: height {} came back as {} (expected {})", whence, c.h, sd.buffer_size.height, e.height));
    }
    if sd.use_ice != e.ice || sd.use_letter_spacing != e.ls || sd.use_aspect_ratio != e.ar {
        run.oracle_fail(
            "roundtrip-flags",
            input,
            &format!("{}: ice/ls/ar {}{}{} came back as {}{}{}", whence, b01(e.ice), b01(e.ls), b01(e.ar), b01(sd.use_ice), b01(sd.use_letter_spacing), b01(sd.use_aspect_ratio)),
        );
    }
    let got = sd.font_opt.as_ref().map(|f| cp_bytes(f));
    if got != e.font {
        run.oracle_fail("roundtrip-font", input, &format!("{}: font name {:?} came back as {:?} (expected {:?})", whence, cp_str(&c.font), got.map(|g| cp_str(&g)), e.font.map(|g| cp_str(&g))));
    }
}

pub(crate) fn date_of(tail: &[u8]) -> Vec<u8> {
    if tail.len() >= 128 {
        tail[tail.len() - 128 + 82..tail.len() - 128 + 90].to_vec()
    } else {
        b"00000000".to_vec()
    }
}

pub(crate) fn picture(b: &Buffer) -> Vec<u64> {
    let mut v = vec![b.get_width() as u64, b.get_height() as u64];
    for y in 0..b.get_height() {
        for x in 0..b.get_width() {
            let c = b.get_char((x, y));
            v.push(c.ch as u64);
            v.push(((c.attribute.get_foreground() as u64) << 32) | ((c.attribute.get_background() as u64) << 16) | c.attribute.attr as u64);
        }
    }
    v
}
pub(crate) fn picture_diff(a: &[u64], b: &[u64]) -> Option<String> {
    if a[0] != b[0] || a[1] != b[1] {
        return Some(format!("size {}x{} vs {}x{}", a[0], a[1], b[0], b[1]));
    }
    for i in 2..a.len().min(b.len()) {
        if a[i] != b[i] {
            let cell = (i - 2) / 2;
            return Some(format!("cell ({}, {}) differs: {:x} vs {:x}", cell as u64 % a[0].max(1), cell as u64 / a[0].max(1), a[i], b[i]));
        }
    }
    None
}

fn legit_write_error(c: &Case, n: &str) -> bool {
    (n == "comment-limit" && c.has && c.comments.len() > 255) || (n == "bin-width" && c.kind() == 7 && c.w / 2 > 255)
}

/// mode 'm', kind target: `write_sauce_info` directly on a vector with arbitrary existing contents
fn meta_kind_case(run: &mut Run, ctx: &mut Ctx, c: &Case) {
    let input = c.encode();
    let buf = c.buffer(false);
    let k = c.kind();
    let mut vec = c.vec.clone();
    let r = catch(AssertUnwindSafe(|| buf.write_sauce_info(KINDS[k], &mut vec)));
    run.count(&format!("write:{}", KIND_NAMES[k]));
    run.count(&format!(
        "comments:{}",
        match c.comments.len() {
            0 => "0",
            1 => "1",
            2..=9 => "2-9",
            10..=254 => "10-254",
            255 => "255",
            _ => ">255",
        }
    ));
    run.nontrivial(fnv(input.bytes().map(|b| b as u64)));
    match r {
        Err(loc) => {
            run.case(&c.write_op(b"00000000", c.vec.len()), "panic");
            run.oracle_fail(&panic_site(&loc), &input, &format!("write_sauce_info panics at {}", loc));
        }
        Ok(Err(e)) => {
            let n = err_name(&e.to_string());
            run.case(&c.write_op(b"00000000", c.vec.len()), &format!("err:{}", n));
            run.count(&format!("write:err:{}", n));
            if !legit_write_error(c, n) {
                run.oracle_fail("write-error", &input, &format!("write_sauce_info refuses metadata inside the property's range: {}", e));
            }
        }
        Ok(Ok(_)) => {
            if vec.len() < c.vec.len() || vec[..c.vec.len()] != c.vec[..] {
                run.oracle_fail("split", &input, "write_sauce_info changed the existing contents of the vector");
                return;
            }
            let tail = vec[c.vec.len()..].to_vec();
            run.case(&c.write_op(&date_of(&tail), c.vec.len()), &format!("ok {}", hex(&tail)));
            if tail.first() != Some(&0x1A) {
                run.oracle_fail("split", &input, "the appended SAUCE data does not start with the EOF byte");
            }
            if let Some(sd) = extract_case(run, ctx, &vec, &input) {
                check_record(run, c, &sd, &input, "extract(write_sauce_info)");
                if sd.sauce_header_len != tail.len() {
                    run.oracle_fail("split", &input, &format!("sauce_header_len {} but {} bytes were appended to {} content bytes", sd.sauce_header_len, tail.len(), c.vec.len()));
                }
            } else {
                run.oracle_fail("roundtrip-none", &input, "extract does not find the record write_sauce_info just wrote");
            }
        }
    }
}

/// mode 'm', extension target: `to_bytes` with and without SAUCE, `extract`, `from_bytes`
fn meta_ext_case(run: &mut Run, ctx: &mut Ctx, c: &Case) {
    let input = c.encode();
    let ext = c.target.as_str();
    let buf = c.buffer(true);
    let mut opt = SaveOptions::new();
    opt.save_sauce = false;
    let without = catch(AssertUnwindSafe(|| buf.to_bytes(ext, &opt)));
    opt.save_sauce = true;
    let with = catch(AssertUnwindSafe(|| buf.to_bytes(ext, &opt)));
    run.count(&format!("to_bytes:{}", ext));
    run.nontrivial(fnv(input.bytes().map(|b| b as u64)));
    let without = match without {
        Ok(Ok(b)) => b,
        Ok(Err(_)) => {
            run.count(&format!("to_bytes:content-unsupported:{}", ext));
            return;
        }
        Err(_) => {
            run.count("to_bytes:content-panic(not C11)");
            return;
        }
    };
    let with = match with {
        Ok(Ok(b)) => b,
        Ok(Err(e)) => {
            let n = err_name(&e.to_string());
            if ext != "icy" {
                run.case(&c.write_op(b"00000000", without.len()), &format!("err:{}", n));
            }
            if !legit_write_error(c, n) {
                run.oracle_fail("write-error", &input, &format!("to_bytes(.{}) with save_sauce fails where it succeeds without: {}", ext, e));
            }
            return;
        }
        Err(loc) => {
            run.oracle_fail(&panic_site(&loc), &input, &format!("to_bytes(.{}) with save_sauce panics at {}", ext, loc));
            return;
        }
    };
    if ext != "icy" {
        if !with.starts_with(&without) || with.get(without.len()) != Some(&0x1A) {
            run.oracle_fail("split", &input, &format!(".{}: the file saved with SAUCE is not content + EOF + SAUCE", ext));
            return;
        }
        let tail = &with[without.len()..];
        run.case(&c.write_op(&date_of(tail), without.len()), &format!("ok {}", hex(tail)));
        if let Some(sd) = extract_case(run, ctx, &with, &input) {
            check_record(run, c, &sd, &input, &format!("extract(to_bytes .{})", ext));
            if sd.sauce_header_len != tail.len() {
                run.oracle_fail("split", &input, &format!(".{}: sauce_header_len {} but the SAUCE data is {} bytes", ext, sd.sauce_header_len, tail.len()));
            }
        } else {
            run.oracle_fail("roundtrip-none", &input, &format!(".{}: extract does not find the record the writer appended", ext));
        }
    }
    // what a user sees: load the file
    if let Some(loaded) = from_bytes_case(run, ext, &with, &input) {
        let wrote_sauce = ext != "icy" || c.has;
        match loaded.get_sauce() {
            None => {
                if wrote_sauce {
                    run.oracle_fail(&format!("load-metadata-{}", ext), &input, &format!(".{}: the loaded buffer has no SAUCE metadata although the file carries a record", ext));
                }
            }
            Some(sd) => {
                check_strings(run, c, sd, &input, &format!("from_bytes(.{})", ext));
                let e = expect(c);
                if (sd.use_letter_spacing, sd.use_aspect_ratio) != (e.ls, e.ar) {
                    run.oracle_fail("roundtrip-flags", &input, &format!("from_bytes(.{}): ls/ar {}{} came back as {}{}", ext, b01(e.ls), b01(e.ar), b01(sd.use_letter_spacing), b01(sd.use_aspect_ratio)));
                }
                if loaded.use_letter_spacing() != e.ls || loaded.use_aspect_ratio() != e.ar {
                    run.oracle_fail("roundtrip-flags", &input, &format!("from_bytes(.{}): Buffer::use_letter_spacing/use_aspect_ratio wrong", ext));
                }
                // formats whose loader takes the width from the record
                if matches!(ext, "ans" | "asc" | "avt" | "pcb" | "bin" | "tnd") {
                    let want = if e.width == 0 || e.width > 1000 { 80 } else { e.width };
                    if loaded.get_width() != want {
                        run.oracle_fail("roundtrip-width", &input, &format!("from_bytes(.{}): saved width {} loaded as {} (expected {})", ext, c.w, loaded.get_width(), want));
                    }
                }
                if e.ice && !matches!(loaded.ice_mode, IceMode::Ice) {
                    run.oracle_fail("roundtrip-flags", &input, &format!("from_bytes(.{}): ice colours lost", ext));
                }
                if let Some(f) = &e.font {
                    let name = cp_str(f);
                    if SAUCE_FONT_NAMES.contains(&name.as_str()) && matches!(ext, "ans" | "asc" | "bin") {
                        let got = loaded.get_font(0).map(|f| f.name.clone()).unwrap_or_default();
                        if got != name {
                            run.oracle_fail("roundtrip-font", &input, &format!("from_bytes(.{}): SAUCE font {:?} loaded as {:?}", ext, name, got));
                        }
                    }
                }
            }
        }
    }
}

/// mode 'c': arbitrary content (possibly ending in SAUCE/COMNT look-alikes) + EOF + engine-written SAUCE whose width,
/// ice and font settings are the loader's defaults: header length exact, picture = picture of the content alone
fn splice_case(run: &mut Run, ctx: &mut Ctx, c: &Case) {
    let input = c.encode();
    let ext = c.target.as_str();
    let buf = c.buffer(false);
    let mut vec = c.vec.clone();
    let r = catch(AssertUnwindSafe(|| buf.write_sauce_info(KINDS[ext_kind(ext)], &mut vec)));
    run.count(&format!("splice:{}", ext));
    run.nontrivial(fnv(input.bytes().map(|b| b as u64)));
    if !matches!(r, Ok(Ok(_))) {
        run.count("splice:write-failed");
        return;
    }
    let tail_len = vec.len() - c.vec.len();
    match extract_case(run, ctx, &vec, &input) {
        Some(sd) => {
            if sd.sauce_header_len != tail_len {
                run.oracle_fail("split", &input, &format!("sauce_header_len {} but EOF+SAUCE is {} bytes (content {} bytes)", sd.sauce_header_len, tail_len, c.vec.len()));
            }
            check_strings(run, c, &sd, &input, "extract(content+EOF+SAUCE)");
        }
        None => run.oracle_fail("roundtrip-none", &input, "extract does not find the record appended to the content"),
    }
    // the picture of the content alone: the format loader applied to the content, no SAUCE
    let path = PathBuf::from(format!("c11.{}", ext));
    let fmt = FORMATS.iter().find(|f| f.get_file_extension() == ext).unwrap();
    let alone = catch(AssertUnwindSafe(|| fmt.load_buffer(&path, &c.vec, None)));
    let alone = match alone {
        Ok(Ok(b)) => b,
        _ => {
            run.count(&format!("splice:content-not-loadable:{}", ext));
            // then the file with SAUCE must fail the same way, not panic in the SAUCE code
            let _ = from_bytes_case(run, ext, &vec, &input);
            return;
        }
    };
    if let Some(loaded) = from_bytes_case(run, ext, &vec, &input) {
        // Tundra has no size fields: a .tnd file that places no cell at all keeps the record's height (the first cell
        // overwrites it).  The height is then one of the record's settings: at the loader's default (25 rows) the picture
        // is the picture of the content alone; elsewhere the record must be honoured (the repaired writer stores the
        // buffer's height in TInfo2 - it used to store 0, finding `picture-tnd-no-cell`, fixed)
        let tnd_no_cell = ext == "tnd" && alone.get_line_count() == 0;
        if tnd_no_cell && c.h != alone.get_height() {
            run.count("splice:tnd:no-cell:record-height");
            let want = c.h & 0xFFFF;
            if loaded.get_height() != want || loaded.get_width() != alone.get_width() || loaded.get_line_count() != 0 {
                run.oracle_fail("picture-tnd-no-cell", &input, &format!(".tnd without cells + SAUCE of a {}x{} buffer loads as {}x{} ({} rows), expected {}x{}",
                    c.w, c.h, loaded.get_width(), loaded.get_height(), loaded.get_line_count(), alone.get_width(), want));
            }
        } else if let Some(d) = picture_diff(&picture(&alone), &picture(&loaded)) {
            let key = if tnd_no_cell { "picture-tnd-no-cell" } else { "picture" };
            run.oracle_fail(key, &input, &format!(".{}: picture of content+EOF+SAUCE differs from the picture of the content alone: {}", ext, d));
        }
        if loaded.get_sauce().is_none() {
            run.oracle_fail(&format!("load-metadata-{}", ext), &input, &format!(".{}: the loaded buffer has no SAUCE metadata", ext));
        }
    } else {
        run.oracle_fail("picture", &input, &format!(".{}: content loads alone but not with EOF+SAUCE appended", ext));
    }
}

/// picture case: engine-written content at loader-default width/ice/font, saved with and without SAUCE
fn picture_case(run: &mut Run, ext: &str, seed: u64) {
    let input = format!("p/{}/{}", ext, seed);
    let mut r = Rng::new(seed ^ 0xC11);
    let w = match ext {
        "bin" => 160,
        "xb" | "idf" | "icy" => *r.pick(&[80, 1, 7, 40, 132]),
        _ => 80,
    };
    let h = r.range(1, 6) as i32;
    let ice = matches!(ext, "adf" | "idf");
    let mut buf = Buffer::new((w, h));
    if ice {
        buf.ice_mode = IceMode::Ice;
    }
    fill_cells(&mut buf, &seed.to_le_bytes());
    let mut sd = SauceData::default();
    sd.title = SauceString::from(cp_str(&gen_field(&mut r, 35)));
    sd.author = SauceString::from(cp_str(&gen_field(&mut r, 20)));
    sd.group = SauceString::from(cp_str(&gen_field(&mut r, 20)));
    for _ in 0..r.below(4) {
        sd.comments.push(SauceString::from(cp_str(&gen_comment(&mut r))));
    }
    sd.buffer_size = Size::new(w, h);
    let mut plain = buf.flat_clone(true);
    buf.set_sauce(Some(sd), false);
    let mut opt = SaveOptions::new();
    opt.save_sauce = false;
    if ext == "icy" {
        plain.set_sauce(None, false);
    }
    let a = catch(AssertUnwindSafe(|| plain.to_bytes(ext, &opt)));
    opt.save_sauce = true;
    let b = catch(AssertUnwindSafe(|| buf.to_bytes(ext, &opt)));
    run.count(&format!("picture:{}", ext));
    run.nontrivial(fnv([seed, ext.len() as u64, ext.as_bytes()[0] as u64]));
    let (a, b) = match (a, b) {
        (Ok(Ok(a)), Ok(Ok(b))) => (a, b),
        _ => {
            run.count("picture:save-failed");
            return;
        }
    };
    if ext != "icy" && (!b.starts_with(&a) || b.len() < a.len() + 129) {
        run.oracle_fail("split", &input, &format!(".{}: file with SAUCE is not the file without + EOF + SAUCE", ext));
    }
    let path = PathBuf::from(format!("c11.{}", ext));
    let la = catch(|| Buffer::from_bytes(&path, false, &a));
    let lb = catch(|| Buffer::from_bytes(&path, false, &b));
    match (la, lb) {
        (Ok(Ok(la)), Ok(Ok(lb))) => {
            if let Some(d) = picture_diff(&picture(&la), &picture(&lb)) {
                run.oracle_fail("picture", &input, &format!(".{}: picture loaded from content+EOF+SAUCE differs from the picture loaded from the content: {}", ext, d));
            }
            if lb.get_sauce().is_none() {
                run.oracle_fail(&format!("load-metadata-{}", ext), &input, &format!(".{}: the loaded buffer has no SAUCE metadata", ext));
            }
        }
        (Ok(Ok(_)), Err(loc)) => {
            let site = panic_site(&loc);
            if is_sauce_site(&site) {
                run.oracle_fail(&site, &input, &format!(".{}: from_bytes panics at {} with SAUCE", ext, loc));
            }
        }
        (Ok(Ok(_)), Ok(Err(e))) => run.oracle_fail("picture", &input, &format!(".{}: loads without SAUCE, fails with: {}", ext, e)),
        _ => run.count("picture:content-not-loadable"),
    }
}

/// raw file: `extract` correspondence, no panic in extract / from_bytes
fn file_case(run: &mut Run, ctx: &mut Ctx, ext: &str, bytes: &[u8]) {
    let input = format!("x/{}/{}", ext, hex(bytes));
    run.nontrivial(fnv(bytes.iter().map(|b| *b as u64).chain([bytes.len() as u64])));
    let sd = extract_case(run, ctx, bytes, &input);
    let loaded = from_bytes_case(run, ext, bytes, &input);
    if let (Some(sd), Some(loaded)) = (sd, loaded) {
        // the loader received the record (formats that keep it)
        if let Some(ls) = loaded.get_sauce() {
            if ls.title != sd.title || ls.comments.len() != sd.comments.len() {
                run.oracle_fail("load-metadata", &input, "from_bytes and extract disagree on the record of the same file");
            }
        }
    }
}

fn str_read<const L: usize, const P: u8>(d: &[u8]) -> String {
    let r = catch(|| {
        let mut s = SauceString::<L, P>::new();
        let n = s.read(d);
        (s, n)
    });
    match r {
        Err(_) => "panic".to_string(),
        Ok((s, n)) => {
            debug_assert_eq!(n, L);
            format!("ok {} {} {} {}", hex(&ss_bytes(&s)), hex(&cp_bytes(&s.to_string())), s.len(), b01(s.is_empty()))
        }
    }
}
fn str_rt<const L: usize, const P: u8>(d: &[u8]) -> (String, bool, bool) {
    let s0 = SauceString::<L, P>::from(cp_str(d));
    let out = ss_bytes(&s0);
    let mut r = SauceString::<L, P>::new();
    match catch(AssertUnwindSafe(|| r.read(&out))) {
        Err(_) => ("panic".to_string(), false, false),
        Ok(_) => (
            format!("{} {} {} {} {}", hex(&out), hex(&cp_bytes(&s0.to_string())), hex(&cp_bytes(&r.to_string())), b01(r == s0), b01(r.is_empty())),
            r == s0,
            r.to_string() == s0.to_string(),
        ),
    }
}
fn str_eq<const L: usize, const P: u8>(a: &[u8], b: &[u8]) -> bool {
    SauceString::<L, P>::from(cp_str(a)) == SauceString::<L, P>::from(cp_str(b))
}

macro_rules! ss_dispatch {
    ($len:expr, $pad:expr, $f:ident, $($a:expr),*) => {
        match ($len, $pad) {
            (35, 32) => Some($f::<35, 32>($($a),*)),
            (20, 32) => Some($f::<20, 32>($($a),*)),
            (64, 0) => Some($f::<64, 0>($($a),*)),
            (22, 0) => Some($f::<22, 0>($($a),*)),
            (5, 32) => Some($f::<5, 32>($($a),*)),
            (5, 0) => Some($f::<5, 0>($($a),*)),
            (4, 46) => Some($f::<4, 46>($($a),*)),
            _ => None,
        }
    };
}

fn string_case(run: &mut Run, len: usize, pad: u8, d: &[u8]) {
    let input = format!("s/{}/{}/{}", len, pad, hex(d));
    run.nontrivial(fnv(d.iter().map(|b| *b as u64).chain([len as u64, pad as u64])));
    run.count(&format!("string:{}/{}", len, pad));
    if let Some(obs) = ss_dispatch!(len, pad, str_read, d) {
        run.case(&format!("sauce str {} {} {}", len, pad, hex(d)), &obs);
    }
    if let Some((obs, eq, text_eq)) = ss_dispatch!(len, pad, str_rt, d) {
        run.case(&format!("sauce rt {} {} {}", len, pad, hex(d)), &obs);
        let dd = &d[..d.len().min(len)];
        // blank-padded fields always come back equal (PartialEq / to_string: trailing blanks and NULs never count);
        // NUL-padded fields come back equal unless something other than blanks/NULs follows an embedded NUL
        let must = pad == b' ' || (pad == 0 && strip(upto_nul(dd)) == strip(dd));
        if must && !(eq && text_eq) {
            run.oracle_fail("roundtrip-string", &input, &format!("SauceString<{}, {}> {:?} does not survive append_to + read", len, pad, cp_str(dd)));
        }
    }
}

// ------------------------------------------------------------------------------------------------ generators

pub(crate) fn gen_bytes(r: &mut Rng, n: usize) -> Vec<u8> {
    let style = r.below(6);
    (0..n)
        .map(|_| match style {
            0 => r.range(33, 126) as u8,
            1 => *r.pick(&[b'A', b' ', 0u8, b'z']),
            2 => r.next() as u8,
            3 => {
                if r.chance(1, 6) {
                    b' '
                } else {
                    r.range(33, 254) as u8
                }
            }
            4 => *r.pick(&[b' ', 0u8]),
            _ => r.range(1, 255) as u8,
        })
        .collect()
}
/// title/author/group text: every length 0..=max, with trailing blanks/NULs, all-blank, sometimes over-long
pub(crate) fn gen_field(r: &mut Rng, max: usize) -> Vec<u8> {
    let n = match r.below(10) {
        0 => 0,
        1 => max,
        2 => max + r.below(4) as usize,
        _ => r.below(max as u64 + 1) as usize,
    };
    let mut s = gen_bytes(r, n);
    if r.chance(1, 3) && !s.is_empty() {
        let k = r.below(s.len() as u64 + 1) as usize;
        let fill = *r.pick(&[b' ', 0u8, b' ']);
        for i in s.len() - k..s.len() {
            s[i] = if r.chance(1, 4) {
                if fill == 0 {
                    b' '
                } else {
                    0
                }
            } else {
                fill
            };
        }
    }
    s
}
pub(crate) fn gen_comment(r: &mut Rng) -> Vec<u8> {
    let n = match r.below(8) {
        0 => 0,
        1 => 64,
        2 => 63,
        _ => r.below(65) as usize,
    };
    let mut s: Vec<u8> = gen_bytes(r, n);
    if !r.chance(1, 8) {
        // most comment lines have no embedded NUL (a NUL ends the line)
        for b in s.iter_mut() {
            if *b == 0 {
                *b = b'.';
            }
        }
    }
    if r.chance(1, 4) && !s.is_empty() {
        let k = r.below(s.len() as u64 + 1) as usize;
        let fill = *r.pick(&[b' ', 0u8]);
        for i in s.len() - k..s.len() {
            s[i] = fill;
        }
    }
    s
}
pub(crate) fn gen_font(r: &mut Rng) -> Vec<u8> {
    match r.below(6) {
        0 => cp_bytes(&BitFont::default().name),
        1 | 2 => cp_bytes(*r.pick(SAUCE_FONT_NAMES)),
        3 => Vec::new(),
        4 => {
            let n = r.range(20, 30) as usize;
            (0..n).map(|_| r.range(32, 126) as u8).collect()
        }
        _ => {
            let n = r.below(23) as usize;
            gen_bytes(r, n)
        }
    }
}
pub(crate) fn gen_comments(r: &mut Rng, big: bool) -> Vec<Vec<u8>> {
    let n = match r.below(12) {
        0 | 1 => 0,
        2 | 3 => 1,
        4 => 2,
        5 => {
            if big {
                255
            } else {
                r.range(3, 9) as usize
            }
        }
        6 => {
            if big {
                r.range(10, 254) as usize
            } else {
                r.range(3, 9) as usize
            }
        }
        7 => {
            if big {
                r.range(256, 260) as usize
            } else {
                3
            }
        }
        _ => r.range(1, 6) as usize,
    };
    (0..n).map(|_| gen_comment(r)).collect()
}
/// content whose own last bytes look like SAUCE / COMNT markers
pub(crate) fn gen_marker_content(r: &mut Rng, base: &[u8]) -> Vec<u8> {
    let mut c = base.to_vec();
    let junk = |r: &mut Rng, n: usize| -> Vec<u8> { (0..n).map(|_| r.range(32, 126) as u8).collect() };
    match r.below(12) {
        0 => c.extend(b"SAUCE00"),
        1 => c.extend(b"COMNT"),
        2 => c.extend(b"SAUCE"),
        3 => {
            c.extend(b"COMNT");
            c.extend(junk(r, 64));
        }
        4 => {
            c.extend(b"SAUCE00");
            c.extend(junk(r, 120));
        }
        5 => {
            c.extend(b"SAUCE00");
            c.extend(junk(r, 121));
        }
        6 => {
            // a complete look-alike record (valid date) inside the content
            c.push(0x1A);
            c.extend(b"SAUCE00");
            c.extend(junk(r, 75));
            c.extend(b"19990101");
            c.extend([0, 0, 0, 0, 1, 1, 80, 0, 25, 0, 0, 0, 0, 0, if r.chance(1, 2) { 1 } else { 0 }, 0]);
            c.extend(std::iter::repeat(0u8).take(22));
        }
        7 => c.push(0x1A),
        8 => {
            c.push(0x1A);
            c.extend(b"COMNT");
        }
        9 => c.extend(b"SAUCE00COMNT"),
        10 => {
            c.extend(b"COMNT");
            c.extend(junk(r, 63));
        }
        _ => {}
    }
    c
}

pub(crate) fn gen_case(r: &mut Rng, target: &str, big: bool) -> Case {
    let is_ext = EXTS.contains(&target);
    let (w, h) = if is_ext {
        let w = match r.below(10) {
            0 => 1,
            1 => 80,
            2 => r.range(1, 1000) as i32,
            3 => 1000,
            4 => 160,
            _ => r.range(1, 200) as i32,
        };
        (w, if w > 200 { 1 } else { r.range(1, 4) as i32 })
    } else {
        let w = match r.below(12) {
            0 => 0,
            1 => 1000,
            2 => 1001,
            3 => 65535,
            4 => 65536,
            5 => 70000,
            6 => 510,
            7 => 511,
            8 => 512,
            _ => r.range(1, 1000) as i32,
        };
        // Buffer::new allocates w*h cells: extreme widths and extreme heights are not combined
        let h = *r.pick(&[0, 1, 25, 25, 100, 65535, 65536, 70001]);
        if w as i64 * h as i64 > 200_000 {
            if r.chance(1, 2) {
                (w, 1)
            } else {
                (2, h)
            }
        } else {
            (w, h)
        }
    };
    let mut ice = r.chance(1, 2);
    if matches!(target, "adf" | "idf") {
        ice = true;
    }
    let w = if target == "adf" { 80 } else { w }; // the .adf writer refuses any other width
    Case {
        mode: 'm',
        target: target.to_string(),
        w,
        h,
        ice,
        ar: r.chance(1, 2),
        ls: r.chance(1, 2),
        has: !r.chance(1, 10),
        font: gen_font(r),
        title: gen_field(r, 35),
        author: gen_field(r, 20),
        group: gen_field(r, 20),
        vec: if is_ext {
            r.bytes(4)
        } else {
            let n = *r.pick(&[0usize, 1, 2, 5, 64, 69, 128, 200]);
            let base = r.bytes(n);
            gen_marker_content(r, &base)
        },
        comments: gen_comments(r, big),
    }
}

pub(crate) fn run_case(run: &mut Run, ctx: &mut Ctx, c: &Case) {
    match (c.mode, c.is_ext()) {
        ('f', _) => crate::c11load::probe_case(run, ctx, c),
        ('l', true) => crate::c11load::load_case(run, ctx, c, None),
        ('c', true) => splice_case(run, ctx, c),
        ('m', true) => meta_ext_case(run, ctx, c),
        _ => meta_kind_case(run, ctx, c),
    }
}

/// a file of 2 GiB + 128 + extra bytes ending in an engine-written COMNT block + record (lazily zeroed memory)
fn big_case(run: &mut Run, extra: usize) {
    let input = format!("big/{}", extra);
    let c = Case {
        mode: 'm',
        target: "k2".into(),
        w: 80,
        h: 25,
        ice: false,
        ar: false,
        ls: false,
        has: true,
        font: vec![],
        title: b"big".to_vec(),
        author: vec![],
        group: vec![],
        vec: vec![],
        comments: vec![b"one".to_vec()],
    };
    let buf = c.buffer(false);
    let mut tail = Vec::new();
    if buf.write_sauce_info(SauceFileType::Ansi, &mut tail).is_err() {
        return;
    }
    let total = (1usize << 31) + 128 + extra;
    let mut v: Vec<u8> = Vec::new();
    if v.try_reserve_exact(total).is_err() {
        run.count("big:skipped(no memory)");
        return;
    }
    drop(v);
    let mut v = vec![0u8; total]; // calloc: untouched pages stay unmapped
    let s = total - tail.len();
    v[s..].copy_from_slice(&tail);
    run.count("big:ran");
    match catch(|| SauceData::extract(&v).map(|o| o.map(|s| (s.sauce_header_len, s.comments.len())))) {
        Err(loc) => run.oracle_fail(&panic_site(&loc), &input, &format!("SauceData::extract panics at {} on a {}-byte file", loc, total)),
        Ok(Ok(Some((hl, 1)))) if hl == tail.len() => {}
        Ok(other) => run.oracle_fail("split", &input, &format!("extract on a {}-byte file ending in a valid comment block + record: {:?}", total, other.map_err(|e| e.to_string()))),
    }
}

fn run_input(run: &mut Run, ctx: &mut Ctx, line: &str) {
    let line = line.trim();
    if let Some(rest) = line.strip_prefix("x/") {
        if let Some((ext, h)) = rest.split_once('/') {
            file_case(run, ctx, ext, &unhex(h));
        }
    } else if let Some(h) = line.strip_prefix("y/") {
        crate::c11load::probe_file(run, ctx, &unhex(h));
    } else if let Some(rest) = line.strip_prefix("z/") {
        if let Some((ext, h)) = rest.split_once('/') {
            crate::c11load::load_raw(run, ctx, ext, &unhex(h));
        }
    } else if let Some(rest) = line.strip_prefix("s/") {
        let p: Vec<&str> = rest.split('/').collect();
        if p.len() == 3 {
            if let (Ok(l), Ok(pad)) = (p[0].parse::<usize>(), p[1].parse::<u8>()) {
                string_case(run, l, pad, &unhex(p[2]));
            }
        }
    } else if let Some(rest) = line.strip_prefix("su/") {
        let p: Vec<&str> = rest.split('/').collect();
        if p.len() == 3 {
            if let (Ok(l), Ok(pad)) = (p[0].parse::<usize>(), p[1].parse::<u8>()) {
                crate::sauceuni::string_case(run, l, pad, &String::from_utf8_lossy(&unhex(p[2])));
            }
        }
    } else if let Some(rest) = line.strip_prefix("p/") {
        if let Some((ext, s)) = rest.split_once('/') {
            if let Ok(s) = s.parse::<u64>() {
                picture_case(run, ext, s);
            }
        }
    } else if let Some(rest) = line.strip_prefix("big/") {
        if let Ok(e) = rest.parse::<usize>() {
            big_case(run, e);
        }
    } else if let Some(c) = Case::decode(line) {
        run_case(run, ctx, &c);
    } else {
        eprintln!("c11: cannot parse input {}", &line[..line.len().min(80)]);
    }
}

/// an engine-written `content + EOF + [COMNT] + record` with `nc` comments
fn base_file(r: &mut Rng, nc: usize, content: &[u8]) -> Vec<u8> {
    let c = Case {
        mode: 'm',
        target: format!("k{}", r.pick(&[2usize, 2, 1, 7, 8, 4, 6])),
        w: r.range(1, 300) as i32,
        h: 25,
        ice: r.chance(1, 2),
        ar: r.chance(1, 2),
        ls: r.chance(1, 2),
        has: true,
        font: gen_font(r),
        title: gen_field(r, 35),
        author: gen_field(r, 20),
        group: gen_field(r, 20),
        vec: vec![],
        comments: (0..nc).map(|_| gen_comment(r)).collect(),
    };
    let buf = c.buffer(false);
    let mut v = content.to_vec();
    let _ = buf.write_sauce_info(KINDS[c.kind()], &mut v);
    v
}

fn set_width_obs(w: i32) -> String {
    let mut b = Buffer::new((7, 7));
    let mut sd = SauceData::default();
    sd.buffer_size = Size::new(w, 25);
    b.set_sauce(Some(sd), true);
    b.get_width().to_string()
}

pub fn run(run: &mut Run, seed: u64, thorough: bool, replay: Option<&str>, corpus: &[String]) {
    let mut ctx = Ctx { dates: HashMap::new() };
    if let Some(r) = replay {
        run_input(run, &mut ctx, r);
        return;
    }
    for c in corpus {
        run_input(run, &mut ctx, c);
    }
    let mut rng = Rng::new(seed);
    let mult = if thorough { 30 } else { 3 };

    // constants as seen by the compiled crate vs the translator's
    {
        let t = ss_bytes(&SauceString::<35, b' '>::new());
        let c = ss_bytes(&SauceString::<64, 0>::new());
        let mut v = Vec::new();
        let _ = Buffer::new((80, 25)).write_sauce_info(SauceFileType::Ansi, &mut v);
        let sd = SauceData::default();
        let (a, g) = (ss_bytes(&sd.author), ss_bytes(&sd.group));
        let obs = format!("{} {} {} {} {} {} {} {} {} {} 22 0 255 1000 80", v.len() - 1, v[0], t.len(), t[0], a.len(), a[0], g.len(), g[0], c.len(), c[0]);
        run.case("sauce consts", &obs);
    }

    // which SAUCE variant each writer appends and the loader's default width (the translator's table vs the compiled crate)
    for ext in EXTS {
        let mut b = Buffer::new((80, 1));
        b.ice_mode = IceMode::Ice;
        b.set_sauce(Some(SauceData::default()), false);
        let mut o = SaveOptions::new();
        o.save_sauce = true;
        let kind = match b.to_bytes(ext, &o) {
            Ok(bytes) => match Buffer::from_bytes(&PathBuf::from(format!("c11.{}", ext)), false, &bytes) {
                Ok(l) => l.get_sauce().as_ref().map(|s| KIND_NAMES.iter().position(|n| *n == format!("{:?}", s.sauce_file_type)).unwrap_or(99)).unwrap_or(98),
                Err(_) => 97,
            },
            Err(_) => 96,
        };
        // default width: what the loader makes of an empty file (formats with a mandatory header: the table value)
        let defw = match ext {
            "ans" | "asc" | "avt" | "pcb" | "bin" => Buffer::from_bytes(&PathBuf::from(format!("c11.{}", ext)), false, &[]).map(|b| b.get_width()).unwrap_or(-1),
            _ => 80,
        };
        run.case(&format!("sauce loader {}", ext), &format!("{} {}", kind, defw));
    }

    // 1. metadata through write_sauce_info, every SauceFileType, arbitrary existing vector contents
    for k in 0..9 {
        for i in 0..(28 * mult) {
            let c = gen_case(&mut rng, &format!("k{}", k), i % 9 == 0);
            run_case(run, &mut ctx, &c);
        }
    }
    // all flag combinations x every kind, fixed strings
    for k in 0..9 {
        for f in 0..16 {
            let c = Case {
                mode: 'm',
                target: format!("k{}", k),
                w: 80 + f,
                h: 25,
                ice: f & 1 != 0,
                ar: f & 2 != 0,
                ls: f & 4 != 0,
                has: f & 8 != 0,
                font: b"IBM VGA".to_vec(),
                title: b"T".to_vec(),
                author: b"A".to_vec(),
                group: b"G".to_vec(),
                vec: vec![],
                comments: vec![b"x".to_vec()],
            };
            run_case(run, &mut ctx, &c);
        }
    }
    // widths 1..=1000 (thorough: all; quick: a seeded sample) through the Ansi and Bin variants
    let widths: Vec<i32> = if thorough { (0..=1002).collect() } else { (0..40).map(|_| rng.range(0, 1002) as i32).chain([0, 1, 2, 1000, 1001]).collect() };
    for w in widths {
        for k in [2usize, 7] {
            let c = Case { mode: 'm', target: format!("k{}", k), w, h: 3, ice: false, ar: false, ls: false, has: false, font: vec![], title: vec![], author: vec![], group: vec![], vec: vec![b'x'], comments: vec![] };
            run_case(run, &mut ctx, &c);
        }
        run.case(&format!("sauce setw {}", w), &set_width_obs(w));
    }
    for w in [65535, 32768, 5000] {
        run.case(&format!("sauce setw {}", w), &set_width_obs(w));
    }
    // comment counts 0..=255 (thorough: all; quick: boundary + sample)
    let counts: Vec<usize> = if thorough { (0..=257).collect() } else { vec![0, 1, 2, 3, 127, 128, 254, 255, 256] };
    for n in counts {
        let c = Case {
            mode: 'm',
            target: "k2".into(),
            w: 80,
            h: 25,
            ice: false,
            ar: true,
            ls: false,
            has: true,
            font: b"IBM VGA".to_vec(),
            title: b"count".to_vec(),
            author: vec![],
            group: vec![],
            vec: b"abc".to_vec(),
            comments: (0..n).map(|i| format!("line {}", i).into_bytes()).collect(),
        };
        run_case(run, &mut ctx, &c);
    }

    // 2. every writer that appends SAUCE: to_bytes / extract / from_bytes
    for ext in EXTS {
        for i in 0..(14 * mult) {
            let c = gen_case(&mut rng, ext, thorough && i % 20 == 0);
            run_case(run, &mut ctx, &c);
        }
        for i in 0..(6 * mult as u64) {
            picture_case(run, ext, rng.next() ^ i);
        }
    }

    // 3. arbitrary content (incl. SAUCE/COMNT look-alikes at its end) + EOF + SAUCE at loader defaults
    for ext in EXTS {
        if ext == "icy" {
            continue;
        }
        // a loadable base content for the binary formats, plain text for the others
        let base: Vec<u8> = match ext {
            "xb" | "tnd" | "adf" | "idf" => {
                let mut b = Buffer::new((80, 2));
                b.ice_mode = IceMode::Ice;
                fill_cells(&mut b, &[1, 2, 3]);
                let mut o = SaveOptions::new();
                o.compress = false;
                b.to_bytes(ext, &o).unwrap_or_default()
            }
            "bin" => (0..rng.below(40) * 2).map(|_| rng.range(32, 126) as u8).collect(),
            _ => b"Hello, world\r\nsecond line".to_vec(),
        };
        for _ in 0..(10 * mult) {
            let content = gen_marker_content(&mut rng, &base);
            let mut c = gen_case(&mut rng, ext, false);
            c.mode = 'c';
            c.w = if ext == "bin" { 160 } else { 80 };
            c.h = 25;
            c.ice = false;
            c.font = cp_bytes(&BitFont::default().name);
            c.vec = content;
            if c.comments.len() > 255 {
                c.comments.truncate(255);
            }
            run_case(run, &mut ctx, &c);
        }
    }

    // 4. truncated / corrupted tails, arbitrary records
    for nc in [0usize, 1, 2, 3] {
        for _ in 0..(2 * mult) {
            let clen = *rng.pick(&[0usize, 1, 2, 7, 40]);
            let content: Vec<u8> = (0..clen).map(|_| rng.range(32, 126) as u8).collect();
            let f = base_file(&mut rng, nc, &content);
            let tail_len = f.len() - content.len();
            // every suffix around the structure boundaries (thorough: every suffix)
            let mut cuts: Vec<usize> = if thorough {
                (0..=f.len()).collect()
            } else {
                let mut v = vec![0, 1, 2, clen, clen + 1, clen + 2, clen + 5, clen + 6, clen + 7, f.len() - 129, f.len() - 128, f.len() - 127, f.len() - 1, f.len()];
                for _ in 0..6 {
                    v.push(rng.below(f.len() as u64 + 1) as usize);
                }
                v
            };
            cuts.retain(|c| *c <= f.len());
            cuts.sort();
            cuts.dedup();
            for cut in cuts {
                file_case(run, &mut ctx, "ans", &f[cut..]);
            }
            // truncation at the end
            for k in [1usize, 2, 22, 23, 127, 128, tail_len] {
                if k <= f.len() {
                    file_case(run, &mut ctx, "ans", &f[..f.len() - k]);
                }
            }
            // the comment count field says something else than the block holds
            for n in [0u8, 1, 2, 3, 4, 5, 200, 255] {
                let mut g = f.clone();
                let p = g.len() - 128 + 104;
                g[p] = n;
                file_case(run, &mut ctx, *rng.pick(&["ans", "bin", "asc"]), &g);
                if content.is_empty() {
                    // … and no content / no EOF byte in front
                    file_case(run, &mut ctx, "ans", &g[1..]);
                }
            }
            // single-byte corruptions of the record (thorough: every offset)
            let offs: Vec<usize> = if thorough {
                (0..128).collect()
            } else {
                vec![0, 4, 5, 6, 7, 41, 42, 82, 85, 89, 90, 94, 95, 96, 97, 98, 99, 104, 105, 106, 127].into_iter().chain((0..8).map(|_| rng.below(128) as usize)).collect()
            };
            for o in offs {
                let mut g = f.clone();
                let p = g.len() - 128 + o;
                g[p] = match rng.below(4) {
                    0 => 0,
                    1 => b' ',
                    2 => g[p] ^ (1 << rng.below(8)),
                    _ => rng.next() as u8,
                };
                file_case(run, &mut ctx, "ans", &g);
            }
            // COMNT id / EOF byte corrupted
            if nc > 0 {
                for o in 0..6 {
                    let mut g = f.clone();
                    g[content.len() + o] ^= 0x20;
                    file_case(run, &mut ctx, "ans", &g);
                }
            }
        }
    }
    // every kind of 128-byte tail starting with SAUCE, behind 0.. bytes of anything
    for i in 0..(150 * mult) {
        let mut rec = b"SAUCE".to_vec();
        rec.extend(match rng.below(6) {
            0 => *b"01",
            1 => [rng.next() as u8, rng.next() as u8],
            _ => *b"00",
        });
        rec.extend(gen_bytes(&mut rng, 75));
        rec.extend(match rng.below(8) {
            0 => b"00000000".to_vec(),
            1 => b"20231301".to_vec(),
            2 => b"2023 101".to_vec(),
            3 => b"+2023011".to_vec(),
            4 => rng.bytes(8),
            5 => b"20240229".to_vec(),
            _ => format!("{:04}{:02}{:02}", rng.range(1, 9999), rng.range(1, 12), rng.range(1, 28)).into_bytes(),
        });
        rec.extend(rng.bytes(4));
        rec.push(*rng.pick(&[0u8, 1, 1, 1, 5, 6, 2, 8, 9, 255]));
        rec.push(*rng.pick(&[0u8, 1, 1, 2, 3, 4, 5, 8, 40, 80, 255]));
        rec.extend(rng.bytes(8));
        rec.push(*rng.pick(&[0u8, 0, 0, 1, 2, 255]));
        rec.push(rng.next() as u8);
        rec.extend(gen_bytes(&mut rng, 22));
        debug_assert_eq!(rec.len(), 128);
        let plen = *rng.pick(&[0usize, 0, 1, 2, 5, 63, 64, 68, 69, 70, 71, 133, 134, 135, 200]);
        let mut f: Vec<u8> = match rng.below(3) {
            0 => vec![0x1A; plen],
            1 => rng.bytes(plen),
            _ => {
                let mut p = b"COMNT".to_vec();
                p.extend(gen_bytes(&mut rng, plen));
                p.truncate(plen);
                if i % 2 == 0 && p.len() >= 70 {
                    let s = p.len() - 69;
                    p[s..s + 5].copy_from_slice(b"COMNT");
                }
                p
            }
        };
        f.extend(&rec);
        file_case(run, &mut ctx, if i % 5 == 0 { "bin" } else { "ans" }, &f);
    }
    // short and SAUCE-less files
    for n in [0usize, 1, 5, 7, 127, 128, 129, 200] {
        let f = rng.bytes(n);
        file_case(run, &mut ctx, "ans", &f);
        let mut g = f.clone();
        if n >= 5 {
            g[..5].copy_from_slice(b"SAUCE");
            file_case(run, &mut ctx, "ans", &g);
        }
    }

    // 5. SauceString on its own
    for (len, pad) in [(35usize, 32u8), (20, 32), (64, 0), (22, 0), (5, 32), (5, 0), (4, 46)] {
        for _ in 0..(50 * mult) {
            let n = match rng.below(6) {
                0 => len,
                1 => len + rng.below(4) as usize,
                2 => rng.below(3) as usize,
                _ => rng.below(len as u64 + 1) as usize,
            };
            let mut d = gen_field(&mut rng, n.max(1));
            d.truncate(n + 3);
            string_case(run, len, pad, &d);
        }
        // exhaustive short strings over {letter, blank, NUL, pad}
        if thorough || len <= 5 {
            let alpha = [b'a', b' ', 0u8, pad];
            let maxl = if thorough { 6 } else { 4 };
            for l in 0..=maxl {
                for code in 0..4usize.pow(l as u32) {
                    let d: Vec<u8> = (0..l).map(|i| alpha[(code >> (2 * i)) & 3]).collect();
                    string_case(run, len, pad, &d);
                }
            }
        }
        // reading from raw bytes incl. too-short slices
        for _ in 0..(10 * mult) {
            let n = rng.below(len as u64 + 4) as usize;
            let d = gen_bytes(&mut rng, n);
            if let Some(obs) = ss_dispatch!(len, pad, str_read, &d) {
                run.case(&format!("sauce str {} {} {}", len, pad, hex(&d)), &obs);
            }
        }
    }
    for _ in 0..(100 * mult) {
        let a = gen_field(&mut rng, 12);
        let mut b = a.clone();
        match rng.below(4) {
            0 => b.push(b' '),
            1 => b.push(0),
            2 => {
                b = strip(&b).to_vec();
            }
            _ => b = gen_field(&mut rng, 12),
        }
        let eq = str_eq::<64, 0>(&a, &b);
        run.case(&format!("sauce eq {} {}", hex(&a), hex(&b)), b01(eq));
        if eq != (strip(&a) == strip(&b)) {
            run.oracle_fail("string-eq", &format!("s/64/0/{}", hex(&a)), "SauceString equality is not equality up to trailing blanks/NULs");
        }
    }

    // 5b. SauceString on Rust strings: the CP437 <-> Unicode layer (own generator state)
    crate::sauceuni::cases(run, &mut Rng::new(seed ^ 0x5A11), thorough);

    // 5c. the split as the format loader sees it: probe through the .asc loader, composed load of the binary formats,
    // boundary comment counts for every writer (own generator state)
    crate::c11load::cases(run, &mut ctx, &mut Rng::new(seed ^ 0xC11F), thorough);

    // 6. a file of 2 GiB and a bit (the length does not fit i32)
    for extra in [0usize, 100, 16325] {
        big_case(run, extra);
    }
    let injective = (0..256).all(|i| (0..i).all(|j| CP437_TO_UNICODE[i] != CP437_TO_UNICODE[j]));
    if !injective {
        run.oracle_fail("harness-assumption", "-", "CP437_TO_UNICODE is not injective: the harness cannot build SauceStrings from bytes faithfully");
    }
    run.extra.push(("cp437_table_injective".into(), injective.to_string()));
    run.extra.push(("exhaustive_widths_0_1002".into(), thorough.to_string()));
    run.extra.push(("exhaustive_comment_counts_0_257".into(), thorough.to_string()));
    run.extra.push(("every_suffix_and_every_record_offset".into(), thorough.to_string()));
    run.extra.push(("date_parser_verdicts_from_impl".into(), ctx.dates.len().to_string()));
}
