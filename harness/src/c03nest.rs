//! C03, "a bound enforced at ONE of several entry points": generator families that reach every bounded loop / recursion of the
//! terminal code through EVERY call path the translator finds (tools/gens/macroentry.py, `Gen.MacroEntry.entryEdges`), and the
//! nesting oracle of macro replay.
//!
//! Macro replay is the one native recursion of the parser (`print_char -> invoke_macro_by_id -> print_char`).  It is entered
//! through two call paths - the `CSI Pn * z` handler and state `ReadPossibleMacroInDCS` (an `ESC [ Pn * z` met while a DCS
//! string is being recorded is executed at once) - and limited by `MAX_MACRO_DEPTH` inside `invoke_macro_by_id`.  The
//! families below build self-recursive, mutually recursive (cycles of 2 and 3), alternating and fan-out macros whose every
//! level prints a marker, through BOTH paths and their mixtures, from hex definitions, hex definitions with repeat groups,
//! text definitions and definitions spliced together by an in-DCS invocation; the oracle counts the markers on the real
//! terminal (run on a thread with a 2 GiB stack, so that a missing limit is reported as a number and not as a dead worker):
//! `markers <= bound`, where the bound is `MAX_MACRO_DEPTH` (read from the source) x markers per level (x the fan-out sum).
//! Every case is ALSO an ordinary stream case: state correspondence with the model after every character.
use crate::term::*;
use crate::util::*;
use icy_engine::TextPane;

/// entry point (as named by the translator) -> the generator family that goes through it
pub const ENTRY_FAMILIES: &[(&str, &str)] = &[
    ("invoke_macro_by_id <- parsers/ansi/mod.rs::print_char[ReadPossibleMacroInDCS]", "nest:dcs.* alt.* sat.* splice.*"),
    ("invoke_macro <- parsers/ansi/mod.rs::print_char[EndCSI]", "nest:csi.* alt.* textleaf.*"),
    ("invoke_macro_by_id <- parsers/ansi/ansi_commands.rs::invoke_macro", "nest:csi.* alt.* textleaf.*"),
    ("print_char <- parsers/ansi/mod.rs::invoke_macro_by_id", "nest:*"),
    ("print_char <- parsers/ansi/mod.rs::print_char[ReadRIPSupportRequest]", "nest:ripfb.*"),
    ("execute_dcs <- parsers/ansi/mod.rs::print_char[RecordDCSEscape]", "nest:dcs.* entry:*"),
    ("parse_macro <- parsers/ansi/dcs.rs::execute_dcs", "nest:* (every definition)"),
    ("parse_macro_sequence <- parsers/ansi/dcs.rs::parse_macro", "nest:textleaf.* splice.* (text definitions)"),
    ("parse_hex_macro_sequence <- parsers/ansi/dcs.rs::parse_macro", "nest:* (hex definitions) entry:hexrep.*"),
    ("push_repeated <- parsers/ansi/dcs.rs::parse_hex_macro_sequence", "nest:*.rep3 entry:hexrep.closed.*"),
    ("push_repeated <- parsers/ansi/dcs.rs::parse_hex_macro_sequence #2", "entry:hexrep.open.*"),
    ("Sixel::parse_from <- parsers/ansi/dcs.rs::execute_dcs", "entry:sixel.*"),
    ("Sixel::parse_from <- parsers/ansi/dcs.rs::execute_dcs #2", "entry:sixel.* (the same call without the verification gate)"),
    ("print_char <- parsers/avatar/mod.rs::print_fallback", "nest:*@avatar"),
    ("print_char <- parsers/avatar/mod.rs::print_char", "nest:avtrep.*"),
    ("print_char <- parsers/pcboard/mod.rs::print_char", "nest:*@pcboard"),
    ("print_char <- parsers/renegade/mod.rs::print_char", "nest:*@renegade"),
    ("print_char <- parsers/ctrla/mod.rs::print_char", "nest:ctrla.*"),
    ("print_char <- parsers/ctrla/mod.rs::print_char #2", "nest:*@ctrla"),
    ("parse_sixel_data <- sixel_mod.rs::parse_char", "sixel payloads of c03.rs (data)"),
    ("parse_sixel_data <- sixel_mod.rs::parse_char #2", "sixel payloads of c03.rs (data after a colour definition)"),
    ("parse_sixel_data <- sixel_mod.rs::parse_char #3", "sixel payloads of c03.rs (data after raster attributes)"),
    ("parse_sixel_data <- sixel_mod.rs::parse_char #4", "sixel payloads of c03.rs (repeat loop) entry:sixel.*"),
];

const STACK: usize = 1 << 31;

/// `MAX_MACRO_DEPTH` as the source has it (the constant is private to the crate)
pub fn macro_depth_limit() -> usize {
    let repo = std::env::var("VERIF_REPO").unwrap_or_else(|_| "/repo".to_string());
    let text = std::fs::read_to_string(std::path::Path::new(&repo).join("src/parsers/ansi/mod.rs")).unwrap_or_default();
    text.split("const MAX_MACRO_DEPTH: usize = ").nth(1).and_then(|r| r.split(';').next()).and_then(|v| v.trim().parse().ok()).expect("MAX_MACRO_DEPTH not found in the source")
}

fn tok(label: &str, s: &str) -> Token {
    Token { label: label.to_string(), chars: s.chars().collect() }
}
fn hx(s: &str) -> String {
    s.chars().map(|c| format!("{:02X}", c as u32)).collect()
}

/// one macro: `pre` + marker x `k` + `suf`
#[derive(Clone)]
struct Mac {
    id: String,
    pre: String,
    k: usize,
    suf: String,
}

#[derive(Clone, Copy, PartialEq)]
enum DefKind {
    /// `ESC P id;0;1 !z <hex> ESC \`
    Hex,
    /// the markers as a repeat group `!k;58;`
    HexRep,
    /// the hex digits come out of a TEXT macro invoked while the definition is being recorded
    Splice,
}

fn definition(m: &Mac, kind: DefKind, splice_id: u32) -> Vec<Token> {
    let marks = "X".repeat(m.k);
    match kind {
        DefKind::Hex => vec![tok("DCS!z.NEST", &format!("\x1bP{};0;1!z{}\x1b\\", m.id, hx(&format!("{}{}{}", m.pre, marks, m.suf))))],
        DefKind::HexRep => vec![tok("DCS!z.NEST", &format!("\x1bP{};0;1!z{}!{};58;{}\x1b\\", m.id, hx(&m.pre), m.k, hx(&m.suf)))],
        DefKind::Splice => vec![
            tok("DCS!z.NESTtext", &format!("\x1bP{};0;0!z{}\x1b\\", splice_id, hx(&format!("{}{}{}", m.pre, marks, m.suf)))),
            tok("DCS!z.NESTsplice", &format!("\x1bP{};0;1!z\x1b[{}*z\x1b\\", m.id, splice_id)),
        ],
    }
}

const ST: &str = "\x1b\\";

/// how a level hands over to the next one
#[derive(Clone, Copy, PartialEq, Debug)]
enum Mode {
    /// entered in the default state; `X ESC [ next * z`
    C,
    /// entered while a DCS is recorded; closes it, prints, re-opens it and invokes inside: `ESC \ X ESC P ESC [ next * z`
    D,
    /// entered in the default state, invokes inside a DCS
    CD,
    /// entered while a DCS is recorded, invokes through the CSI handler
    DC,
    /// like C with the RIP-support-request fallback (`ESC [ !` + a character that is not `p`: tail call of print_char) in front
    Rip,
}

fn mac(id: &str, mode: Mode, next: &str, k: usize, pad: usize) -> Mac {
    let p = "p".repeat(pad);
    let (pre, suf) = match mode {
        Mode::C => (String::new(), format!("{}\x1b[{}*z", p, next)),
        Mode::D => (ST.to_string(), format!("\x1bP{}\x1b[{}*z", p, next)),
        Mode::CD => (String::new(), format!("\x1bP{}\x1b[{}*z", p, next)),
        Mode::DC => (ST.to_string(), format!("{}\x1b[{}*z", p, next)),
        Mode::Rip => (String::new(), format!("{}\x1b[!\x1b[{}*z", p, next)),
    };
    Mac { id: id.to_string(), pre, k, suf }
}

fn nest_label(fam: &str, bound: usize) -> String {
    format!("NESTDCS.{}.le{}", fam, bound)
}

/// (family, emulation, w, h, tokens)
fn case(fam: &str, emu: Emu, w: i32, h: i32, defs: Vec<Token>, top: &str, bound: usize) -> String {
    let mut t = defs;
    t.push(tok(&nest_label(fam, bound), top));
    // close a DCS that may still be open, then something visible
    t.push(tok("post", "\x1b\\Z\n"));
    case_line(emu, w, h, &t)
}

const IDS: [&str; 10] = ["1", "5", "9", "12", "63", "64", "255", "1000", "65535", "2147483599"];

fn pick_ids(rng: &mut Rng, n: usize) -> Vec<String> {
    let mut v: Vec<String> = Vec::new();
    while v.len() < n {
        let c = rng.pick(&IDS[..]).to_string();
        if !v.contains(&c) {
            v.push(c);
        }
    }
    v
}

pub fn nest_cases(rng: &mut Rng, thorough: bool) -> Vec<String> {
    let limit = macro_depth_limit();
    let mut v: Vec<String> = Vec::new();
    let a0 = Emu::Ansi(0);
    // --- the shortest inputs first: a self-recursive macro through each path, 37..40 bytes ---
    for (fam, m, top) in [
        ("dcs.self.seedlike", mac("5", Mode::D, "5", 1, 0), "\x1b[5*z"),
        ("csi.self.short", mac("5", Mode::C, "5", 1, 0), "\x1b[5*z"),
        ("dcs.self.topdcs.short", mac("5", Mode::D, "5", 1, 0), "\x1bP\x1b[5*z"),
    ] {
        v.push(case(fam, a0, 80, 25, definition(&m, DefKind::Hex, 0), top, limit));
    }
    // --- cycles of 1..3 macros x path pattern x top-level path x padding x definition kind ---
    let patterns: [(&str, &[Mode]); 6] = [
        ("csi", &[Mode::C]),
        ("dcs", &[Mode::D]),
        ("alt", &[Mode::CD, Mode::DC]),
        ("alt2", &[Mode::DC, Mode::C, Mode::CD]),
        ("ripfb", &[Mode::Rip]),
        ("mix", &[Mode::D, Mode::DC, Mode::CD]),
    ];
    for (pname, modes) in patterns {
        for cyc in 1..=3usize {
            for top_dcs in [false, true] {
                for pad in [0usize, 40, 600] {
                    for kind in [DefKind::Hex, DefKind::HexRep, DefKind::Splice] {
                        let plain = pad == 0 && kind == DefKind::Hex;
                        if !thorough && !plain && !rng.chance(1, 4) {
                            continue;
                        }
                        // a level that invokes inside a DCS must be followed by one that expects to be entered there
                        let in_dcs_exit = |m: Mode| matches!(m, Mode::D | Mode::CD);
                        let in_dcs_entry = |m: Mode| matches!(m, Mode::D | Mode::DC);
                        if (0..cyc).any(|i| in_dcs_exit(modes[i % modes.len()]) && !in_dcs_entry(modes[((i + 1) % cyc) % modes.len()])) {
                            continue;
                        }
                        let ids = pick_ids(rng, cyc);
                        let k = if kind == DefKind::HexRep { 3 } else { 1 };
                        let mut defs = Vec::new();
                        for i in 0..cyc {
                            let mode = modes[i % modes.len()];
                            let m = mac(&ids[i], mode, &ids[(i + 1) % cyc], k, pad);
                            defs.extend(definition(&m, kind, 200 + i as u32));
                        }
                        // the first level is entered from the top-level stream: inside a DCS or through the CSI handler
                        let first_in_dcs = matches!(modes[0], Mode::D | Mode::DC);
                        if top_dcs && !first_in_dcs {
                            continue;
                        }
                        let top = if top_dcs { format!("\x1bP\x1b[{}*z", ids[0]) } else { format!("\x1b[{}*z", ids[0]) };
                        let (w, h) = *rng.pick(&[(80, 25), (80, 25), (132, 60), (7, 4)]);
                        let emu = if rng.chance(1, 4) { *rng.pick(&[Emu::Avatar, Emu::PCBoard, Emu::Renegade, Emu::CtrlA]) } else { a0 };
                        let fam = format!("{}.cyc{}.{}.pad{}.{}@{}", pname, cyc, if top_dcs { "topdcs" } else { "topcsi" }, pad,
                            match kind { DefKind::Hex => "hex", DefKind::HexRep => "rep3", DefKind::Splice => "splice" }, emu.name());
                        v.push(case(&fam, emu, w, h, defs, &top, limit * k));
                    }
                }
            }
        }
    }
    // --- in-DCS invocation WITHOUT re-opening the DCS: the digits of the nested invocation are appended to the old number ---
    // (a) the number saturates at 2147483599 (`parse_next_number`): macro 2147483599 invokes itself whatever digit follows
    for (top, pad) in [("\x1bP\x1b[2147483599*z", 0usize), ("\x1bP\x1b[99999999999*z", 0), ("\x1bP\x1b[2147483647*z", 500)] {
        let m = Mac { id: "2147483599".into(), pre: format!("{}\x1b[7*z{}", "p".repeat(pad), ST), k: 1, suf: String::new() };
        v.push(case(&format!("sat.self.pad{}", pad), a0, 80, 25, definition(&m, DefKind::Hex, 0), top, limit));
    }
    // (b) the chain 5 -> 55 -> 555 -> ... -> 555555555 -> (saturated) 2147483599 -> itself
    {
        let mut defs = Vec::new();
        let mut id = String::new();
        for _ in 0..9 {
            id.push('5');
            defs.extend(definition(&Mac { id: id.clone(), pre: format!("\x1b[5*z{}", ST), k: 1, suf: String::new() }, DefKind::Hex, 0));
        }
        defs.extend(definition(&Mac { id: "2147483599".into(), pre: format!("\x1b[5*z{}", ST), k: 1, suf: String::new() }, DefKind::Hex, 0));
        v.push(case("sat.chain", a0, 80, 25, defs, "\x1bP\x1b[5*z", limit));
    }
    // --- fan-out 2 through each path: every level invokes the next one twice ---
    let fan_sum = (1usize << limit.min(12)) - 1;
    {
        let m = Mac { id: "3".into(), pre: String::new(), k: 1, suf: "\x1b[3*z\x1b[3*z".into() };
        v.push(case("csi.fan2", a0, 80, 25, definition(&m, DefKind::Hex, 0), "\x1b[3*z", fan_sum));
        let m = Mac { id: "3".into(), pre: ST.into(), k: 1, suf: format!("\x1bP\x1b[3*z{}\x1bP\x1b[3*z", ST) };
        v.push(case("dcs.fan2", a0, 132, 60, definition(&m, DefKind::Hex, 0), "\x1bP\x1b[3*z", fan_sum));
    }
    // --- the marker is printed by a TEXT macro (a leaf invoked from every level) ---
    for (fam, body, top) in [
        ("textleaf.csi", "\x1b[77*z\x1b[4*z".to_string(), "\x1b[4*z"),
        ("textleaf.dcs", format!("{}\x1b[77*z\x1bP\x1b[4*z", ST), "\x1bP\x1b[4*z"),
    ] {
        let defs = vec![tok("DCS!z.NESTtext", "\x1bP77;0;0!zX\x1b\\"), tok("DCS!z.NEST", &format!("\x1bP4;0;1!z{}\x1b\\", hx(&body)))];
        v.push(case(fam, a0, 80, 25, defs, top, limit));
    }
    // --- Avatar: the repeat command hands `z` to the ANSI parser while it waits for the final byte of `CSI 6 *` ---
    {
        let m = mac("6", Mode::C, "6", 1, 0);
        v.push(case("avtrep.csi", Emu::Avatar, 80, 25, definition(&m, DefKind::Hex, 0), "\x1b[6*\x19z\x03", limit));
        let m = mac("6", Mode::D, "6", 1, 0);
        v.push(case("avtrep.dcs", Emu::Avatar, 80, 25, definition(&m, DefKind::Hex, 0), "\x1bP\x1b[6*\x19z\x03", limit));
    }
    // --- Ctrl-A: a literal ^A (`^A^A`) goes through the wrapped parser while a macro is being defined and invoked ---
    {
        let m = mac("6", Mode::D, "6", 1, 0);
        let mut defs = vec![tok("print", "\x01\x01")];
        defs.extend(definition(&m, DefKind::Hex, 0));
        v.push(case("ctrla.dcs", Emu::CtrlA, 80, 25, defs, "\x01\x01\x1b[6*z", limit));
    }
    // --- structured random chains: random handing-over per level, random top ---
    for _ in 0..(if thorough { 1500 } else { 60 }) {
        let cyc = 1 + rng.below(3) as usize;
        let ids = pick_ids(rng, cyc);
        let k = 1 + rng.below(2) as usize;
        let kind = *rng.pick(&[DefKind::Hex, DefKind::Hex, DefKind::HexRep, DefKind::Splice]);
        let mut defs = Vec::new();
        for i in 0..cyc {
            let mode = *rng.pick(&[Mode::C, Mode::D, Mode::CD, Mode::DC, Mode::Rip]);
            let pad = *rng.pick(&[0usize, 0, 7, 100, 1000]);
            defs.extend(definition(&mac(&ids[i], mode, &ids[(i + 1) % cyc], k, pad), kind, 300 + i as u32));
        }
        let top = if rng.chance(1, 2) { format!("\x1bP\x1b[{}*z", ids[0]) } else { format!("\x1b[{}*z", ids[0]) };
        let (w, h) = *rng.pick(&[(80, 25), (132, 60), (7, 4), (1, 1)]);
        v.push(case("rnd.chain", a0, w, h, defs, &top, limit * k));
    }
    v
}

/// the OTHER bounded loops through their other entry points: REP, hex repeat groups and the sixel decoder reached from inside a
/// macro replay (both paths) and from a definition spliced together inside a DCS.  No nesting oracle: per-token time, row
/// growth, the address-space cap and the state correspondence of ordinary stream cases.
pub fn entry_cases() -> Vec<String> {
    let a0 = Emu::Ansi(0);
    let mut v: Vec<String> = Vec::new();
    let big = ["2147483647", "99999999999", "65536"];
    let mut push = |fam: &str, defs: Vec<Token>, top: &str| {
        let mut t = defs;
        t.push(tok(&format!("ENTRYDCS.{}", fam), top));
        t.push(tok("post", "\x1b\\Z\n"));
        v.push(case_line(a0, 80, 25, &t));
    };
    for n in big {
        // REP inside a macro that is entered while a DCS is recorded
        let body = format!("{}Q\x1b[{}b", ST, n);
        push("rep.indcs", vec![tok("DCS!z.ENTRY", &format!("\x1bP1;0;1!z{}\x1b\\", hx(&body)))], "\x1bP\x1b[1*z");
        // a hex definition with a repeat group, executed by a macro replay (CSI path / in-DCS path), closed by `;` and open
        for (shape, grp) in [("closed", format!("!{};41;", n)), ("open", format!("!{};41", n))] {
            let inner = format!("\x1bP2;0;1!z{}{}", grp, ST);
            push(&format!("hexrep.{}.csi", shape), vec![tok("DCS!z.ENTRY", &format!("\x1bP1;0;1!z{}\x1b\\", hx(&inner)))], "\x1b[1*z\x1b[2*z");
            let inner_d = format!("{}{}", ST, inner);
            push(&format!("hexrep.{}.indcs", shape), vec![tok("DCS!z.ENTRY", &format!("\x1bP1;0;1!z{}\x1b\\", hx(&inner_d)))], "\x1bP\x1b[1*z\x1b[2*z");
            // the repeat group comes out of a text macro spliced into the definition
            push(&format!("hexrep.{}.splice", shape), vec![tok("DCS!z.ENTRYtext", &format!("\x1bP7;0;0!z{}\x1b\\", grp))], "\x1bP2;0;1!z\x1b[7*z\x1b\\\x1b[2*z");
        }
        // sixel: repeat count / raster size, decoder started by a macro replay and by a spliced DCS
        for (shape, payload) in [("repeat", format!("!{}~", n)), ("raster", format!("\"1;1;{};{}~", n, n)), ("colour", format!("#{};1;0;0;0~", n))] {
            let inner = format!("\x1bPq{}{}", payload, ST);
            push(&format!("sixel.{}.csi", shape), vec![tok("DCS!z.ENTRY", &format!("\x1bP1;0;1!z{}\x1b\\", hx(&inner)))], "\x1b[1*z");
            let inner_d = format!("{}{}", ST, inner);
            push(&format!("sixel.{}.indcs", shape), vec![tok("DCS!z.ENTRY", &format!("\x1bP1;0;1!z{}\x1b\\", hx(&inner_d)))], "\x1bP\x1b[1*z");
            push(&format!("sixel.{}.splice", shape), vec![tok("DCS!z.ENTRYtext", &format!("\x1bP7;0;0!z{}\x1b\\", payload))], "\x1bPq\x1b[7*z\x1b\\");
        }
    }
    v
}

fn labels_of(line: &str) -> &str {
    line.split_whitespace().nth(4).unwrap_or("")
}

pub fn is_nest(line: &str) -> bool {
    labels_of(line).contains("NESTDCS.")
}

/// `nest:<family>` / `entry:<family>` bucket of a case line
pub fn family_of(line: &str) -> Option<String> {
    let l = labels_of(line);
    if let Some(r) = l.split("NESTDCS.").nth(1) {
        let fam = r.split(".le").next().unwrap_or("?");
        // bucket = pattern, cycle length and top-level path (padding / emulation are printed by other buckets)
        let mut parts: Vec<&str> = fam.split('@').next().unwrap_or(fam).split('.').collect();
        parts.retain(|p| !p.starts_with("pad"));
        return Some(format!("nest:{}", parts.join(".")));
    }
    l.split("ENTRYDCS.").nth(1).map(|r| format!("entry:{}", r.split('*').next().unwrap_or("?")))
}

fn bound_of(line: &str) -> Option<usize> {
    let r = labels_of(line).split("NESTDCS.").nth(1)?;
    let r = r.split(".le").nth(1)?;
    let digits: String = r.chars().take_while(|c| c.is_ascii_digit()).collect();
    digits.parse().ok()
}

static VIOLATIONS: std::sync::atomic::AtomicUsize = std::sync::atomic::AtomicUsize::new(0);

/// Runs the nesting oracle of one case in the worker: `N <markers> <bound> <ms> <limit>`.  Returns false when the ordinary
/// stream run must not follow (the markers exceeded the bound: the same stream would overflow the worker's own stack).
pub fn nest_case(line: &str, emit: &mut dyn FnMut(String)) -> bool {
    use std::sync::atomic::Ordering;
    if VIOLATIONS.load(Ordering::SeqCst) >= 2 {
        // two streams of this worker already nested beyond the limit (each costs seconds and a gigabyte of stack): the rest is not run
        emit("NSKIP".into());
        return false;
    }
    let (Some((emu, w, h, chars, _)), Some(bound)) = (parse_case(line), bound_of(line)) else {
        emit("BAD".into());
        return false;
    };
    let limit = macro_depth_limit();
    let th = std::thread::Builder::new().stack_size(STACK).spawn(move || {
        let mut t = Term::new(emu, w, h);
        let t0 = Stopwatch::start();
        for ch in chars {
            if let Outcome::Panic(_, _) = t.feed(ch) {
                break;
            }
        }
        let l = &t.buf.layers[0];
        let tw = t.buf.terminal_state.get_width().max(w);
        let marks: usize = (0..l.lines.len() as i32).map(|y| (0..tw).filter(|x| l.get_char((*x, y)).ch == 'X').count()).sum();
        (marks, t0.ms())
    });
    let Ok(th) = th else {
        emit("BAD".into());
        return false;
    };
    match th.join() {
        Ok((marks, ms)) => {
            emit(format!("N {} {} {} {}", marks, bound, ms, limit));
            if marks > bound {
                VIOLATIONS.fetch_add(1, Ordering::SeqCst);
                return false;
            }
            true
        }
        Err(_) => {
            emit("BAD".into());
            false
        }
    }
}
