//! C11, second part: the SAUCE split of `Buffer::from_bytes` AS THE FORMAT LOADER SEES IT.
//!
//! `c11.rs` ties `SauceData::extract` / `write_sauce_info` to the model.  What `Buffer::from_bytes` does with the
//! header length (which bytes it hands to `extract`, how `len` is computed, what slice the loader gets) had no
//! observation of its own.  Two families close that:
//!
//! * probe (`sauce split …`, replay `f/…` and `y/<hex>`): the `.asc` loader draws every byte of the probe alphabet
//!   `D` = {0x1A} ∪ 0x21..=0x7E as one non-blank cell, in reading order.  For a file `P ++ T` with `P` ∈ D* the cells
//!   of the loaded buffer ARE the bytes the loader was given — so "content recovered byte for byte" is observable
//!   through the public API.  Correspondence: the model's `fromBytesSplit`; oracle (`cut-exact`): for an
//!   engine-written `P ++ EOF ++ [COMNT block] ++ record` the loader gets exactly `P` and the record.
//! * binary formats (`sauceload load …`, replay `l/…` and `z/<ext>/<hex>`): `Buffer::from_bytes` on xb/bin/adf/idf/tnd
//!   files with 0, 1, 254, 255 comment lines vs the composed model `SauceLoad.fromBytes` (= `fromBytesSplit` of
//!   Model/Sauce.lean, then `loadBody` of Model/BinFormats.lean); oracle (`picture`): at loader defaults the picture
//!   equals the picture of the content alone.
use crate::c11::*;
use crate::util::*;
use icy_engine::{Buffer, SauceData, SaveOptions, TextPane, FORMATS};
use std::collections::BTreeMap;
use std::panic::AssertUnwindSafe;
use std::path::PathBuf;

// ------------------------------------------------------------------------------------------------ probe

/// probe alphabet: 0x1A (the EOF byte itself is drawn by the .asc loader) and the printable non-blank ASCII range
fn in_d(b: u8) -> bool {
    b == 0x1A || (0x21..=0x7E).contains(&b)
}
fn d_prefix(f: &[u8]) -> usize {
    f.iter().position(|b| !in_d(*b)).unwrap_or(f.len())
}

/// cells of the loaded buffer in reading order as bytes, without the blank cells at the end
fn read_cells(b: &Buffer) -> Vec<u8> {
    let mut v = Vec::new();
    let (w, h) = (b.get_width(), b.get_height().min(5000));
    for y in 0..h {
        for x in 0..w {
            let c = b.get_char((x, y)).ch as u32;
            v.push(if c > 255 { 0xFF } else { c as u8 });
        }
    }
    while matches!(v.last(), Some(0) | Some(b' ')) {
        v.pop();
    }
    v
}

/// one file through `Buffer::from_bytes("….asc")`; `expect` = (P, number of comment lines) for engine-written files
fn split_probe(run: &mut Run, ctx: &mut Ctx, file: &[u8], input: &str, expect: Option<(&[u8], usize)>) {
    let dok = if file.len() >= 128 { ctx.date_ok(&file[file.len() - 128 + 82..file.len() - 128 + 90]) } else { true };
    // where the engine's own `extract` (tied to the model by the `sauce extract` lines) puts the cut: the probe can
    // only answer when the loader is handed nothing beyond the D-prefix of the file
    let cut_eng = match catch(|| SauceData::extract(file).map(|o| o.map(|s| s.sauce_header_len))) {
        Ok(Ok(Some(hl))) => file.len().saturating_sub(hl),
        _ => file.len(),
    };
    let dp = d_prefix(file);
    let loaded = from_bytes_case(run, "asc", file, input);
    run.nontrivial(fnv(file.iter().map(|b| *b as u64).chain([0x5111, file.len() as u64])));
    let seen = loaded.as_ref().map(|b| (read_cells(b), b.get_sauce().as_ref().map(|s| s.comments.len())));
    let obs = if cut_eng > dp {
        run.count("probe:beyond(no SAUCE found or cut inside it)");
        "beyond".to_string()
    } else {
        match &seen {
            None => "fail".to_string(),
            Some((cells, s)) => format!(
                "text {} s={}",
                hex(cells),
                match s {
                    None => "-".to_string(),
                    Some(n) => n.to_string(),
                }
            ),
        }
    };
    run.case(&format!("sauce split {} {}", b01(dok), hex(file)), &obs);
    if let Some((p, nc)) = expect {
        run.count(&format!(
            "probe:engine-written:comments:{}",
            match nc {
                0 => "0",
                1 => "1",
                254 => "254",
                255 => "255",
                _ => "other",
            }
        ));
        match &seen {
            None => run.oracle_fail("cut-exact", input, "Buffer::from_bytes fails on printable content + EOF + engine-written SAUCE"),
            Some((cells, s)) => {
                if cells != p {
                    let what = if cells.len() > p.len() && cells.starts_with(p) {
                        format!("{} metadata byte(s) interpreted as content (first: {:#04x})", cells.len() - p.len(), cells[p.len()])
                    } else if cells.len() < p.len() && p.starts_with(cells) {
                        format!("{} content byte(s) lost", p.len() - cells.len())
                    } else {
                        "the loader saw different bytes".to_string()
                    };
                    run.oracle_fail(
                        "cut-exact",
                        input,
                        &format!("{} content bytes + EOF + SAUCE with {} comment lines: the loader was handed {} bytes: {}", p.len(), nc, cells.len(), what),
                    );
                }
                if *s != Some(nc) {
                    run.oracle_fail("cut-exact", input, &format!("the loaded buffer carries {:?} comment lines, the file {}", s, nc));
                }
            }
        }
        // the second loader call of from_bytes: an extension no format claims falls back to the ANSI loader, which draws
        // the probe alphabet the same way
        if let Some(b) = from_bytes_case(run, "c11-no-such-format", file, input) {
            let cells = read_cells(&b);
            if cells != p {
                run.oracle_fail(
                    "cut-exact",
                    input,
                    &format!("unknown extension (ANSI fallback): {} content bytes + EOF + SAUCE with {} comment lines: the loader was handed {} bytes", p.len(), nc, cells.len()),
                );
            }
        }
    } else {
        run.count("probe:variant");
    }
}

/// mode 'f': printable content `vec` + what `write_sauce_info(kind)` appends
pub(crate) fn probe_case(run: &mut Run, ctx: &mut Ctx, c: &Case) {
    let input = c.encode();
    let buf = c.buffer(false);
    let mut file = c.vec.clone();
    let r = catch(AssertUnwindSafe(|| buf.write_sauce_info(KINDS[c.kind()], &mut file)));
    run.count(&format!("probe:{}", KIND_NAMES[c.kind()]));
    if !matches!(r, Ok(Ok(_))) || !c.vec.iter().all(|b| in_d(*b) && *b != 0x1A) {
        run.count("probe:skipped(write failed / content outside the probe alphabet)");
        return;
    }
    let nc = if c.has { c.comments.len() } else { 0 };
    split_probe(run, ctx, &file, &input, Some((&c.vec, nc)));
}

pub(crate) fn probe_file(run: &mut Run, ctx: &mut Ctx, file: &[u8]) {
    split_probe(run, ctx, file, &format!("y/{}", hex(file)), None);
}

fn gen_probe_content(r: &mut Rng) -> Vec<u8> {
    let n = match r.below(10) {
        0 => 0,
        1 => 1,
        2 => 79,
        3 => 80,
        4 => 81,
        5 => 160,
        _ => r.below(300) as usize,
    };
    let mut c: Vec<u8> = (0..n).map(|_| r.range(0x21, 0x7E) as u8).collect();
    let junk = |r: &mut Rng, n: usize| -> Vec<u8> { (0..n).map(|_| r.range(0x21, 0x7E) as u8).collect() };
    match r.below(10) {
        0 => c.extend(b"SAUCE00"),
        1 => c.extend(b"COMNT"),
        2 => {
            c.extend(b"COMNT");
            c.extend(junk(r, 64));
        }
        3 => {
            c.extend(b"SAUCE00");
            c.extend(junk(r, 121));
        }
        4 => {
            c.extend(b"COMNT");
            c.extend(junk(r, 63));
        }
        _ => {}
    }
    c
}

fn probe_gen(r: &mut Rng, kind: usize, nc: usize) -> Case {
    let mut c = gen_case(r, &format!("k{}", kind), false);
    c.mode = 'f';
    c.has = true;
    c.w = match r.below(4) {
        0 => 80,
        1 => 1,
        _ => r.range(1, 300) as i32,
    };
    c.h = r.range(0, 60) as i32;
    c.comments = (0..nc).map(|_| gen_comment(r)).collect();
    c.vec = gen_probe_content(r);
    c
}

// ------------------------------------------------------------------------------------------------ binary formats

const BIN_EXTS: [&str; 5] = ["xb", "bin", "adf", "idf", "tnd"];

/// the line `digest` of lean/IcyVerif/Drv/BinFormats.lean prints for a loaded buffer: the C05 harness' own (since the merge of
/// the C05 work package it also carries the font names and the SAUCE data the buffer keeps)
fn digest(b: &Buffer) -> String {
    crate::c05::digest(&crate::c05::observe(b))
}

/// `Buffer::from_bytes` of a binary-format file vs the composed model
fn load_file(run: &mut Run, ctx: &mut Ctx, ext: &str, file: &[u8], input: &str) -> Option<Buffer> {
    let dok = if file.len() >= 128 { ctx.date_ok(&file[file.len() - 128 + 82..file.len() - 128 + 90]) } else { true };
    let path = PathBuf::from(format!("c11.{}", ext));
    run.nontrivial(fnv(file.iter().map(|b| *b as u64).chain([0x10AD, ext.len() as u64])));
    let (obs, b) = match catch(|| Buffer::from_bytes(&path, false, file)) {
        Err(loc) => {
            let site = panic_site(&loc);
            if is_sauce_site(&site) {
                run.oracle_fail(&site, input, &format!("Buffer::from_bytes panics at {} on a {}-byte .{} file", loc, file.len(), ext));
                ("panic".to_string(), None)
            } else {
                ("rej".to_string(), None)
            }
        }
        Ok(Err(_)) => ("rej".to_string(), None),
        Ok(Ok(b)) => (digest(&b), Some(b)),
    };
    run.count(&format!("binload:{}:{}", ext, if b.is_some() { "loaded" } else { "rejected" }));
    run.case(&format!("sauceload load {} {} {}", ext, b01(dok), hex(file)), &obs);
    b
}

pub(crate) fn load_raw(run: &mut Run, ctx: &mut Ctx, ext: &str, file: &[u8]) {
    let _ = load_file(run, ctx, ext, file, &format!("z/{}/{}", ext, hex(file)));
}

/// mode 'l': an engine-written picture saved by the format's own writer with the case's SAUCE metadata
pub(crate) fn load_case(run: &mut Run, ctx: &mut Ctx, c: &Case, rng: Option<&mut Rng>) {
    let input = c.encode();
    let ext = c.target.as_str();
    let buf = c.buffer(true);
    let mut opt = SaveOptions::new();
    opt.compress = c.ls;
    opt.save_sauce = false;
    let without = catch(AssertUnwindSafe(|| buf.to_bytes(ext, &opt)));
    opt.save_sauce = true;
    let with = catch(AssertUnwindSafe(|| buf.to_bytes(ext, &opt)));
    let nc = if c.has { c.comments.len() } else { 0 };
    run.count(&format!("binload:{}:comments:{}", ext, if nc == 0 || nc == 1 || nc >= 254 { nc.to_string() } else { "other".to_string() }));
    let (content, file) = match (without, with) {
        (Ok(Ok(a)), Ok(Ok(b))) => (a, b),
        _ => {
            run.count("binload:save-failed");
            return;
        }
    };
    if !file.starts_with(&content) || file.get(content.len()) != Some(&0x1A) {
        run.oracle_fail("split", &input, &format!(".{}: the file saved with SAUCE is not content + EOF + SAUCE", ext));
        return;
    }
    let loaded = load_file(run, ctx, ext, &file, &input);
    // the property's last sentence: width / ice / font of the record are the loader's defaults
    let defaults = c.font == cp_bytes(&icy_engine::BitFont::default().name)
        && match ext {
            "bin" => c.w == 160 && !c.ice,
            "xb" | "idf" => true,
            _ => c.w == 80,
        };
    if defaults {
        let path = PathBuf::from(format!("c11.{}", ext));
        let fmt = FORMATS.iter().find(|f| f.get_file_extension() == ext).unwrap();
        if let Ok(Ok(alone)) = catch(AssertUnwindSafe(|| fmt.load_buffer(&path, &content, None))) {
            run.count(&format!("binload:{}:picture-compared", ext));
            match &loaded {
                Some(l) => {
                    if let Some(d) = picture_diff(&picture(&alone), &picture(l)) {
                        run.oracle_fail("picture", &input, &format!(".{}: picture of content+EOF+SAUCE ({} comment lines) differs from the picture of the content alone: {}", ext, nc, d));
                    }
                    if l.get_sauce().as_ref().map(|s| s.comments.len()) != Some(nc) {
                        run.oracle_fail(&format!("load-metadata-{}", ext), &input, &format!(".{}: the loaded buffer does not carry the {} comment lines", ext, nc));
                    }
                }
                None => run.oracle_fail("picture", &input, &format!(".{}: content loads alone but not with EOF+SAUCE ({} comment lines) appended", ext, nc)),
            }
        }
    }
    // variants of the tail (the composed model must follow the real split wherever it falls)
    if let Some(r) = rng {
        let n = file.len();
        let mut vs: Vec<Vec<u8>> = Vec::new();
        // EOF byte missing
        let mut g = content.clone();
        g.extend(&file[content.len() + 1..]);
        vs.push(g);
        // comment count field says something else
        for d in [0u8, nc.wrapping_add(1) as u8, nc.wrapping_sub(1) as u8] {
            if d as usize != nc {
                let mut g = file.clone();
                g[n - 128 + 104] = d;
                vs.push(g);
            }
        }
        // record cut by one byte / one more byte in front of it / date broken
        vs.push(file[..n - 1].to_vec());
        let mut g = file.clone();
        g[n - 128 + 82] = b'x';
        vs.push(g);
        let keep = if nc >= 254 { 2 } else { 4 };
        for _ in 0..keep.min(vs.len()) {
            let i = r.below(vs.len() as u64) as usize;
            let v = vs.swap_remove(i);
            if ext == "xb" && opt.compress {
                continue; // a cut inside a run header of compressed XBin data is C05's business
            }
            load_raw(run, ctx, ext, &v);
        }
    }
}

fn load_gen(r: &mut Rng, ext: &str, nc: usize, defaults: bool) -> Case {
    let mut c = gen_case(r, ext, false);
    c.mode = 'l';
    c.has = true;
    c.comments = (0..nc).map(|_| gen_comment(r)).collect();
    c.font = match r.below(3) {
        0 if !defaults => b"No Such Font".to_vec(),
        _ => cp_bytes(&icy_engine::BitFont::default().name),
    };
    c.h = r.range(1, 4) as i32;
    c.w = match ext {
        "adf" => 80,
        "bin" => {
            if defaults {
                160
            } else {
                2 * r.range(1, 100) as i32
            }
        }
        "idf" => r.range(1, 80) as i32,
        "xb" => *r.pick(&[80, 1, 7, 40, 132]),
        _ => {
            if defaults {
                80
            } else {
                r.range(1, 200) as i32
            }
        }
    };
    c.ice = match ext {
        "adf" | "idf" | "tnd" => true,
        "bin" => !defaults && r.chance(1, 2),
        _ => r.chance(1, 2),
    };
    c.vec = r.bytes(4);
    c
}

// ------------------------------------------------------------------------------------------------ all cases

pub(crate) fn cases(run: &mut Run, ctx: &mut Ctx, rng: &mut Rng, thorough: bool) {
    let counts: Vec<usize> = if thorough { vec![0, 1, 2, 3, 63, 64, 127, 128, 200, 253, 254, 255] } else { vec![0, 1, 254, 255] };

    // probe: every SAUCE variant x boundary comment counts, printable content (incl. SAUCE/COMNT look-alike ends)
    let mut bases: Vec<(Vec<u8>, usize)> = Vec::new();
    for kind in 0..9 {
        for &nc in &counts {
            let c = probe_gen(rng, kind, nc);
            probe_case(run, ctx, &c);
            if kind == 2 || (thorough && nc <= 3) {
                let mut f = c.vec.clone();
                if c.buffer(false).write_sauce_info(KINDS[kind], &mut f).is_ok() {
                    bases.push((f, c.vec.len()));
                }
            }
        }
        for _ in 0..(if thorough { 20 } else { 2 }) {
            let nc = rng.below(6) as usize;
            let c = probe_gen(rng, kind, nc);
            probe_case(run, ctx, &c);
        }
    }
    // probe: tails that are not what the engine writes (the split must fall where the model says)
    for (f, plen) in &bases {
        let n = f.len();
        let nc = f[n - 128 + 104];
        let mut vs: Vec<Vec<u8>> = Vec::new();
        let mut g = f[..*plen].to_vec(); // EOF byte missing
        g.extend(&f[plen + 1..]);
        vs.push(g);
        vs.push(f[*plen..].to_vec()); // no content
        vs.push(f[plen + 1..].to_vec()); // no content, no EOF
        for d in [0u8, nc.wrapping_add(1), nc.wrapping_sub(1)] {
            if d != nc {
                let mut g = f.clone();
                g[n - 128 + 104] = d;
                vs.push(g);
            }
        }
        vs.push(f[..n - 1].to_vec());
        let mut g = f.clone(); // date broken
        g[n - 128 + 82] = b'x';
        vs.push(g);
        if nc > 0 {
            let mut g = f.clone(); // COMNT id broken
            g[plen + 1] ^= 0x20;
            vs.push(g);
        }
        let mut g = f.clone(); // a second EOF byte
        g.insert(*plen, 0x1A);
        vs.push(g);
        let keep = if thorough || nc < 200 { vs.len() } else { 4 };
        for _ in 0..keep.min(vs.len()) {
            let i = rng.below(vs.len() as u64) as usize;
            let v = vs.swap_remove(i);
            probe_file(run, ctx, &v);
        }
    }
    // probe: no SAUCE at all
    for _ in 0..(if thorough { 40 } else { 6 }) {
        let mut p = gen_probe_content(rng);
        if rng.chance(1, 2) {
            p.push(0x1A);
        }
        probe_file(run, ctx, &p);
    }

    // binary formats: the writer's own file with boundary comment counts; at loader defaults and elsewhere
    for ext in BIN_EXTS {
        for &nc in &counts {
            for defaults in [true, false] {
                if !defaults && nc >= 200 && !thorough && ext != "bin" {
                    continue;
                }
                let c = load_gen(rng, ext, nc, defaults);
                let mut r2 = Rng::new(rng.next());
                load_case(run, ctx, &c, Some(&mut r2));
            }
        }
    }

    // splice ('c' of c11.rs: arbitrary content + EOF + SAUCE at loader defaults, picture oracle) with boundary counts for
    // EVERY writer that appends SAUCE behind its content
    for ext in EXTS {
        if ext == "icy" {
            continue;
        }
        let base: Vec<u8> = match ext {
            "xb" | "tnd" | "adf" | "idf" => {
                let mut b = Buffer::new((80, 2));
                b.ice_mode = icy_engine::IceMode::Ice;
                fill_cells(&mut b, &rng.bytes(3));
                let mut o = SaveOptions::new();
                o.compress = false;
                b.to_bytes(ext, &o).unwrap_or_default()
            }
            "bin" => (0..rng.below(40) * 2).map(|_| rng.range(32, 126) as u8).collect(),
            _ => b"Hello, world\r\nsecond line".to_vec(),
        };
        for &nc in &counts {
            let mut c = gen_case(rng, ext, false);
            c.mode = 'c';
            c.has = true;
            c.w = if ext == "bin" { 160 } else { 80 };
            c.h = 25;
            c.ice = false;
            c.font = cp_bytes(&icy_engine::BitFont::default().name);
            c.vec = gen_marker_content(rng, &base);
            c.comments = (0..nc).map(|_| gen_comment(rng)).collect();
            run.count(&format!("splice:{}:comments:{}", ext, nc));
            run_case(run, ctx, &c);
        }
    }
    // .tnd content that places no cell (header only / position command only): the site of the repaired finding
    // `picture-tnd-no-cell` - at the default height (same picture) and at other heights (the record's height is honoured)
    for content in [&b"\x18TUNDRA24"[..], &b"\x18TUNDRA24\x01\x00\x00\x00\x02\x00\x00\x00\x05"[..]] {
        for (i, nc) in [0usize, 255, 0, 1, 0, 0].into_iter().enumerate() {
            let mut c = gen_case(rng, "tnd", false);
            c.mode = 'c';
            c.has = true;
            c.w = 80;
            c.h = match i {
                0 | 1 => 25,
                2 => 0,
                3 => 1,
                4 => 1 + rng.below(200) as i32,
                _ => *rng.pick(&[24, 26, 100, 1000]),
            };
            c.ice = false;
            c.font = cp_bytes(&icy_engine::BitFont::default().name);
            c.vec = content.to_vec();
            c.comments = (0..nc).map(|_| gen_comment(rng)).collect();
            run.count("splice:tnd:no-cell-content");
            run_case(run, ctx, &c);
            // the same file through the composed model (SauceLoad.fromBytes): the loader's height rule for a file without cells
            let mut file = c.vec.clone();
            if let Ok(Ok(_)) = catch(AssertUnwindSafe(|| c.buffer(false).write_sauce_info(KINDS[ext_kind("tnd")], &mut file))) {
                run.count(&format!("binload:tnd:no-cell:height:{}", if c.h == 25 { "default".to_string() } else if c.h == 0 { "0".to_string() } else { "other".to_string() }));
                load_raw(run, ctx, "tnd", &file);
            }
        }
    }
    // meta ('m' of c11.rs: to_bytes / extract / from_bytes of every writer) with boundary counts, incl. icy
    for ext in EXTS {
        for &nc in &counts {
            if !thorough && nc == 254 {
                continue;
            }
            let mut c = gen_case(rng, ext, false);
            c.has = true;
            c.comments = (0..nc).map(|_| gen_comment(rng)).collect();
            run.count(&format!("to_bytes:{}:comments:{}", ext, nc));
            run_case(run, ctx, &c);
        }
    }
    run.extra.push(("boundary_comment_counts_every_writer".into(), format!("{:?}", counts)));
}
