//! shared helpers: PRNG, hex, case writer
use std::fmt::Write as _;
use std::fs::File;
use std::io::{BufWriter, Write};
use std::path::{Path, PathBuf};

#[derive(Clone)]
pub struct Rng(pub u64);
impl Rng {
    pub fn new(seed: u64) -> Self {
        let mut r = Rng(seed ^ 0x9E37_79B9_7F4A_7C15);
        for _ in 0..4 {
            r.next();
        }
        r
    }
    pub fn next(&mut self) -> u64 {
        // xorshift64*
        let mut x = self.0;
        if x == 0 {
            x = 0x2545_F491_4F6C_DD1D;
        }
        x ^= x >> 12;
        x ^= x << 25;
        x ^= x >> 27;
        self.0 = x;
        x.wrapping_mul(0x2545_F491_4F6C_DD1D)
    }
    pub fn below(&mut self, n: u64) -> u64 {
        if n == 0 {
            0
        } else {
            (self.next() >> 11) % n
        }
    }
    pub fn range(&mut self, lo: i64, hi: i64) -> i64 {
        lo + self.below((hi - lo + 1) as u64) as i64
    }
    pub fn chance(&mut self, num: u64, den: u64) -> bool {
        self.below(den) < num
    }
    pub fn pick<'a, T>(&mut self, xs: &'a [T]) -> &'a T {
        &xs[self.below(xs.len() as u64) as usize]
    }
    pub fn bytes(&mut self, n: usize) -> Vec<u8> {
        (0..n).map(|_| self.next() as u8).collect()
    }
}

pub fn hex(bs: &[u8]) -> String {
    if bs.is_empty() {
        return "-".to_string();
    }
    let mut s = String::with_capacity(bs.len() * 2);
    for b in bs {
        let _ = write!(s, "{:02x}", b);
    }
    s
}

pub fn unhex(s: &str) -> Vec<u8> {
    if s == "-" {
        return Vec::new();
    }
    (0..s.len() / 2).map(|i| u8::from_str_radix(&s[2 * i..2 * i + 2], 16).unwrap()).collect()
}

pub fn fnv_step(mut h: u64, mut x: u64) -> u64 {
    for _ in 0..8 {
        h = (h ^ (x & 0xFF)).wrapping_mul(1099511628211);
        x >>= 8;
    }
    h
}
pub fn fnv(xs: impl IntoIterator<Item = u64>) -> u64 {
    xs.into_iter().fold(14695981039346656037, fnv_step)
}

/// Collects one run: ops for the model, the implementation's observations, oracle verdicts, stats.
pub struct Run {
    dir: PathBuf,
    ops: BufWriter<File>,
    imp: BufWriter<File>,
    oracle: BufWriter<File>,
    pub evaluations: u64,
    pub nontrivial: std::collections::BTreeSet<u64>,
    pub hist: std::collections::BTreeMap<String, u64>,
    pub samples: Vec<String>,
    pub oracle_failures: u64,
    pub extra: Vec<(String, String)>,
}

impl Run {
    pub fn new(dir: &Path) -> Self {
        std::fs::create_dir_all(dir).unwrap();
        let f = |n: &str| BufWriter::new(File::create(dir.join(n)).unwrap());
        Run {
            dir: dir.to_path_buf(),
            ops: f("ops.txt"),
            imp: f("impl.txt"),
            oracle: f("oracle.txt"),
            evaluations: 0,
            nontrivial: Default::default(),
            hist: Default::default(),
            samples: Vec::new(),
            oracle_failures: 0,
            extra: Vec::new(),
        }
    }
    /// one correspondence case: the request line for the model and what the implementation answered
    pub fn case(&mut self, op: &str, observed: &str) {
        debug_assert!(!op.contains('\n') && !observed.contains('\n'));
        writeln!(self.ops, "{}", op).unwrap();
        writeln!(self.imp, "{}", observed).unwrap();
        self.evaluations += 1;
        if self.samples.len() < 6 && (self.evaluations < 3 || self.evaluations % 97 == 0) {
            self.samples.push(format!("{} => {}", trunc(op), trunc(observed)));
        }
    }
    /// a distinct non-trivial case key (hashed)
    pub fn nontrivial(&mut self, key: u64) {
        self.nontrivial.insert(key);
    }
    pub fn count(&mut self, bucket: &str) {
        *self.hist.entry(bucket.to_string()).or_insert(0) += 1;
    }
    /// the property predicate failed on the implementation: key identifies the site/shape, input replays it
    pub fn oracle_fail(&mut self, key: &str, input: &str, what: &str) {
        writeln!(self.oracle, "FAIL\t{}\t{}\t{}", key, input, what.replace(['\n', '\t'], " ")).unwrap();
        self.oracle_failures += 1;
    }
    pub fn finish(mut self) {
        self.ops.flush().unwrap();
        self.imp.flush().unwrap();
        self.oracle.flush().unwrap();
        let mut s = String::new();
        s.push_str("{\n");
        let _ = write!(s, "  \"evaluations\": {},\n  \"distinct_nontrivial\": {},\n  \"oracle_failures\": {},\n", self.evaluations, self.nontrivial.len(), self.oracle_failures);
        s.push_str("  \"histogram\": {");
        let mut first = true;
        for (k, v) in &self.hist {
            if !first {
                s.push_str(", ");
            }
            first = false;
            let _ = write!(s, "{}: {}", json_str(k), v);
        }
        s.push_str("},\n  \"extra\": {");
        first = true;
        for (k, v) in &self.extra {
            if !first {
                s.push_str(", ");
            }
            first = false;
            let _ = write!(s, "{}: {}", json_str(k), json_str(v));
        }
        s.push_str("},\n  \"samples\": [");
        first = true;
        for v in &self.samples {
            if !first {
                s.push_str(", ");
            }
            first = false;
            s.push_str(&json_str(v));
        }
        s.push_str("]\n}\n");
        std::fs::write(self.dir.join("stats.json"), s).unwrap();
    }
}

fn trunc(s: &str) -> String {
    if s.len() > 160 {
        format!("{}…", &s[..160])
    } else {
        s.to_string()
    }
}

pub fn json_str(s: &str) -> String {
    let mut o = String::from("\"");
    for c in s.chars() {
        match c {
            '"' => o.push_str("\\\""),
            '\\' => o.push_str("\\\\"),
            '\n' => o.push_str("\\n"),
            '\t' => o.push_str("\\t"),
            c if (c as u32) < 0x20 => {
                let _ = write!(o, "\\u{:04x}", c as u32);
            }
            c => o.push(c),
        }
    }
    o.push('"');
    o
}

/// run `f`, mapping a panic to `Err(location)`; the panic message goes nowhere
pub fn catch<T>(f: impl FnOnce() -> T + std::panic::UnwindSafe) -> Result<T, String> {
    LAST_PANIC.with(|l| *l.borrow_mut() = None);
    match std::panic::catch_unwind(f) {
        Ok(v) => Ok(v),
        Err(_) => Err(LAST_PANIC.with(|l| l.borrow_mut().take()).unwrap_or_else(|| "unknown".to_string())),
    }
}

thread_local! {
    pub static LAST_PANIC: std::cell::RefCell<Option<String>> = const { std::cell::RefCell::new(None) };
}

pub fn install_panic_hook() {
    std::panic::set_hook(Box::new(|info| {
        let loc = info.location().map(|l| format!("{}:{}", l.file(), l.line())).unwrap_or_else(|| "?".to_string());
        LAST_PANIC.with(|l| *l.borrow_mut() = Some(loc));
    }));
}

/// map "file:line" to the enclosing `fn` name by scanning the source upward (stable under unrelated edits)
pub fn panic_site(loc: &str) -> String {
    let mut it = loc.rsplitn(2, ':');
    let line: usize = it.next().and_then(|l| l.parse().ok()).unwrap_or(0);
    let file = it.next().unwrap_or("");
    let path = if file.starts_with('/') { PathBuf::from(file) } else { Path::new(&std::env::var("VERIF_REPO").unwrap_or_else(|_| "/repo".to_string())).join(file) };
    if let Ok(text) = std::fs::read_to_string(&path) {
        let lines: Vec<&str> = text.lines().collect();
        let mut i = line.min(lines.len());
        while i > 0 {
            i -= 1;
            let l = lines[i].trim_start();
            if let Some(p) = l.find("fn ") {
                let pre = &l[..p];
                if pre.is_empty() || pre.ends_with(' ') {
                    if pre.chars().all(|c| c.is_ascii_alphanumeric() || c == ' ' || c == '(' || c == ')' || c == '_') {
                        let rest = &l[p + 3..];
                        let name: String = rest.chars().take_while(|c| c.is_alphanumeric() || *c == '_').collect();
                        if !name.is_empty() {
                            let short = file.rsplit("src/").next().unwrap_or(file);
                            return format!("{}::{}", short, name);
                        }
                    }
                }
            }
        }
    }
    format!("{}", file)
}

/// Stopwatch for the "runs for seconds" oracles that does not fire because the machine is busy: `ms()` is the CPU time
/// this thread has used (utime + stime of /proc/thread-self/stat, 10 ms ticks); a tenth of the wall-clock time is the
/// backstop for code that blocks instead of computing.
pub struct Stopwatch {
    wall: std::time::Instant,
    cpu0: Option<u128>,
}

fn thread_cpu_ms() -> Option<u128> {
    let s = std::fs::read_to_string("/proc/thread-self/stat").ok()?;
    // the command name (field 2) may contain spaces: fields are counted after the closing parenthesis
    let rest = &s[s.rfind(')')? + 1..];
    let f: Vec<&str> = rest.split_whitespace().collect();
    let ut: u128 = f.get(11)?.parse().ok()?; // field 14
    let st: u128 = f.get(12)?.parse().ok()?; // field 15
    Some((ut + st) * 10)
}

impl Stopwatch {
    pub fn start() -> Self {
        Stopwatch { wall: std::time::Instant::now(), cpu0: thread_cpu_ms() }
    }
    pub fn ms(&self) -> u128 {
        let wall = self.wall.elapsed().as_millis();
        match (self.cpu0, thread_cpu_ms()) {
            (Some(a), Some(b)) => b.saturating_sub(a).max(wall / 10).min(wall),
            _ => wall,
        }
    }
}
