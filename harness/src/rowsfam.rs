//! C01, row-table family: the shape of layer 0 (`lines.len()`, every row's `chars.len()`, layer size) after every
//! character, compared with `Model/Rows*.lean` (driver prefix `rows`), plus a generator that builds ragged row tables
//! (short rows after LF, missing rows after a clear, rows longer than the width after insert-mode prints / ICH / a
//! resize, margins, scrollback) and then runs every content command with boundary parameters.
use crate::term::*;
use crate::util::*;
use icy_engine::TextPane;

fn tk(label: &str, s: &str) -> Token {
    Token { label: label.to_string(), chars: s.chars().collect() }
}
fn tc(label: &str, cs: &[u32]) -> Token {
    Token { label: label.to_string(), chars: cs.iter().map(|c| char::from_u32(*c).unwrap()).collect() }
}

/// digest of the shape of layer 0
pub fn tab_digest(t: &Term) -> u64 {
    let l = &t.buf.layers[0];
    fnv([l.lines.len() as u64, l.get_width() as i64 as u64, l.get_height() as i64 as u64].into_iter().chain(l.lines.iter().map(|r| r.chars.len() as u64)))
}

fn rows_op(emu: Emu, w: i32, h: i32, items: &[String]) -> String {
    let its = if items.is_empty() { "-".to_string() } else { items.join(",") };
    match emu {
        Emu::Ansi(m) => format!("rows run {} 1 {} {} {}", m, w, h, its),
        Emu::Avatar | Emu::PCBoard | Emu::CtrlA | Emu::Renegade => format!("rows runw {} {} {} {}", emu.name(), w, h, its),
        _ => format!("rows runo {} {} {} {}", emu.name(), w, h, its),
    }
}

/// second pass over a case (the first one is `term::run_case_ex`): feed the stream to a fresh terminal and emit the
/// request for the row-table model (`M rows …`) and what the implementation shows (`I …`)
pub fn rows_case(line: &str, emit: &mut dyn FnMut(String)) {
    let Some((emu, w, h, chars, _labels)) = parse_case(line) else {
        return;
    };
    let mut t = Term::new(emu, w, h);
    let mut items: Vec<String> = Vec::with_capacity(chars.len());
    let mut mh: u64 = 14695981039346656037;
    let mut checkpoints: Vec<u64> = Vec::new();
    for (i, ch) in chars.iter().enumerate() {
        let line_len = t.caret_line_len();
        let out = t.feed(*ch);
        let ext = match &out {
            Outcome::Ok | Outcome::Resize(_, _) => 1,
            _ => 0,
        };
        items.push(format!("{}:{}:{}", *ch as u32, line_len, ext));
        if let Outcome::Panic(site, _) = out {
            emit(format!("M {}", rows_op(emu, w, h, &items)));
            emit(format!("I panic after {}: {}", i, site));
            return;
        }
        mh = fnv_step(mh, tab_digest(&t));
        if (i + 1) % 32 == 0 {
            checkpoints.push(mh);
        }
    }
    let l = &t.buf.layers[0];
    let cps: Vec<String> = checkpoints.iter().map(|v| v.to_string()).collect();
    emit(format!("M {}", rows_op(emu, w, h, &items)));
    emit(format!("I {} {} [{} {} {} {}] {}", chars.len(), mh, l.lines.len(), l.get_width(), l.get_height(), tab_digest(&t), cps.join(" ")));
}

/// debugging aid (`harness c01 --replay @rowsdump:<case>`): the row table after every character
pub fn dump_case(line: &str) -> String {
    let Some((emu, w, h, chars, _)) = parse_case(line) else {
        return "BAD".into();
    };
    let mut t = Term::new(emu, w, h);
    let mut out: Vec<String> = Vec::new();
    for (i, ch) in chars.iter().enumerate() {
        let r = t.feed(*ch);
        let l = &t.buf.layers[0];
        let lens: Vec<String> = l.lines.iter().map(|r| r.chars.len().to_string()).collect();
        out.push(format!("{}:{}:{}", i + 1, l.get_height(), lens.join(" ")));
        if let Outcome::Panic(site, loc) = r {
            out.push(format!("panic {} {}", site, loc));
            break;
        }
    }
    out.join("|")
}

// ------------------------------------------------------------------------------------------------
// generator

fn pnum(rng: &mut Rng, w: i32, h: i32) -> String {
    let vals: Vec<String> = vec![
        "".into(),
        "0".into(),
        "1".into(),
        "2".into(),
        "3".into(),
        (w - 1).max(0).to_string(),
        w.to_string(),
        (w + 1).to_string(),
        (h - 1).max(0).to_string(),
        h.to_string(),
        (h + 1).to_string(),
        (2 * h + 3).to_string(),
        "9999".into(),
        "2147483647".into(),
    ];
    rng.pick(&vals[..]).clone()
}

fn small(rng: &mut Rng, hi: i32) -> i32 {
    rng.range(0, hi.max(1) as i64 + 1) as i32
}

/// tokens that change the SHAPE of the row table (ANSI family)
fn ansi_shape(rng: &mut Rng, w: i32, h: i32) -> Token {
    match rng.below(16) {
        0 => tk("R:clr", "\x1b[2J"),
        1 => tk("R:ff", "\x0c"),
        2 => tk("R:lf", &"\n".repeat(rng.range(1, h as i64 + 2) as usize)),
        3 => tk("R:scrollback", &"\n".repeat(rng.range(h as i64, 2 * h as i64 + 3) as usize)),
        4 => {
            // short rows: a few characters, line feed, …
            let mut s = String::new();
            for _ in 0..rng.range(1, 4) {
                for _ in 0..small(rng, w.min(6)) {
                    s.push('x');
                }
                s.push('\n');
            }
            tk("R:short", &s)
        }
        5 => tk("R:down", &format!("\x1b[{}B", small(rng, h + 1))),
        6 => tk("R:cup", &format!("\x1b[{};{}H", small(rng, h + 1), small(rng, w + 1))),
        7 => {
            // rows longer than the layer: insert-mode prints at the start of a full row
            let n = rng.range(1, 5) as usize;
            tk("R:insprint", &format!("\x1b[4h\r{}\x1b[4l", "i".repeat(n)))
        }
        8 => tk("R:ich", &format!("\x1b[{}@", small(rng, w + 1))),
        9 => {
            let (nh, nw) = match rng.below(4) {
                0 => (small(rng, h).max(1), small(rng, w).max(1)),
                1 => (h, (w / 2).max(1)),
                2 => (h + small(rng, 5), w + small(rng, 9)),
                _ => (small(rng, 61), small(rng, 133)),
            };
            tk("R:resize", &format!("\x1b[8;{};{}t", nh, nw))
        }
        10 => {
            let a = small(rng, h);
            let b = small(rng, h + 1);
            tk("R:margins-tb", &format!("\x1b[{};{}r", a, b))
        }
        11 => {
            let a = small(rng, w);
            let b = small(rng, w + 1);
            tk("R:margins-lr", &format!("\x1b[?69h\x1b[{};{}s", a, b))
        }
        12 => tk("R:nomargins", "\x1b[=r"),
        13 => tk("R:wide-ech", &format!("\x1b[8;{};{}t\x1b[{}X", h, (w + 7).min(132), w + 7)),
        14 => tk("R:il-grow", &format!("\x1b[{}L", small(rng, h + 1))),
        _ => {
            let n = small(rng, w + 2) as usize;
            tk("R:print", &"p".repeat(n.max(1)))
        }
    }
}

/// every content command of the ANSI parser, with boundary parameters
fn ansi_content(rng: &mut Rng, w: i32, h: i32) -> Token {
    let p = pnum(rng, w, h);
    match rng.below(34) {
        0 => tk("R:ECH", &format!("\x1b[{}X", p)),
        1 => tk("R:ICH", &format!("\x1b[{}@", p)),
        2 => tk("R:DCH", &format!("\x1b[{}P", p)),
        3 => tk("R:IL", &format!("\x1b[{}L", p)),
        4 => tk("R:DL", &format!("\x1b[{}M", p)),
        5 => tk("R:ED", &format!("\x1b[{}J", rng.pick(&["", "0", "1", "2", "3", "7"]))),
        6 => tk("R:EL", &format!("\x1b[{}K", rng.pick(&["", "0", "1", "2", "7"]))),
        7 => tk("R:SU", &format!("\x1b[{}S", p)),
        8 => tk("R:SD", &format!("\x1b[{}T", p)),
        9 => tk("R:SL", &format!("\x1b[{} @", p)),
        10 => tk("R:SR", &format!("\x1b[{} A", p)),
        11 => tk("R:REP", &format!("r\x1b[{}b", p)),
        12 => tk("R:insprint1", "\x1b[4hI\x1b[4l"),
        13 => tk("R:BS", "\x08"),
        14 => tk("R:DEL", "\x7f"),
        15 => tk("R:LF", "\n"),
        16 => tk("R:RI", "\x1bM"),
        17 => tk("R:IND", "\x1bD"),
        18 => tk("R:NEL", "\x1bE"),
        19 => tk("R:CUU", &format!("\x1b[{}A", p)),
        20 => tk("R:CUD", &format!("\x1b[{}B", p)),
        21 => tk("R:RIS", "\x1bc"),
        22 => tk("R:DECFRA", &format!("\x1b[{};{};{};{};{}$x", rng.pick(&["65", "0", "55296", "1114112", "32"]), pnum(rng, w, h), pnum(rng, w, h), pnum(rng, w, h), pnum(rng, w, h))),
        23 => tk("R:DECERA", &format!("\x1b[{};{};{};{}$z", pnum(rng, w, h), pnum(rng, w, h), pnum(rng, w, h), pnum(rng, w, h))),
        24 => tk("R:DECSERA", &format!("\x1b[{};{};{};{}${{", pnum(rng, w, h), pnum(rng, w, h), pnum(rng, w, h), pnum(rng, w, h))),
        25 => tk("R:tilde", &format!("\x1b[{}~", rng.pick(&["2", "3"]))),
        26 => tk("R:print-edge", &format!("\x1b[{}G{}", w, "e".repeat(rng.range(1, 4) as usize))),
        27 => tk("R:nowrap-print", &format!("\x1b[?7l\x1b[{}G{}\x1b[?7h", w, "n".repeat(rng.range(1, 4) as usize))),
        28 => tk("R:ESCctl", &format!("\x1b{}", rng.pick(&['\n', '\x0c', '\x08', '\x1b', '\r']))),
        29 => {
            // the same commands from inside a macro
            let body = match rng.below(6) {
                0 => format!("\x1b[{}L", small(rng, h)),
                1 => format!("\x1b[{}M", small(rng, h)),
                2 => format!("\x1b[{} @", small(rng, w)),
                3 => format!("\x1b[{} A", small(rng, w)),
                4 => "\x1b[4hq\x1b[4l\n".to_string(),
                _ => format!("\x1b[2J\n\x1b[{}S", small(rng, h)),
            };
            tk("R:macro", &format!("\x1bP1;0;0!z{}\x1b\\\x1b[1*z", body))
        }
        30 => tk("R:hexmacro", "\x1bP2;0;1!z!3;1B5B4C;\x1b\\\x1b[2*z"),
        31 => tk("R:home", "\x1b[H"),
        32 => tk("R:CR", "\r"),
        _ => tk("R:cup2", &format!("\x1b[{};{}H", pnum(rng, w, h), pnum(rng, w, h))),
    }
}

fn byte_shape(rng: &mut Rng, emu: Emu, w: i32, h: i32) -> Token {
    let lf = crate::probe::lf_code(emu);
    let clear: u32 = match emu {
        Emu::Atascii => 0x7d,
        Emu::Petscii => 0x93,
        _ => 0x0c,
    };
    match rng.below(6) {
        0 => tc("R:clr", &[clear]),
        1 => tc("R:lf", &vec![lf; rng.range(1, h as i64 + 2) as usize]),
        2 => tc("R:scrollback", &vec![lf; rng.range(h as i64, 2 * h as i64 + 3) as usize]),
        3 => {
            let mut v = Vec::new();
            for _ in 0..rng.range(1, 4) {
                for _ in 0..small(rng, w.min(6)) {
                    v.push(0x41);
                }
                v.push(lf);
            }
            tc("R:short", &v)
        }
        4 => tc("R:print", &vec![0x42; rng.range(1, w as i64 + 3) as usize]),
        _ => tc("R:rowend", &vec![0x43; (w - 1).max(1) as usize]),
    }
}

fn byte_content(rng: &mut Rng, emu: Emu) -> Token {
    match emu {
        Emu::Atascii => {
            let c = *rng.pick(&[0x9cu32, 0x9d, 0xfe, 0xff, 0x7e, 0x1c, 0x1d, 0x1e, 0x1f, 0x9b, 0x7d, 0x1b, 0x41, 0xc1]);
            tc(&format!("R:ata{:02x}", c), &[c])
        }
        Emu::Petscii => {
            let v: Vec<u32> = match rng.below(14) {
                0 => vec![0x1b, b'D' as u32],
                1 => vec![0x1b, b'I' as u32],
                2 => vec![0x1b, b'Q' as u32],
                3 => vec![0x1b, b'P' as u32],
                4 => vec![0x1b, b'@' as u32],
                5 => vec![0x0e],
                6 => vec![0x8e],
                7 => vec![0x14],
                8 => vec![0x11],
                9 => vec![0x91],
                10 => vec![0x93],
                11 => vec![0x0d],
                12 => vec![0x1b, b'K' as u32, 0x41],
                _ => vec![0xff],
            };
            tc(&format!("R:pet{:02x}{}", v[0], if v.len() > 1 { format!("{:02x}", v[1]) } else { String::new() }), &v)
        }
        Emu::Viewdata => {
            let v: Vec<u32> = match rng.below(8) {
                0 => vec![0x1b, *rng.pick(&[0x5cu32, 0x5d, 0x49, 0x4c, 0x58, 0x59, 0x5e, 0x5a])],
                1 => vec![0x1b, *rng.pick(&[0x41u32, 0x47, 0x51, 0x57, 0x48, 0x4d, 0x5f])],
                2 => vec![0x0c],
                3 => vec![0x0a],
                4 => vec![0x09],
                5 => vec![0x1b, 0x59, 0x1b, 0x58],
                6 => vec![0x1e],
                _ => vec![0x41],
            };
            tc("R:vd", &v)
        }
        Emu::Mode7 => {
            let c = *rng.pick(&[129u32, 135, 136, 137, 140, 141, 145, 151, 152, 153, 154, 156, 157, 158, 159, 127, 9, 10, 12, 30, 0x41, 200]);
            tc(&format!("R:m7-{}", c), &[c])
        }
        Emu::Ascii => {
            let c = *rng.pick(&[0x08u32, 0x7f, 0x0a, 0x0c, 0x0d, 0x41]);
            tc(&format!("R:asc{:02x}", c), &[c])
        }
        _ => tc("R:print1", &[0x41]),
    }
}

fn wrapper_content(rng: &mut Rng, emu: Emu, w: i32, h: i32) -> Token {
    match emu {
        Emu::Avatar => match rng.below(5) {
            0 => tc("R:avt-clr", &[0x0c]),
            1 => tc("R:avt-rep-lf", &[0x19, 0x0a, small(rng, h + 2) as u32]),
            2 => tc("R:avt-rep-print", &[0x19, 0x41, small(rng, w + 2) as u32]),
            3 => tc("R:avt-rep-del", &[0x19, 0x7f, small(rng, w + 2) as u32]),
            _ => tc("R:avt-goto", &[0x16, 8, small(rng, h + 1) as u32, small(rng, w + 1) as u32]),
        },
        Emu::CtrlA => {
            let c = *rng.pick(&['L', 'J', '>', ']', 'A', '<', '\'']);
            tk(&format!("R:ctrla-{}", c.escape_default()), &format!("\x01{}", c))
        }
        _ => ansi_content(rng, w, h),
    }
}

fn size(rng: &mut Rng) -> (i32, i32) {
    // mostly small screens: the cost of a scroll / repaint command is proportional to the screen area (times the
    // clamped parameter), and what matters here is the shape of the rows, not their number
    match rng.below(40) {
        0 => (132, 60),
        1..=3 => (80, 25),
        4..=6 => (1, 1),
        7..=11 => (rng.range(1, 4) as i32, rng.range(1, 4) as i32),
        _ => (rng.range(2, 40) as i32, rng.range(2, 14) as i32),
    }
}

/// the cases of the row-table family (ordinary case lines; the labels carry the shape / command names)
pub fn cases(seed: u64, thorough: bool) -> Vec<String> {
    let mut rng = Rng::new(seed ^ 0x5eed_0f_0a_0b);
    let mut out: Vec<String> = Vec::new();
    let n = if thorough { 6000 } else { 700 };
    for k in 0..n {
        let emu = match k % 16 {
            0..=6 => Emu::Ansi(0),
            7 => Emu::Ansi(1),
            8 => Emu::Avatar,
            9 => Emu::CtrlA,
            10 => *rng.pick(&[Emu::PCBoard, Emu::Renegade]),
            11 => Emu::Petscii,
            12 => Emu::Atascii,
            13 => Emu::Viewdata,
            14 => Emu::Mode7,
            _ => Emu::Ascii,
        };
        let (w, h) = size(&mut rng);
        let mut toks: Vec<Token> = Vec::new();
        let rounds = rng.range(1, 4);
        for _ in 0..rounds {
            for _ in 0..rng.range(0, 4) {
                toks.push(if emu.ansi_family() { ansi_shape(&mut rng, w, h) } else { byte_shape(&mut rng, emu, w, h) });
            }
            for _ in 0..rng.range(1, 5) {
                toks.push(if matches!(emu, Emu::Ansi(_)) {
                    ansi_content(&mut rng, w, h)
                } else if emu.ansi_family() {
                    if rng.chance(1, 2) {
                        wrapper_content(&mut rng, emu, w, h)
                    } else {
                        ansi_content(&mut rng, w, h)
                    }
                } else {
                    byte_content(&mut rng, emu)
                });
            }
        }
        out.push(case_line(emu, w, h, &toks));
    }
    // systematic part: every fixed shape x every content command with a small and a boundary parameter, on a 5x3
    // screen (ANSI), so that each (shape, command) pair is met on every run
    let (w, h) = (5, 3);
    let shapes: Vec<Vec<Token>> = vec![
        vec![],
        vec![tk("R:clr", "\x1b[2J")],
        vec![tk("R:clr", "\x1b[2J"), tk("R:lf", "\n\n")],
        vec![tk("R:clr", "\x1b[2J"), tk("R:short", "ab\nc\n\nd")],
        vec![tk("R:clr", "\x1b[2J"), tk("R:down", "\x1b[2B")],
        vec![tk("R:insprint", "\x1b[4hiii\x1b[4l")],
        vec![tk("R:resize", "\x1b[8;2;3t")],
        vec![tk("R:wide-ech", "\x1b[8;3;9t\x1b[9X")],
        vec![tk("R:scrollback", "\n\n\n\n\n\n\n")],
        vec![tk("R:margins-tb", "\x1b[2;3r")],
        vec![tk("R:margins-lr", "\x1b[?69h\x1b[2;4s")],
        vec![tk("R:margins-tb", "\x1b[1;2r"), tk("R:margins-lr", "\x1b[?69h\x1b[3;5s"), tk("R:clr", "\x1b[2J"), tk("R:short", "a\n")],
        vec![tk("R:scrollback", "\n\n\n\n\n"), tk("R:clr", "\x1b[2J"), tk("R:il-grow", "\x1b[3;1H\x1b[3L")],
    ];
    let mut cmds: Vec<Token> = Vec::new();
    for p in ["", "1", "2", "5", "6", "9999"] {
        for (l, f) in [("ECH", "X"), ("ICH", "@"), ("DCH", "P"), ("IL", "L"), ("DL", "M"), ("SU", "S"), ("SD", "T"), ("SL", " @"), ("SR", " A"), ("CUU", "A"), ("CUD", "B")] {
            cmds.push(tk(&format!("R:{}", l), &format!("\x1b[{}{}", p, f)));
        }
        cmds.push(tk("R:REP", &format!("r\x1b[{}b", p)));
    }
    for p in ["", "0", "1", "2"] {
        cmds.push(tk("R:ED", &format!("\x1b[{}J", p)));
        cmds.push(tk("R:EL", &format!("\x1b[{}K", p)));
    }
    for s in ["\x1b[4hI\x1b[4l", "\x08", "\x7f", "\n", "\x1bM", "\x1bD", "\x1bE", "\x1bc", "\x0c", "\x1b[65;1;1;9;9$x", "\x1b[2;2;3;3$z", "\x1b[0;0;9999;9999${", "\x1b[2~", "\x1b[3~", "\x1b[5Gee", "\x1b[?7l\x1b[5Gnn"] {
        cmds.push(tk("R:misc", s));
    }
    for sh in &shapes {
        for pos in ["", "\x1b[3;5H", "\x1b[2;2H"] {
            for c in &cmds {
                let mut toks = sh.clone();
                if !pos.is_empty() {
                    toks.push(tk("R:cup", pos));
                }
                toks.push(c.clone());
                toks.push(tk("R:after", "z\n"));
                out.push(case_line(Emu::Ansi(0), w, h, &toks));
            }
        }
    }
    out
}

/// input distribution of the family: one count per distinct `R:` label of a case
pub fn count_labels(run: &mut Run, case: &str) {
    if let Some(labels) = case.split_whitespace().nth(4) {
        let mut seen: Vec<&str> = Vec::new();
        for part in labels.split(',') {
            if let Some((lab, _)) = part.rsplit_once('*') {
                if lab.starts_with("R:") && !seen.contains(&lab) {
                    seen.push(lab);
                    // group the per-code labels of the byte-oriented emulations
                    let b: String = if lab.starts_with("R:ata") || lab.starts_with("R:pet") || lab.starts_with("R:m7-") || lab.starts_with("R:asc") || lab.starts_with("R:ctrla") || lab.starts_with("R:avt") {
                        lab.chars().take(6).collect()
                    } else {
                        lab.to_string()
                    };
                    run.count(&format!("rows:{}", b.trim_start_matches("R:")));
                }
            }
        }
    }
}
