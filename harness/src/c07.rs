//! C07: the native IcyDraw format is lossless.
//!
//! Documents are described by a `DocSpec` (one whitespace-free token = replay input).  For every document the
//! harness (1) builds a `Buffer` through the public API, (2) saves it with `Buffer::to_bytes("icy", lossless)`,
//! (3) walks the PNG ITSELF (hand-written chunk walker + inflate + base64, no code shared with the engine except
//! `get_crc32`, which C19 ties) and hands every chunk payload to the model (byte-for-byte comparison with
//! `encodeLayer` / `encodeHeader` / the chunk sequence), (4) loads the file back with `Buffer::from_bytes` and
//! compares the loaded layer with `decodeLayer` of the actual payload, (5) ORACLE: compares source and loaded
//! document field by field (the property itself, independent of the model).
//! A second stream feeds malformed layer payloads (wrapped into a hand-built PNG) to the real loader to tie the
//! model's explicit Err / panic outcomes.
use crate::util::*;
use icy_engine::{
    attribute, AttributedChar, BitFont, Buffer, BufferType, Color, FontMode, IceMode, Layer, Line, Mode, Palette, PaletteMode, Role, SauceData, SauceString,
    SaveOptions, TextAttribute, TextPane,
};
use std::collections::BTreeMap;
use std::fmt::Write as _;
use std::path::Path;

// ------------------------------------------------------------------------------------------------ inflate / png / base64

struct Br<'a> {
    d: &'a [u8],
    p: usize,
    acc: u32,
    n: u32,
}
impl<'a> Br<'a> {
    fn bits(&mut self, k: u32) -> Result<u32, String> {
        while self.n < k {
            if self.p >= self.d.len() {
                return Err("deflate: out of input".into());
            }
            self.acc |= (self.d[self.p] as u32) << self.n;
            self.p += 1;
            self.n += 8;
        }
        let v = if k == 0 { 0 } else { self.acc & ((1u32 << k) - 1) };
        self.acc >>= k;
        self.n -= k;
        Ok(v)
    }
}
struct Huff {
    count: [u16; 16],
    symbol: Vec<u16>,
}
fn huff(lengths: &[u8]) -> Huff {
    let mut count = [0u16; 16];
    for &l in lengths {
        count[l as usize] += 1;
    }
    let mut offs = [0u16; 16];
    for l in 1..15 {
        offs[l + 1] = offs[l] + count[l];
    }
    let mut symbol = vec![0u16; lengths.len()];
    for (s, &l) in lengths.iter().enumerate() {
        if l != 0 {
            symbol[offs[l as usize] as usize] = s as u16;
            offs[l as usize] += 1;
        }
    }
    count[0] = 0;
    Huff { count, symbol }
}
fn hdecode(br: &mut Br, h: &Huff) -> Result<u16, String> {
    let (mut code, mut first, mut index) = (0i32, 0i32, 0i32);
    for len in 1..=15 {
        code |= br.bits(1)? as i32;
        let count = h.count[len] as i32;
        if code - count < first {
            return Ok(h.symbol[(index + (code - first)) as usize]);
        }
        index += count;
        first += count;
        first <<= 1;
        code <<= 1;
    }
    Err("deflate: bad code".into())
}
const LBASE: [u16; 29] = [3, 4, 5, 6, 7, 8, 9, 10, 11, 13, 15, 17, 19, 23, 27, 31, 35, 43, 51, 59, 67, 83, 99, 115, 131, 163, 195, 227, 258];
const LEXT: [u8; 29] = [0, 0, 0, 0, 0, 0, 0, 0, 1, 1, 1, 1, 2, 2, 2, 2, 3, 3, 3, 3, 4, 4, 4, 4, 5, 5, 5, 5, 0];
const DBASE: [u16; 30] = [
    1, 2, 3, 4, 5, 7, 9, 13, 17, 25, 33, 49, 65, 97, 129, 193, 257, 385, 513, 769, 1025, 1537, 2049, 3073, 4097, 6145, 8193, 12289, 16385, 24577,
];
const DEXT: [u8; 30] = [0, 0, 0, 0, 1, 1, 2, 2, 3, 3, 4, 4, 5, 5, 6, 6, 7, 7, 8, 8, 9, 9, 10, 10, 11, 11, 12, 12, 13, 13];

fn inflate(src: &[u8]) -> Result<Vec<u8>, String> {
    let mut br = Br { d: src, p: 0, acc: 0, n: 0 };
    let mut out: Vec<u8> = Vec::new();
    loop {
        let fin = br.bits(1)?;
        let ty = br.bits(2)?;
        match ty {
            0 => {
                br.acc = 0;
                br.n = 0;
                if br.p + 4 > src.len() {
                    return Err("deflate: stored header".into());
                }
                let len = src[br.p] as usize | (src[br.p + 1] as usize) << 8;
                let nlen = src[br.p + 2] as usize | (src[br.p + 3] as usize) << 8;
                if len != (!nlen & 0xFFFF) {
                    return Err("deflate: stored len".into());
                }
                br.p += 4;
                if br.p + len > src.len() {
                    return Err("deflate: stored data".into());
                }
                out.extend_from_slice(&src[br.p..br.p + len]);
                br.p += len;
            }
            1 | 2 => {
                let (lh, dh) = if ty == 1 {
                    let mut l = [0u8; 288];
                    for (i, x) in l.iter_mut().enumerate() {
                        *x = if i < 144 {
                            8
                        } else if i < 256 {
                            9
                        } else if i < 280 {
                            7
                        } else {
                            8
                        };
                    }
                    (huff(&l), huff(&[5u8; 30]))
                } else {
                    let nlen = br.bits(5)? as usize + 257;
                    let ndist = br.bits(5)? as usize + 1;
                    let ncode = br.bits(4)? as usize + 4;
                    const ORDER: [usize; 19] = [16, 17, 18, 0, 8, 7, 9, 6, 10, 5, 11, 4, 12, 3, 13, 2, 14, 1, 15];
                    let mut cl = [0u8; 19];
                    for &o in ORDER.iter().take(ncode) {
                        cl[o] = br.bits(3)? as u8;
                    }
                    let ch = huff(&cl);
                    let mut lens = vec![0u8; nlen + ndist];
                    let mut i = 0;
                    while i < nlen + ndist {
                        let s = hdecode(&mut br, &ch)?;
                        if s < 16 {
                            lens[i] = s as u8;
                            i += 1;
                        } else {
                            let (v, rep) = match s {
                                16 => {
                                    if i == 0 {
                                        return Err("deflate: repeat".into());
                                    }
                                    (lens[i - 1], 3 + br.bits(2)? as usize)
                                }
                                17 => (0, 3 + br.bits(3)? as usize),
                                _ => (0, 11 + br.bits(7)? as usize),
                            };
                            if i + rep > nlen + ndist {
                                return Err("deflate: lengths".into());
                            }
                            for _ in 0..rep {
                                lens[i] = v;
                                i += 1;
                            }
                        }
                    }
                    (huff(&lens[..nlen]), huff(&lens[nlen..]))
                };
                loop {
                    let s = hdecode(&mut br, &lh)? as usize;
                    if s < 256 {
                        out.push(s as u8);
                    } else if s == 256 {
                        break;
                    } else {
                        let s = s - 257;
                        if s >= 29 {
                            return Err("deflate: length symbol".into());
                        }
                        let len = LBASE[s] as usize + br.bits(LEXT[s] as u32)? as usize;
                        let ds = hdecode(&mut br, &dh)? as usize;
                        if ds >= 30 {
                            return Err("deflate: dist symbol".into());
                        }
                        let dist = DBASE[ds] as usize + br.bits(DEXT[ds] as u32)? as usize;
                        if dist > out.len() {
                            return Err("deflate: distance".into());
                        }
                        for _ in 0..len {
                            out.push(out[out.len() - dist]);
                        }
                    }
                }
            }
            _ => return Err("deflate: block type".into()),
        }
        if fin == 1 {
            break;
        }
    }
    Ok(out)
}

fn adler32(d: &[u8]) -> u32 {
    let (mut a, mut b) = (1u32, 0u32);
    for &x in d {
        a = (a + x as u32) % 65521;
        b = (b + a) % 65521;
    }
    (b << 16) | a
}

fn zlib_inflate(d: &[u8]) -> Result<Vec<u8>, String> {
    if d.len() < 6 || d[0] & 0x0F != 8 || ((d[0] as u32) << 8 | d[1] as u32) % 31 != 0 || d[1] & 0x20 != 0 {
        return Err("zlib header".into());
    }
    let out = inflate(&d[2..d.len() - 4])?;
    let want = u32::from_be_bytes(d[d.len() - 4..].try_into().unwrap());
    if adler32(&out) != want {
        return Err("zlib adler32".into());
    }
    Ok(out)
}

fn zlib_stored(d: &[u8]) -> Vec<u8> {
    let mut o = vec![0x78, 0x01];
    if d.is_empty() {
        o.extend([1, 0, 0, 0xFF, 0xFF]);
    }
    let n = d.chunks(65535).count();
    for (i, c) in d.chunks(65535).enumerate() {
        o.push(if i + 1 == n { 1 } else { 0 });
        o.extend((c.len() as u16).to_le_bytes());
        o.extend((!(c.len() as u16)).to_le_bytes());
        o.extend(c);
    }
    o.extend(adler32(d).to_be_bytes());
    o
}

const B64: &[u8; 64] = b"ABCDEFGHIJKLMNOPQRSTUVWXYZabcdefghijklmnopqrstuvwxyz0123456789+/";
fn b64_decode(t: &[u8]) -> Result<Vec<u8>, String> {
    if t.len() % 4 != 0 {
        return Err("base64 length".into());
    }
    let mut out = Vec::with_capacity(t.len() / 4 * 3);
    for (qi, q) in t.chunks(4).enumerate() {
        let mut v = [0u32; 4];
        let mut pad = 0;
        for i in 0..4 {
            if q[i] == b'=' {
                if qi * 4 + 4 != t.len() || i < 2 {
                    return Err("base64 padding".into());
                }
                pad += 1;
            } else {
                if pad > 0 {
                    return Err("base64 padding".into());
                }
                v[i] = B64.iter().position(|c| *c == q[i]).ok_or("base64 char")? as u32;
            }
        }
        let n = v[0] << 18 | v[1] << 12 | v[2] << 6 | v[3];
        out.push((n >> 16) as u8);
        if pad < 2 {
            out.push((n >> 8) as u8);
        }
        if pad < 1 {
            out.push(n as u8);
        }
    }
    Ok(out)
}
fn b64_encode(d: &[u8]) -> Vec<u8> {
    let mut o = Vec::with_capacity(d.len().div_ceil(3) * 4);
    for c in d.chunks(3) {
        let n = (c[0] as u32) << 16 | (*c.get(1).unwrap_or(&0) as u32) << 8 | *c.get(2).unwrap_or(&0) as u32;
        o.push(B64[(n >> 18) as usize & 63]);
        o.push(B64[(n >> 12) as usize & 63]);
        o.push(if c.len() > 1 { B64[(n >> 6) as usize & 63] } else { b'=' });
        o.push(if c.len() > 2 { B64[n as usize & 63] } else { b'=' });
    }
    o
}

/// all zTXt chunks of a PNG, in file order: (keyword, base64-decoded payload)
fn png_text_chunks(png: &[u8]) -> Result<Vec<(String, Vec<u8>)>, String> {
    if png.len() < 8 || png[..8] != [0x89, b'P', b'N', b'G', 13, 10, 26, 10] {
        return Err("png signature".into());
    }
    let mut o = 8;
    let mut res = Vec::new();
    while o + 12 <= png.len() {
        let len = u32::from_be_bytes(png[o..o + 4].try_into().unwrap()) as usize;
        if o + 12 + len > png.len() {
            return Err("png chunk length".into());
        }
        let ty = &png[o + 4..o + 8];
        let data = &png[o + 8..o + 8 + len];
        let crc = u32::from_be_bytes(png[o + 8 + len..o + 12 + len].try_into().unwrap());
        if icy_engine::get_crc32(&png[o + 4..o + 8 + len]) != crc {
            return Err("png chunk crc".into());
        }
        if ty == b"zTXt" {
            let z = data.iter().position(|b| *b == 0).ok_or("zTXt keyword")?;
            let kw = String::from_utf8(data[..z].to_vec()).map_err(|_| "zTXt keyword utf8")?;
            if data.len() < z + 2 || data[z + 1] != 0 {
                return Err("zTXt method".into());
            }
            let text = zlib_inflate(&data[z + 2..])?;
            res.push((kw, b64_decode(&text)?));
        }
        if ty == b"IEND" {
            break;
        }
        o += 12 + len;
    }
    Ok(res)
}

/// a minimal 1x1 PNG carrying the given payloads as base64 zTXt chunks (stored deflate)
fn png_build(chunks: &[(String, Vec<u8>)]) -> Vec<u8> {
    fn chunk(out: &mut Vec<u8>, ty: &[u8; 4], data: &[u8]) {
        out.extend((data.len() as u32).to_be_bytes());
        let s = out.len();
        out.extend(ty);
        out.extend(data);
        let crc = icy_engine::get_crc32(&out[s..]);
        out.extend(crc.to_be_bytes());
    }
    let mut out = vec![0x89, b'P', b'N', b'G', 13, 10, 26, 10];
    chunk(&mut out, b"IHDR", &[0, 0, 0, 1, 0, 0, 0, 1, 8, 6, 0, 0, 0]);
    for (k, p) in chunks {
        let mut d = k.as_bytes().to_vec();
        d.push(0);
        d.push(0);
        d.extend(zlib_stored(&b64_encode(p)));
        chunk(&mut out, b"zTXt", &d);
    }
    chunk(&mut out, b"IDAT", &zlib_stored(&[0, 0, 0, 0, 0]));
    chunk(&mut out, b"IEND", &[]);
    out
}

// ------------------------------------------------------------------------------------------------ document specs

#[derive(Clone, Debug, PartialEq)]
struct CellSpec {
    ch: u32,
    fg: u32,
    bg: u32,
    page: usize,
    attr: u16,
}

#[derive(Clone, Debug)]
enum CellOp {
    Set(i32, i32, CellSpec),
    /// fill the rectangle x0..=x1 × y0..=y1 with seeded cells; style selects the mixture
    Fill(i32, i32, i32, i32, u64, u32),
}

#[derive(Clone, Debug)]
struct LayerSpec {
    title: String,
    role: u8,
    mode: u8,
    color: Option<(u8, u8, u8)>,
    flags: [bool; 5], // visible, locked, pos-locked, has-alpha, alpha-locked
    transparency: u8,
    off: (i32, i32),
    size: (i32, i32),
    default_page: usize,
    /// 0: lines as `Layer::new` + `set_char` leave them; 1: trailing invisible cells and lines cut off (sparse lines);
    /// 2: every line gets two extra cells beyond the width and two extra lines are appended;
    /// 3: the lines are written DIRECTLY from the spec (own grid, `Line::chars` filled by hand), bypassing `Layer::set_char` —
    ///    the function the loader itself uses to rebuild a layer — so that the source document does not depend on it
    shape: u8,
    ops: Vec<CellOp>,
}

#[derive(Clone, Debug)]
struct SauceSpec {
    title: String,
    author: String,
    group: String,
    comments: Vec<String>,
    letter_spacing: bool,
    aspect_ratio: bool,
}

#[derive(Clone, Debug)]
struct DocSpec {
    bt: u8,
    ice: u8,
    pal_mode: u8,
    font_mode: u8,
    size: (i32, i32),
    sauce: Option<SauceSpec>,
    palette: Vec<(u8, u8, u8)>,
    fonts: Vec<(usize, FontSpec)>, // slot -> font
    layers: Vec<LayerSpec>,
}

/// what sits in a font slot
#[derive(Clone, Debug, PartialEq)]
enum FontSpec {
    /// the built-in font of that ANSI font page (all 8 pixels wide)
    Builtin(usize),
    /// `BitFont::create_8(name, w, h, data)` — any width / height — with `len` (256 or 512) glyphs whose rows follow
    /// pattern `pat`: 0 all 0x00, 1 all 0xFF, 2 glyph index, 3 byte position, 4 only the bits inside the width,
    /// otherwise seeded bytes
    Custom { w: u8, h: u8, len: u16, pat: u64, name: String },
}

impl FontSpec {
    fn to_text(&self) -> String {
        match self {
            FontSpec::Builtin(p) => p.to_string(),
            FontSpec::Custom { w, h, len, pat, name } => format!("c{w}.{h}.{len}.{pat}.{}", hexs(name)),
        }
    }
    fn from_text(t: &str) -> Option<FontSpec> {
        if let Some(c) = t.strip_prefix('c') {
            let v: Vec<&str> = c.split('.').collect();
            if v.len() != 5 {
                return None;
            }
            Some(FontSpec::Custom { w: v[0].parse().ok()?, h: v[1].parse().ok()?, len: v[2].parse().ok()?, pat: v[3].parse().ok()?, name: unhexs(v[4]) })
        } else {
            Some(FontSpec::Builtin(t.parse().ok()?))
        }
    }
}

/// glyph rows of a custom font: `len * h` bytes
fn font_pattern(w: u8, h: u8, len: u16, pat: u64) -> Vec<u8> {
    let n = len as usize * h as usize;
    match pat {
        0 => vec![0u8; n],
        1 => vec![0xFFu8; n],
        2 => (0..n).map(|i| (i / (h as usize).max(1)) as u8).collect(),
        3 => (0..n).map(|i| i as u8).collect(),
        4 => {
            let mask: u8 = if w >= 8 { 0xFF } else { !(0xFFu8 >> w) };
            let mut r = Rng::new(pat);
            (0..n).map(|_| r.next() as u8 & mask).collect()
        }
        _ => {
            let mut r = Rng::new(pat);
            (0..n).map(|_| r.next() as u8).collect()
        }
    }
}

fn hexs(s: &str) -> String {
    hex(s.as_bytes())
}
fn unhexs(s: &str) -> String {
    String::from_utf8_lossy(&unhex(s)).to_string()
}

impl DocSpec {
    fn to_text(&self) -> String {
        let mut s = String::new();
        let _ = write!(s, "H{}.{}.{}.{}.{}.{}", self.bt, self.ice, self.pal_mode, self.font_mode, self.size.0, self.size.1);
        match &self.sauce {
            None => s.push_str("|S0"),
            Some(sa) => {
                let _ = write!(
                    s,
                    "|S1.{}.{}.{}.{}.{}.{}",
                    hexs(&sa.title),
                    hexs(&sa.author),
                    hexs(&sa.group),
                    sa.letter_spacing as u8,
                    sa.aspect_ratio as u8,
                    sa.comments.len()
                );
                for c in &sa.comments {
                    let _ = write!(s, ".{}", hexs(c));
                }
            }
        }
        s.push_str("|P");
        for (r, g, b) in &self.palette {
            let _ = write!(s, "{:02x}{:02x}{:02x}", r, g, b);
        }
        s.push_str("|F");
        for (i, (slot, f)) in self.fonts.iter().enumerate() {
            let _ = write!(s, "{}{}:{}", if i > 0 { "," } else { "" }, slot, f.to_text());
        }
        for l in &self.layers {
            let _ = write!(
                s,
                "|L{}.{}.{}.{}.{}.{}.{}.{}.{}.{}.{}.{}.",
                hexs(&l.title),
                l.role,
                l.mode,
                match l.color {
                    Some((r, g, b)) => format!("{:02x}{:02x}{:02x}", r, g, b),
                    None => "-".into(),
                },
                l.flags.iter().map(|b| if *b { '1' } else { '0' }).collect::<String>(),
                l.transparency,
                l.off.0,
                l.off.1,
                l.size.0,
                l.size.1,
                l.default_page,
                l.shape
            );
            for (i, op) in l.ops.iter().enumerate() {
                if i > 0 {
                    s.push(';');
                }
                match op {
                    CellOp::Set(x, y, c) => {
                        let _ = write!(s, "{},{},{},{},{},{},{}", x, y, c.ch, c.fg, c.bg, c.page, c.attr);
                    }
                    CellOp::Fill(x0, y0, x1, y1, seed, style) => {
                        let _ = write!(s, "R{},{},{},{},{},{}", x0, y0, x1, y1, seed, style);
                    }
                }
            }
        }
        s
    }

    fn from_text(t: &str) -> Option<DocSpec> {
        let mut d = DocSpec { bt: 1, ice: 0, pal_mode: 1, font_mode: 1, size: (80, 25), sauce: None, palette: vec![], fonts: vec![], layers: vec![] };
        for part in t.trim().split('|') {
            let (tag, body) = part.split_at(1.min(part.len()));
            match tag {
                "H" => {
                    let v: Vec<i64> = body.split('.').filter_map(|x| x.parse().ok()).collect();
                    if v.len() != 6 {
                        return None;
                    }
                    d.bt = (v[0] as usize % BUFFER_TYPES.len()) as u8;
                    d.ice = (v[1] as usize % ICE_MODES.len()) as u8;
                    d.pal_mode = (v[2] as usize % PALETTE_MODES.len()) as u8;
                    d.font_mode = (v[3] as usize % FONT_MODES.len()) as u8;
                    d.size = (v[4] as i32, v[5] as i32);
                }
                "S" => {
                    let v: Vec<&str> = body.split('.').collect();
                    if v[0] == "1" {
                        if v.len() < 7 {
                            return None;
                        }
                        let n: usize = v[6].parse().ok()?;
                        d.sauce = Some(SauceSpec {
                            title: unhexs(v[1]),
                            author: unhexs(v[2]),
                            group: unhexs(v[3]),
                            letter_spacing: v[4] == "1",
                            aspect_ratio: v[5] == "1",
                            comments: (0..n).map(|i| unhexs(v.get(7 + i).copied().unwrap_or("-"))).collect(),
                        });
                    }
                }
                "P" => {
                    let b = unhex(if body.is_empty() { "-" } else { body });
                    d.palette = b.chunks(3).filter(|c| c.len() == 3).map(|c| (c[0], c[1], c[2])).collect();
                }
                "F" => {
                    for e in body.split(',').filter(|e| !e.is_empty()) {
                        let mut it = e.split(':');
                        d.fonts.push((it.next()?.parse().ok()?, FontSpec::from_text(it.next()?)?));
                    }
                }
                "L" => {
                    let v: Vec<&str> = body.splitn(13, '.').collect();
                    if v.len() != 13 {
                        return None;
                    }
                    let color = if v[3] == "-" {
                        None
                    } else {
                        let c = unhex(v[3]);
                        Some((c[0], c[1], c[2]))
                    };
                    let fl: Vec<bool> = v[4].chars().map(|c| c == '1').collect();
                    if fl.len() != 5 {
                        return None;
                    }
                    let mut ops = Vec::new();
                    for o in v[12].split(';').filter(|o| !o.is_empty()) {
                        if let Some(r) = o.strip_prefix('R') {
                            let n: Vec<i64> = r.split(',').filter_map(|x| x.parse().ok()).collect();
                            if n.len() != 6 {
                                return None;
                            }
                            ops.push(CellOp::Fill(n[0] as i32, n[1] as i32, n[2] as i32, n[3] as i32, n[4] as u64, n[5] as u32));
                        } else {
                            let n: Vec<i64> = o.split(',').filter_map(|x| x.parse().ok()).collect();
                            if n.len() != 7 {
                                return None;
                            }
                            ops.push(CellOp::Set(
                                n[0] as i32,
                                n[1] as i32,
                                CellSpec { ch: n[2] as u32, fg: n[3] as u32, bg: n[4] as u32, page: n[5] as usize, attr: n[6] as u16 },
                            ));
                        }
                    }
                    d.layers.push(LayerSpec {
                        title: unhexs(v[0]),
                        role: v[1].parse().ok()?,
                        mode: v[2].parse().ok()?,
                        color,
                        flags: [fl[0], fl[1], fl[2], fl[3], fl[4]],
                        transparency: v[5].parse().ok()?,
                        off: (v[6].parse().ok()?, v[7].parse().ok()?),
                        size: (v[8].parse().ok()?, v[9].parse().ok()?),
                        default_page: v[10].parse().ok()?,
                        shape: v[11].parse().ok()?,
                        ops,
                    });
                }
                _ => {}
            }
        }
        if d.fonts.is_empty() {
            d.fonts.push((0, FontSpec::Builtin(0)));
        }
        if d.palette.is_empty() {
            d.palette = Palette::dos_default().color_iter().map(|c| c.get_rgb()).collect();
        }
        Some(d)
    }
}

/// a seeded cell; `style` bit 0: allow long fields, bit 1: allow invisible cells, bit 2: allow transparent colours,
/// bit 3: invisible cells may carry other attribute bits, bit 4: visible cells may carry the SHORT_DATA marker (outside the
/// property's domain — correspondence only), bit 5: every visible cell is long
fn gen_cell(rng: &mut Rng, style: u32, pages: &[usize]) -> CellSpec {
    let force_long = style & 32 != 0;
    let long = force_long || (style & 1 != 0 && rng.chance(1, 3));
    let ch = if long && (force_long || rng.chance(1, 2)) {
        *rng.pick(&[0x100u32, 0x2588, 0xD7FF, 0xE000, 0xFFFD, 0x1F600, 0x10FFFF, 0x3042, 0x20AC])
    } else {
        match rng.below(6) {
            0 => 0,
            1 => 32,
            2 => 255,
            3 => 219,
            _ => rng.below(256) as u32,
        }
    };
    let col = |rng: &mut Rng| -> u32 {
        if style & 4 != 0 && rng.chance(1, 8) {
            if rng.chance(1, 2) {
                TextAttribute::TRANSPARENT_COLOR
            } else {
                TextAttribute::TRANSPARENT_COLOR | (rng.next() as u32 & 0xFF_FFFF)
            }
        } else if long && rng.chance(1, 3) {
            *rng.pick(&[256u32, 299, 65535, 0x7FFF_FFFF, 1000])
        } else {
            *rng.pick(&[0u32, 7, 15, 16, 255, 8, 1])
        }
    };
    let fg = col(rng);
    let bg = col(rng);
    let page = *rng.pick(pages);
    let mut attr: u16 = match rng.below(4) {
        0 => 0,
        1 => 1 << rng.below(10),
        2 => (rng.next() as u16) & 0x03FF,
        _ => (rng.next() as u16) & 0x3FFF,
    };
    if style & 2 != 0 && rng.chance(1, 4) {
        attr = if style & 8 != 0 && rng.chance(1, 2) { attribute::INVISIBLE | (attr & 0x03FF) } else { attribute::INVISIBLE };
    } else if style & 16 != 0 && rng.chance(1, 6) {
        attr |= attribute::SHORT_DATA;
    }
    CellSpec { ch, fg, bg, page, attr }
}

fn to_char(c: &CellSpec) -> AttributedChar {
    let mut a = TextAttribute::new(c.fg, c.bg);
    a.set_font_page(c.page);
    a.attr = c.attr;
    AttributedChar::new(char::from_u32(c.ch).unwrap_or('?'), a)
}

// The four header modes are built and observed by VARIANT (index in declaration order), through the tables below —
// never through the crate's own `from_byte` / `to_byte`, which are what is being checked.
const BUFFER_TYPES: [BufferType; 5] = [BufferType::Unicode, BufferType::CP437, BufferType::Petscii, BufferType::Atascii, BufferType::Viewdata];
const ICE_MODES: [IceMode; 3] = [IceMode::Unlimited, IceMode::Blink, IceMode::Ice];
const PALETTE_MODES: [PaletteMode; 4] = [PaletteMode::RGB, PaletteMode::Fixed16, PaletteMode::Free8, PaletteMode::Free16];
const FONT_MODES: [FontMode; 4] = [FontMode::Unlimited, FontMode::Sauce, FontMode::Single, FontMode::FixedSize];

fn bt_num(b: BufferType) -> u8 {
    match b {
        BufferType::Unicode => 0,
        BufferType::CP437 => 1,
        BufferType::Petscii => 2,
        BufferType::Atascii => 3,
        BufferType::Viewdata => 4,
    }
}
fn ice_num(m: IceMode) -> u8 {
    match m {
        IceMode::Unlimited => 0,
        IceMode::Blink => 1,
        IceMode::Ice => 2,
    }
}
fn pal_num(m: PaletteMode) -> u8 {
    match m {
        PaletteMode::RGB => 0,
        PaletteMode::Fixed16 => 1,
        PaletteMode::Free8 => 2,
        PaletteMode::Free16 => 3,
    }
}
fn fm_num(m: FontMode) -> u8 {
    match m {
        FontMode::Unlimited => 0,
        FontMode::Sauce => 1,
        FontMode::Single => 2,
        FontMode::FixedSize => 3,
    }
}

fn build_layer(l: &LayerSpec, pages: &[usize]) -> Layer {
    let mut layer = Layer::new(l.title.clone(), l.size);
    layer.role = match l.role {
        1 => Role::PastePreview,
        2 => Role::PasteImage,
        3 => Role::Image,
        _ => Role::Normal,
    };
    layer.properties.mode = match l.mode {
        1 => Mode::Chars,
        2 => Mode::Attributes,
        _ => Mode::Normal,
    };
    layer.properties.color = l.color.map(|(r, g, b)| Color::new(r, g, b));
    layer.transparency = l.transparency;
    if l.shape == 3 {
        // direct construction: the public field, not the setter the loader calls
        layer.properties.offset = icy_engine::Position::new(l.off.0, l.off.1);
    } else {
        layer.set_offset(l.off);
    }
    layer.default_font_page = l.default_page;
    for op in &l.ops {
        match op {
            CellOp::Set(x, y, c) => layer.set_char((*x, *y), to_char(c)),
            CellOp::Fill(x0, y0, x1, y1, seed, style) => {
                let mut rng = Rng::new(*seed);
                for y in *y0..=*y1 {
                    for x in *x0..=*x1 {
                        let c = gen_cell(&mut rng, *style, pages);
                        layer.set_char((x, y), to_char(&c));
                    }
                }
            }
        }
    }
    match l.shape {
        1 => {
            for line in &mut layer.lines {
                while line.chars.last().map_or(false, |c| !c.is_visible()) {
                    line.chars.pop();
                }
            }
            while layer.lines.last().map_or(false, |l| l.chars.is_empty()) {
                layer.lines.pop();
            }
        }
        2 => {
            let extra = to_char(&CellSpec { ch: 0x41, fg: 3, bg: 4, page: pages[0], attr: 1 });
            for line in &mut layer.lines {
                line.chars.push(extra);
                line.chars.push(extra);
            }
            let mut ln = Line::new();
            ln.chars.push(extra);
            layer.lines.push(ln.clone());
            layer.lines.push(ln);
        }
        3 => {
            let (w, h) = (l.size.0.max(0) as usize, l.size.1.max(0) as usize);
            let mut grid: Vec<Vec<Option<CellSpec>>> = vec![vec![None; w]; h];
            let mut put = |x: i32, y: i32, c: CellSpec| {
                if x >= 0 && y >= 0 && (x as usize) < w && (y as usize) < h {
                    grid[y as usize][x as usize] = Some(c);
                }
            };
            for op in &l.ops {
                match op {
                    CellOp::Set(x, y, c) => put(*x, *y, c.clone()),
                    CellOp::Fill(x0, y0, x1, y1, seed, style) => {
                        let mut rng = Rng::new(*seed);
                        for y in *y0..=*y1 {
                            for x in *x0..=*x1 {
                                let c = gen_cell(&mut rng, *style, pages);
                                put(x, y, c);
                            }
                        }
                    }
                }
            }
            layer.lines = grid
                .into_iter()
                .map(|row| {
                    let mut ln = Line::new();
                    for c in row {
                        ln.chars.push(match c {
                            Some(c) => to_char(&c),
                            None => AttributedChar::invisible(),
                        });
                    }
                    ln
                })
                .collect();
        }
        _ => {}
    }
    layer.properties.is_visible = l.flags[0];
    layer.properties.is_locked = l.flags[1];
    layer.properties.is_position_locked = l.flags[2];
    layer.properties.has_alpha_channel = l.flags[3];
    layer.properties.is_alpha_channel_locked = l.flags[4];
    layer
}

fn build_font(f: &FontSpec) -> BitFont {
    match f {
        FontSpec::Builtin(p) => BitFont::from_ansi_font_page(*p).unwrap_or_default(),
        FontSpec::Custom { w, h, len, pat, name } => {
            let mut font = BitFont::create_8(name.clone(), *w, *h, &font_pattern(*w, *h, *len, *pat));
            if *len != 256 {
                // `create_8` cuts all of the data into glyphs and says 256; a 512-glyph font is the same with its true length
                font.length = *len as i32;
                font.calculate_checksum();
            }
            font
        }
    }
}

fn build_doc(d: &DocSpec) -> Buffer {
    let mut buf = Buffer::new(d.size);
    buf.is_terminal_buffer = false;
    buf.buffer_type = BUFFER_TYPES[d.bt as usize % BUFFER_TYPES.len()];
    buf.ice_mode = ICE_MODES[d.ice as usize % ICE_MODES.len()];
    buf.palette_mode = PALETTE_MODES[d.pal_mode as usize % PALETTE_MODES.len()];
    buf.font_mode = FONT_MODES[d.font_mode as usize % FONT_MODES.len()];
    let mut pal = Palette::new();
    pal.clear();
    for (r, g, b) in &d.palette {
        pal.push(Color::new(*r, *g, *b));
    }
    buf.palette = pal;
    buf.clear_font_table();
    let pages: Vec<usize> = d.fonts.iter().map(|f| f.0).collect();
    for (slot, f) in &d.fonts {
        buf.set_font(*slot, build_font(f));
    }
    buf.layers.clear();
    for l in &d.layers {
        buf.layers.push(build_layer(l, &pages));
    }
    if let Some(s) = &d.sauce {
        let mut sd = SauceData::default();
        sd.title = SauceString::from(s.title.clone());
        sd.author = SauceString::from(s.author.clone());
        sd.group = SauceString::from(s.group.clone());
        sd.comments = s.comments.iter().map(|c| SauceString::from(c.clone())).collect();
        sd.use_letter_spacing = s.letter_spacing;
        sd.use_aspect_ratio = s.aspect_ratio;
        sd.buffer_size = d.size.into();
        sd.use_ice = d.ice == 2;
        buf.set_sauce(Some(sd), false);
    }
    buf
}

// ------------------------------------------------------------------------------------------------ canonical prints

fn cell_nums(c: &AttributedChar) -> [u64; 5] {
    [c.ch as u64, c.attribute.get_foreground() as u64, c.attribute.get_background() as u64, c.attribute.get_font_page() as u64, c.attribute.attr as u64]
}

fn role_num(r: Role) -> u8 {
    match r {
        Role::Normal => 0,
        Role::PastePreview => 1,
        Role::PasteImage => 2,
        Role::Image => 3,
    }
}
fn mode_num(m: Mode) -> u8 {
    match m {
        Mode::Normal => 0,
        Mode::Chars => 1,
        Mode::Attributes => 2,
    }
}

fn layer_fields(l: &Layer) -> String {
    let p = &l.properties;
    format!(
        "T{} {} {} {} {}{}{}{}{} {} {} {} {} {} {}",
        hex(p.title.as_bytes()),
        role_num(l.role),
        mode_num(p.mode),
        match &p.color {
            Some(c) => {
                let (r, g, b) = c.get_rgb();
                format!("{:02x}{:02x}{:02x}", r, g, b)
            }
            None => "-".into(),
        },
        p.is_visible as u8,
        p.is_locked as u8,
        p.is_position_locked as u8,
        p.has_alpha_channel as u8,
        p.is_alpha_channel_locked as u8,
        l.transparency,
        l.get_offset().x,
        l.get_offset().y,
        l.get_width(),
        l.get_height(),
        l.default_font_page
    )
}

/// full description of a layer for the model: fields, then every line with every cell
fn layer_full(l: &Layer) -> String {
    let mut s = layer_fields(l);
    let _ = write!(s, " {}", l.lines.len());
    for line in &l.lines {
        let _ = write!(s, " {}", line.chars.len());
        for c in &line.chars {
            let n = cell_nums(c);
            let _ = write!(s, " {} {} {} {} {}", n[0], n[1], n[2], n[3], n[4]);
        }
    }
    s
}

const FULL_CELLS: usize = 400;

/// what the decode ops answer: fields, line count, then all cells (small layers) or a hash of them
fn layer_digest(l: &Layer) -> String {
    let total: usize = l.lines.iter().map(|x| x.chars.len()).sum();
    if total <= FULL_CELLS {
        return layer_full(l);
    }
    let mut nums: Vec<u64> = vec![l.lines.len() as u64];
    for line in &l.lines {
        nums.push(line.chars.len() as u64);
        for c in &line.chars {
            nums.extend(cell_nums(c));
        }
    }
    format!("{} {} H{}", layer_fields(l), l.lines.len(), fnv(nums))
}

fn payload_digest(p: &[u8]) -> String {
    if p.len() <= 256 {
        format!("{}:{}", p.len(), hex(p))
    } else {
        format!("{}:H{}", p.len(), fnv(p.iter().map(|b| *b as u64)))
    }
}

// ------------------------------------------------------------------------------------------------ reference scan

/// walks a layer payload along the real reader's path and reports whether it reaches a character field that is not a
/// Unicode scalar value.  (The pinned loader aborted the process there; the repaired one returns
/// `Err("invalid character …")`, so such payloads are loaded like any other and only counted.)
fn payload_has_nonscalar(chunks: &[&[u8]]) -> bool {
    fn rows(b: &[u8], mut o: usize, w: usize, h: usize, checked: bool) -> Option<bool> {
        for _y in 0..h {
            if o >= b.len() {
                break;
            }
            for _x in 0..w {
                if o + 2 > b.len() {
                    return Some(false);
                }
                let mut attr = u16::from_le_bytes([b[o], b[o + 1]]);
                o += 2;
                if attr == attribute::INVISIBLE_SHORT {
                    break;
                }
                let short = attr & attribute::SHORT_DATA != 0;
                attr &= !attribute::SHORT_DATA;
                if attr == attribute::INVISIBLE {
                    continue;
                }
                if short {
                    if o + 4 > b.len() {
                        return Some(false);
                    }
                    o += 4;
                } else {
                    if o + 14 > b.len() {
                        return Some(false);
                    }
                    let ch = u32::from_le_bytes(b[o..o + 4].try_into().unwrap());
                    if char::from_u32(ch).is_none() {
                        return Some(true);
                    }
                    o += 14;
                }
            }
        }
        let _ = checked;
        Some(false)
    }
    let b = chunks[0];
    if b.len() < 4 {
        return false;
    }
    let tl = u32::from_le_bytes(b[0..4].try_into().unwrap()) as usize;
    let o = 4usize.saturating_add(tl);
    if o.saturating_add(41) > b.len() {
        return false;
    }
    let w = u32::from_le_bytes(b[o + 23..o + 27].try_into().unwrap());
    let h = u32::from_le_bytes(b[o + 27..o + 31].try_into().unwrap());
    if w >= 1 << 31 || h >= 1 << 31 {
        return false;
    }
    if rows(b, o + 41, w as usize, h as usize, true) == Some(true) {
        return true;
    }
    for c in &chunks[1..] {
        // the start row of a continuation chunk depends on the loaded state; scan pessimistically with all rows
        if rows(c, 0, w as usize, h as usize, false) == Some(true) {
            return true;
        }
    }
    false
}

// ------------------------------------------------------------------------------------------------ font slots

/// canonical print of a font slot: name, width, height, length, number of glyphs, hash of their codes, hash of
/// (row count, rows) per glyph in code order — what `Drv/IcyDraw.lean: slotFontObs` prints for the model
fn font_line(f: &BitFont) -> String {
    let mut keys: Vec<char> = f.glyphs.keys().copied().collect();
    keys.sort_unstable();
    let mut rows: Vec<u64> = Vec::new();
    for k in &keys {
        let g = &f.glyphs[k];
        rows.push(g.data.len() as u64);
        rows.extend(g.data.iter().map(|b| *b as u64));
    }
    format!("ok {} {} {} {} {} {} {}", hex(f.name.as_bytes()), f.size.width, f.size.height, f.length, keys.len(), fnv(keys.iter().map(|k| *k as u64)), fnv(rows))
}

/// the glyph rows of the codes 0..n in order when the table is exactly the codes 0..n with `height` rows each (what
/// `create_8` builds from that data); `None` for any other table
fn glyph_rows(f: &BitFont) -> Option<Vec<u8>> {
    let n = f.glyphs.len() as u32;
    let mut out = Vec::new();
    for i in 0..n {
        let g = f.glyphs.get(&char::from_u32(i)?)?;
        if g.data.len() as i32 != f.size.height {
            return None;
        }
        out.extend(&g.data);
    }
    Some(out)
}

thread_local! {
    /// font payloads already handed to the model in this run (the built-in fonts recur in most documents)
    static FONT_SEEN: std::cell::RefCell<std::collections::HashSet<u64>> = std::cell::RefCell::new(Default::default());
}
fn font_first_seen(p: &[u8]) -> bool {
    let h = fnv(p.iter().map(|b| *b as u64));
    FONT_SEEN.with(|s| s.borrow_mut().insert(h))
}

/// loads a file made of ICED + one FONT_<slot> chunk + END and reports what the real loader puts into the slot
fn observe_font_load(slot: usize, payload: &[u8]) -> String {
    let png = png_build(&[("ICED".into(), default_hdr()), (format!("FONT_{slot}"), payload.to_vec()), ("END".into(), vec![])]);
    match load(&png) {
        Ok(Ok(b)) => match b.get_font(slot) {
            Some(f) => font_line(f),
            None => "nofont".into(),
        },
        Ok(Err(e)) => classify_err(&e).to_string(),
        Err(_) => "fail:panic".into(),
    }
}

/// FONT_n payloads damaged in every header field and length, fed to the real loader (model: `decodeFontChunk`)
fn malformed_font(run: &mut Run, rng: &mut Rng, base: &[u8]) {
    let mut p = base.to_vec();
    if p.len() < 4 {
        return;
    }
    let nl = u32::from_le_bytes(p[0..4].try_into().unwrap()) as usize;
    let ho = 4 + nl; // start of the PSF2 header
    if p.len() < ho + 32 {
        return;
    }
    let kind = rng.below(9);
    let set32 = |p: &mut Vec<u8>, o: usize, v: u32| p[o..o + 4].copy_from_slice(&v.to_le_bytes());
    let get32 = |p: &Vec<u8>, o: usize| u32::from_le_bytes(p[o..o + 4].try_into().unwrap());
    match kind {
        0 => {
            let n = rng.below(p.len() as u64 + 1) as usize;
            p.truncate(n);
        }
        1 => {
            // the name length field
            let v = match rng.below(3) {
                0 => nl as u32 + 1 + rng.below(3) as u32,
                1 => (nl as u32).saturating_sub(1),
                _ => rng.below(1 << 16) as u32,
            };
            set32(&mut p, 0, v);
        }
        2 => {
            // version / flags
            let v = *rng.pick(&[1u32, 2, 0xFFFF_FFFF, 0]);
            set32(&mut p, ho + if rng.chance(1, 2) { 4 } else { 12 }, v);
        }
        3 => {
            // header size: more / less, with or without the matching number of bytes
            let d = rng.range(1, 8) as usize;
            set32(&mut p, ho + 8, 32 + d as u32);
            if rng.chance(1, 2) {
                let fill = rng.bytes(d);
                let tail = p.split_off(ho + 32);
                p.extend(fill);
                p.extend(tail);
            }
        }
        4 => {
            // length
            let cur = get32(&p, ho + 16);
            let v = *rng.pick(&[cur + 1, cur.saturating_sub(1), 0, 0x8000_0000, 0xFFFF_FFFF, cur * 2]);
            set32(&mut p, ho + 16, v);
        }
        5 => {
            // charsize
            let cur = get32(&p, ho + 20);
            let v = *rng.pick(&[cur + 1, cur.saturating_sub(1), 0, 0x8000_0000, cur * 2]);
            set32(&mut p, ho + 20, v);
        }
        6 => {
            // height (with and without charsize following)
            let cur = get32(&p, ho + 24);
            let v = *rng.pick(&[cur + 1, cur.saturating_sub(1), 0, cur * 2]);
            set32(&mut p, ho + 24, v);
            if rng.chance(1, 2) {
                set32(&mut p, ho + 20, v);
            }
        }
        7 => {
            // width: every value the consistency check accepts (1..=8) and its neighbours
            let v = *rng.pick(&[0u32, 1, 2, 3, 4, 5, 6, 7, 8, 9, 15, 16, 17, 0x8000_0000, 0xFFFF_FFFF]);
            set32(&mut p, ho + 28, v);
        }
        _ => {
            // another container: PSF1 magic, or raw glyph data (a multiple of 256 bytes or not)
            let tail = p.split_off(ho);
            match rng.below(3) {
                0 => {
                    p.extend([0x36, 0x04, rng.below(4) as u8, rng.range(1, 3) as u8]);
                    p.extend(&tail[32..]);
                }
                1 => p.extend(&tail[32..]),
                _ => p.extend(&tail[31..]),
            }
        }
    }
    let slot = *rng.pick(&[0usize, 1, 300]);
    set_inflight("malformed-font");
    let obs = observe_font_load(slot, &p);
    run.count(&format!("malformed-font-kind{kind}"));
    run.count(&format!("malformed-font-{}", if obs.starts_with("ok") { "ok" } else { obs.as_str() }));
    run.case(&format!("icydraw decfont {}", hex(&p)), &obs);
}

// ------------------------------------------------------------------------------------------------ one document

fn classify_err(msg: &str) -> &'static str {
    if msg.contains("data lenth") {
        "fail:errLength"
    } else if msg.contains("out ouf bounds") {
        "fail:errOob"
    } else if msg.contains("unsupported header size") {
        "fail:errHeader"
    } else if msg.to_lowercase().contains("layer mode") || msg.contains("IcyDrawUnsupportedLayerMode") {
        "fail:errMode"
    } else {
        "fail:errCodec"
    }
}

thread_local! {
    /// where the input of the load in flight is noted (child process only), so that the supervising parent can name it
    /// when the loader aborts the process
    static INFLIGHT: std::cell::RefCell<Option<(std::path::PathBuf, String)>> = const { std::cell::RefCell::new(None) };
}
fn set_inflight(input: &str) {
    INFLIGHT.with(|i| {
        if let Some((_, cur)) = i.borrow_mut().as_mut() {
            *cur = input.to_string();
        }
    });
}

fn load(bytes: &[u8]) -> Result<Result<Buffer, String>, String> {
    INFLIGHT.with(|i| {
        if let Some((path, cur)) = i.borrow().as_ref() {
            let _ = std::fs::write(path, cur);
        }
    });
    let b = bytes.to_vec();
    catch(move || Buffer::from_bytes(Path::new("verif.icy"), false, &b).map_err(|e| format!("{e:#} {e:?}")))
}

fn header_line(b: &Buffer) -> String {
    format!(
        "{} {} {} {} {} {}",
        bt_num(b.buffer_type),
        ice_num(b.ice_mode),
        pal_num(b.palette_mode),
        fm_num(b.font_mode),
        b.get_width(),
        b.get_height()
    )
}

fn font_slots(b: &Buffer) -> Vec<usize> {
    let mut v: Vec<usize> = b.font_iter().map(|(k, _)| *k).collect();
    v.sort_unstable();
    v
}

fn palette_rgb(p: &Palette) -> Vec<(u8, u8, u8)> {
    p.color_iter().map(|c| c.get_rgb()).collect()
}

struct Opts {
    /// the document is inside the property's quantifier: evaluate the oracle
    oracle: bool,
}

fn one_doc(run: &mut Run, d: &DocSpec, opts: &Opts) {
    let input = d.to_text();
    run.nontrivial(fnv(input.bytes().map(|b| b as u64)));
    run.count(&format!("layers={}", d.layers.len()));
    run.count(if d.sauce.is_some() { "sauce=yes" } else { "sauce=no" });
    run.count(&format!("palette={}", if d.palette.len() <= 16 { "<=16" } else if d.palette.len() <= 256 { "17..256" } else { ">256" }));
    run.count(&format!("fonts={}", d.fonts.len().min(4)));
    let dd = d.clone();
    let built = catch(move || build_doc(&dd));
    let src = match built {
        Ok(b) => b,
        Err(loc) => {
            // a document of the quantifier that cannot even be built through the public API leaves the check vacuous: that is a
            // failure of the run on this input, not something to count and skip
            run.count("build-panic");
            run.extra.push(("build-panic".into(), format!("{} at {}", input, loc)));
            if opts.oracle {
                run.oracle_fail(&format!("build-panic:{}", panic_site(&loc)), &input, &format!("building the document through the public API panicked at {loc}"));
            }
            return;
        }
    };
    for l in &src.layers {
        let cells = (l.get_width() * l.get_height()) as usize;
        run.count(&format!("layer-cells={}", if cells == 0 { "0" } else if cells <= 100 { "1..100" } else if cells <= 2000 { "101..2000" } else { ">2000" }));
        if l.get_width() == 0 || l.get_height() == 0 {
            run.count("layer-empty-dimension");
        }
    }
    // ---- save
    let mut opt = SaveOptions::new();
    opt.lossles_output = true;
    let saved = {
        let s = &src;
        let o = &opt;
        catch(std::panic::AssertUnwindSafe(move || s.to_bytes("icy", o).map_err(|e| format!("{e:#}"))))
    };
    let bytes = match saved {
        Ok(Ok(b)) => b,
        Ok(Err(e)) => {
            if opts.oracle {
                run.oracle_fail("save-err", &input, &format!("to_bytes returned Err: {e}"));
            }
            return;
        }
        Err(loc) => {
            if opts.oracle {
                run.oracle_fail(&format!("save-panic:{}", panic_site(&loc)), &input, &format!("to_bytes panicked at {loc}"));
            }
            return;
        }
    };
    let chunks = match png_text_chunks(&bytes) {
        Ok(c) => c,
        Err(e) => {
            run.oracle_fail("png-container", &input, &format!("saved file is not a PNG this harness can walk: {e}"));
            return;
        }
    };
    // ---- encoder side of the tie
    if let Some((_, p)) = chunks.iter().find(|(k, _)| k == "ICED") {
        run.case(
            &format!("icydraw enchdr {} {} {} {} {} {}", d.bt, d.ice, d.pal_mode, d.font_mode, d.size.0, d.size.1),
            &hex(p),
        );
    }
    let mut layer_chunks: Vec<Vec<&[u8]>> = Vec::new();
    for (i, l) in src.layers.iter().enumerate() {
        let mut mine: Vec<&[u8]> = Vec::new();
        for (k, p) in &chunks {
            if *k == format!("LAYER_{i}") || k.starts_with(&format!("LAYER_{i}~")) {
                mine.push(p);
            }
        }
        if l.role != Role::Image {
            let obs = format!("ok {}", mine.iter().map(|p| payload_digest(p)).collect::<Vec<_>>().join(" "));
            run.case(&format!("icydraw enc {}", layer_full(l)), &obs);
        }
        if mine.len() > 1 {
            run.count("continuation-chunks");
        }
        layer_chunks.push(mine);
    }
    {
        // chunk sequence
        let mut keys: Vec<String> = Vec::new();
        let mut fonts: Vec<usize> = Vec::new();
        for (k, _) in &chunks {
            if let Some(s) = k.strip_prefix("FONT_") {
                fonts.push(s.parse().unwrap_or(usize::MAX));
            } else {
                if !fonts.is_empty() {
                    fonts.sort_unstable();
                    keys.extend(fonts.drain(..).map(|f| format!("FONT_{f}")));
                }
                keys.push(k.clone());
            }
        }
        let mut op = format!(
            "icydraw keys {} {} {} {} {} {} {} P",
            d.bt,
            d.ice,
            d.pal_mode,
            d.font_mode,
            d.size.0,
            d.size.1,
            d.sauce.is_some() as u8
        );
        for (r, g, b) in palette_rgb(&src.palette) {
            let _ = write!(op, "{:02x}{:02x}{:02x}", r, g, b);
        }
        op.push_str(" F");
        op.push_str(&font_slots(&src).iter().map(|f| f.to_string()).collect::<Vec<_>>().join(","));
        for cs in &layer_chunks {
            let _ = write!(op, " {}", cs.len());
        }
        run.case(&op, &keys.join(" "));
    }
    // ---- FONT_n chunks: writer (name field + PSF2 of width / height / length / glyph rows) and reader, per distinct payload
    for (k, p) in &chunks {
        let Some(slot) = k.strip_prefix("FONT_").and_then(|t| t.parse::<usize>().ok()) else { continue };
        let Some(f) = src.get_font(slot) else { continue };
        run.count(&format!("font-width={}", f.size.width));
        run.count(&format!("font-height={}", match f.size.height { 0 => "0", 1 => "1", 2..=7 => "2..7", 8 => "8", 9..=15 => "9..15", 16 => "16", 17..=31 => "17..31", 32 => "32", _ => ">32" }));
        run.count(&format!("font-length={}", f.length));
        run.count(if slot == 0 { "font-slot=0" } else if slot < 256 { "font-slot=1..255" } else { "font-slot=256..300" });
        if !font_first_seen(p) {
            continue;
        }
        match glyph_rows(f) {
            Some(data) => run.case(
                &format!("icydraw encfont {} {} {} {} {}", hex(f.name.as_bytes()), f.size.width, f.size.height, f.length, hex(&data)),
                &format!("ok {}", payload_digest(p)),
            ),
            None => run.count("font-irregular-table"),
        }
        set_inflight("font-chunk");
        run.case(&format!("icydraw decfont {}", hex(p)), &observe_font_load(slot, p));
    }
    // ---- load
    if layer_chunks.iter().any(|cs| !cs.is_empty() && payload_has_nonscalar(cs)) {
        run.count("saved-nonscalar-char");
    }
    set_inflight(&if opts.oracle { input.clone() } else { format!("outside-domain:{input}") });
    let loaded = match load(&bytes) {
        Ok(Ok(b)) => b,
        Ok(Err(e)) => {
            if opts.oracle {
                run.oracle_fail("load-err", &input, &format!("from_bytes returned Err: {}", e.chars().take(160).collect::<String>()));
            }
            return;
        }
        Err(loc) => {
            if opts.oracle {
                run.oracle_fail(&format!("load-panic:{}", panic_site(&loc)), &input, &format!("from_bytes panicked at {loc}"));
            }
            return;
        }
    };
    // ---- decoder side of the tie
    if let Some((_, p)) = chunks.iter().find(|(k, _)| k == "ICED") {
        run.case(&format!("icydraw dechdr {}", hex(p)), &format!("ok {}", header_line(&loaded)));
    }
    for (i, cs) in layer_chunks.iter().enumerate() {
        if cs.is_empty() || src.layers[i].role == Role::Image {
            continue;
        }
        if let Some(l) = loaded.layers.get(i) {
            let op = format!("icydraw dec {}", cs.iter().map(|p| hex(p)).collect::<Vec<_>>().join(" "));
            run.case(&op, &format!("ok {}", layer_digest(l)));
        }
    }
    {
        // whole-file load: header, presence of sauce/palette, font slots, number of layers
        let mut op = String::from("icydraw load");
        for (k, p) in &chunks {
            let heavy = k.starts_with("LAYER_") && p.len() > 4096;
            // layer payloads are tied by `dec`; here only the dispatch matters, so big ones are passed by reference
            let _ = write!(op, " {}={}", k, if heavy { format!("@{}", p.len()) } else { hex(p) });
        }
        let obs = format!(
            "ok {} sauce={} pal={} fonts={} layers={}",
            header_line(&loaded),
            loaded.has_sauce() as u8,
            (!loaded.palette.is_default()) as u8,
            font_slots(&loaded).iter().map(|f| f.to_string()).collect::<Vec<_>>().join(","),
            loaded.layers.len()
        );
        if !chunks.iter().any(|(k, p)| k.starts_with("LAYER_") && p.len() > 4096) {
            run.case(&op, &obs);
        }
    }
    // ---- ORACLE: the property itself on the implementation
    if !opts.oracle {
        return;
    }
    let mut fails: Vec<(String, String)> = Vec::new();
    if header_line(&loaded) != header_line(&src) {
        fails.push(("header".into(), format!("saved [{}] loaded [{}]", header_line(&src), header_line(&loaded))));
    }
    if loaded.layers.len() != src.layers.len() {
        fails.push(("layer-count".into(), format!("saved {} loaded {}", src.layers.len(), loaded.layers.len())));
    }
    for (i, (a, b)) in src.layers.iter().zip(loaded.layers.iter()).enumerate() {
        let (fa, fb) = (layer_fields(a), layer_fields(b));
        if fa != fb {
            let names = ["title", "role", "mode", "color", "flags", "transparency", "offset-x", "offset-y", "width", "height", "default-font-page"];
            let (va, vb): (Vec<&str>, Vec<&str>) = (fa.split(' ').collect(), fb.split(' ').collect());
            let which = (0..names.len()).find(|k| va.get(*k) != vb.get(*k)).map_or("?", |k| names[k]);
            fails.push((format!("layer-field:{which}"), format!("layer {i}: saved [{fa}] loaded [{fb}]")));
            continue;
        }
        'cells: for y in 0..a.get_height() {
            for x in 0..a.get_width() {
                let (ca, cb) = (a.get_char((x, y)), b.get_char((x, y)));
                if ca.is_visible() {
                    if cell_nums(&ca) != cell_nums(&cb) {
                        fails.push(("cell".into(), format!("layer {i} ({x},{y}): saved {:?} loaded {:?}", cell_nums(&ca), cell_nums(&cb))));
                        break 'cells;
                    }
                } else if cb.is_visible() {
                    fails.push(("cell-invisible".into(), format!("layer {i} ({x},{y}): saved invisible, loaded {:?}", cell_nums(&cb))));
                    break 'cells;
                }
            }
        }
    }
    if palette_rgb(&loaded.palette) != palette_rgb(&src.palette) {
        fails.push(("palette".into(), format!("saved {} colours, loaded {}", src.palette.len(), loaded.palette.len())));
    }
    {
        let fa: BTreeMap<usize, &BitFont> = src.font_iter().map(|(k, v)| (*k, v)).collect();
        let fb: BTreeMap<usize, &BitFont> = loaded.font_iter().map(|(k, v)| (*k, v)).collect();
        if fa.keys().collect::<Vec<_>>() != fb.keys().collect::<Vec<_>>() {
            fails.push(("font-slots".into(), format!("saved {:?} loaded {:?}", fa.keys().collect::<Vec<_>>(), fb.keys().collect::<Vec<_>>())));
        } else {
            for (k, f) in &fa {
                let g = fb[k];
                if f.name != g.name || f.size != g.size || f.length != g.length || f.glyphs != g.glyphs || f.to_psf2_bytes().ok() != g.to_psf2_bytes().ok() {
                    let which = if f.name != g.name { "name" } else if f.size != g.size { "size" } else if f.length != g.length { "length" } else { "glyphs" };
                    fails.push((format!("font:{which}"), format!("slot {k}: saved {:?} {:?} length {} ({} glyphs), loaded {:?} {:?} length {} ({} glyphs)", f.name, f.size, f.length, f.glyphs.len(), g.name, g.size, g.length, g.glyphs.len())));
                    break;
                }
            }
        }
    }
    match (src.get_sauce(), loaded.get_sauce()) {
        (None, None) => {}
        (Some(a), Some(b)) => {
            if a.title != b.title
                || a.author != b.author
                || a.group != b.group
                || a.comments.len() != b.comments.len()
                || a.comments.iter().zip(b.comments.iter()).any(|(x, y)| x != y)
                || a.use_letter_spacing != b.use_letter_spacing
                || a.use_aspect_ratio != b.use_aspect_ratio
            {
                fails.push(("sauce".into(), format!("saved {:?}/{:?}/{:?}/{} comments, loaded {:?}/{:?}/{:?}/{} comments", a.title, a.author, a.group, a.comments.len(), b.title, b.author, b.group, b.comments.len())));
            }
        }
        (a, b) => fails.push(("sauce".into(), format!("saved has sauce: {}, loaded has sauce: {}", a.is_some(), b.is_some()))),
    }
    for (k, w) in fails {
        run.oracle_fail(&k, &input, &w);
    }
}

// ------------------------------------------------------------------------------------------------ malformed payloads

fn default_hdr() -> Vec<u8> {
    let mut h = vec![0u8, 0, 0, 0, 0, 0, 1, 0, 0, 1, 1];
    h.extend(80u32.to_le_bytes());
    h.extend(25u32.to_le_bytes());
    h
}

/// loads a file made of ICED + the given layer chunks + END and reports what the real loader does
fn observe_layer_load(chunks: &[Vec<u8>]) -> String {
    let mut cs: Vec<(String, Vec<u8>)> = vec![("ICED".into(), default_hdr())];
    for (i, c) in chunks.iter().enumerate() {
        cs.push((if i == 0 { "LAYER_0".into() } else { format!("LAYER_0~{i}") }, c.clone()));
    }
    cs.push(("END".into(), vec![]));
    let png = png_build(&cs);
    match load(&png) {
        Ok(Ok(b)) => match b.layers.first() {
            // a size field >= 2^31 gives a layer of negative size: the model declines these explicitly
            Some(l) if l.get_width() < 0 || l.get_height() < 0 => "fail:negSize".into(),
            Some(l) => format!("ok {}", layer_digest(l)),
            None => "nolayer".into(),
        },
        Ok(Err(e)) => classify_err(&e).to_string(),
        Err(_) => "fail:panic".into(),
    }
}

fn malformed(run: &mut Run, rng: &mut Rng, base: &[Vec<u8>]) {
    let mut cs: Vec<Vec<u8>> = base.to_vec();
    if cs.is_empty() || cs[0].len() < 45 {
        return;
    }
    let tl = u32::from_le_bytes(cs[0][0..4].try_into().unwrap()) as usize;
    let fo = 4 + tl; // start of the fixed fields
    let kind = rng.below(10);
    match kind {
        0 => {
            // truncate anywhere
            let n = rng.below(cs[0].len() as u64 + 1) as usize;
            cs[0].truncate(n);
            cs.truncate(1);
        }
        1 => {
            // truncate inside the cell data
            let start = fo + 41;
            if cs[0].len() > start {
                let n = start + rng.below((cs[0].len() - start) as u64) as usize;
                cs[0].truncate(n);
            }
            cs.truncate(1);
        }
        2 => {
            // data length field: larger / smaller
            let o = fo + 33;
            let cur = u64::from_le_bytes(cs[0][o..o + 8].try_into().unwrap());
            let new = match rng.below(4) {
                0 => cur + 1,
                1 => cur + rng.below(1000),
                2 => cur.saturating_sub(1 + rng.below(8)),
                _ => rng.below(1 << 20),
            };
            cs[0][o..o + 8].copy_from_slice(&new.to_le_bytes());
        }
        3 => {
            // mode byte
            cs[0][fo + 5] = rng.below(6) as u8;
        }
        4 => {
            // width
            let o = fo + 23;
            let cur = u32::from_le_bytes(cs[0][o..o + 4].try_into().unwrap());
            let new = (cur as i64 + rng.range(-3, 3)).clamp(0, 400) as u32;
            cs[0][o..o + 4].copy_from_slice(&new.to_le_bytes());
        }
        5 => {
            // height
            let o = fo + 27;
            let cur = u32::from_le_bytes(cs[0][o..o + 4].try_into().unwrap());
            let new = (cur as i64 + rng.range(-3, 3)).clamp(0, 400) as u32;
            cs[0][o..o + 4].copy_from_slice(&new.to_le_bytes());
        }
        6 => {
            // flags / colour alpha / role other than image / spare bytes
            cs[0][fo + 10] = rng.next() as u8 & 0x3F;
            cs[0][fo + 9] = if rng.chance(1, 2) { 0 } else { rng.next() as u8 };
            cs[0][fo] = *rng.pick(&[0u8, 2, 3, 255]);
            cs[0][fo + 1 + rng.below(4) as usize] = rng.next() as u8;
        }
        9 => {
            // role byte 1 (image layer): 16 more bytes are needed, no cells are read, flags are applied,
            // continuation chunks only extend the picture data
            cs[0][fo] = 1;
            match rng.below(4) {
                0 => cs[0].truncate(fo + 41 + rng.below(17) as usize),
                1 => cs.truncate(1),
                2 => cs[0][fo + 10] = rng.next() as u8 & 0x3F,
                _ => {}
            }
        }
        7 => {
            // title length field
            let new = match rng.below(3) {
                0 => tl as u32 + 1 + rng.below(4) as u32,
                1 => (tl as u32).saturating_sub(1),
                _ => rng.below(1 << 16) as u32,
            };
            cs[0][0..4].copy_from_slice(&new.to_le_bytes());
        }
        _ => {
            // a byte inside the cell data
            let start = fo + 41;
            if cs[0].len() > start {
                let n = start + rng.below((cs[0].len() - start) as u64) as usize;
                cs[0][n] ^= 1 << rng.below(8);
            }
        }
    }
    let refs: Vec<&[u8]> = cs.iter().map(|c| c.as_slice()).collect();
    if payload_has_nonscalar(&refs) {
        run.count("malformed-nonscalar-char");
    }
    run.count(&format!("malformed-kind{kind}"));
    set_inflight("malformed-payload");
    let obs = observe_layer_load(&cs);
    run.count(&format!("malformed-{}", obs.split(' ').next().unwrap_or("")));
    run.case(&format!("icydraw dec {}", cs.iter().map(|p| hex(p)).collect::<Vec<_>>().join(" ")), &obs);
}

/// the cell data of a one-chunk layer moved (whole, cut, damaged or in pieces) into continuation chunks `LAYER_0~k`:
/// the continuation decoder makes the same length checks as the decoder of the first chunk
fn malformed_cont(run: &mut Run, rng: &mut Rng, base: &[Vec<u8>]) {
    if base.len() != 1 || base[0].len() < 45 {
        return;
    }
    let b = &base[0];
    let tl = u32::from_le_bytes(b[0..4].try_into().unwrap()) as usize;
    let start = 4 + tl + 41; // start of the cell data
    if b.len() <= start {
        return;
    }
    let data = b[start..].to_vec();
    // how much of the cell data stays in the first chunk (0 = none; otherwise a cut anywhere, mostly inside a row)
    let kind = rng.below(6);
    let keep = if kind == 5 { rng.below(data.len() as u64 + 1) as usize } else { 0 };
    let mut first = b[..start + keep].to_vec();
    first[start - 8..start].copy_from_slice(&(keep as u64).to_le_bytes());
    let mut rest = data[keep..].to_vec();
    let mut cs: Vec<Vec<u8>> = vec![first];
    match kind {
        0 | 5 => cs.push(rest),
        1 => {
            // cut anywhere
            let n = rng.below(rest.len() as u64 + 1) as usize;
            rest.truncate(n);
            cs.push(rest);
        }
        2 => {
            // a damaged byte
            let n = rng.below(rest.len() as u64) as usize;
            rest[n] ^= 1 << rng.below(8);
            cs.push(rest);
        }
        3 => {
            // two continuation chunks, split anywhere
            let n = rng.below(rest.len() as u64 + 1) as usize;
            let tail = rest.split_off(n);
            cs.push(rest);
            cs.push(tail);
        }
        _ => {
            // trailing bytes behind the rows
            let n = 1 + rng.below(3) as usize;
            rest.extend(rng.bytes(n));
            cs.push(rest);
        }
    }
    let refs: Vec<&[u8]> = cs.iter().map(|c| c.as_slice()).collect();
    if payload_has_nonscalar(&refs) {
        run.count("malformed-nonscalar-char");
    }
    run.count(&format!("malformed-cont-kind{kind}"));
    set_inflight("malformed-continuation");
    let obs = observe_layer_load(&cs);
    run.count(&format!("malformed-cont-{}", obs.split(' ').next().unwrap_or("")));
    run.case(&format!("icydraw dec {}", cs.iter().map(|p| hex(p)).collect::<Vec<_>>().join(" ")), &obs);
}

/// a continuation chunk whose layer number names no loaded layer (no layer at all, or one layer and a number >= 1)
fn cont_unseen(run: &mut Run, rng: &mut Rng, base: &[Vec<u8>]) {
    let mut cs: Vec<(String, Vec<u8>)> = vec![("ICED".into(), default_hdr())];
    let have = if base.len() == 1 && base[0].len() <= 4096 && rng.chance(1, 2) { 1 } else { 0 };
    if have == 1 {
        cs.push(("LAYER_0".into(), base[0].clone()));
    }
    let n = have + rng.below(3);
    let len = rng.below(6) as usize;
    cs.push((format!("LAYER_{n}~{}", 1 + rng.below(2)), rng.bytes(len)));
    cs.push(("END".into(), vec![]));
    let png = png_build(&cs);
    set_inflight("continuation-of-undefined-layer");
    let obs = match load(&png) {
        Ok(Ok(b)) => format!("ok layers={}", b.layers.len()),
        Ok(Err(e)) => classify_err(&e).to_string(),
        Err(_) => "fail:panic".into(),
    };
    run.count(&format!("cont-unseen-{obs}"));
    let mut op = String::from("icydraw load");
    for (k, p) in &cs {
        let _ = write!(op, " {}={}", k, hex(p));
    }
    run.case(&op, &obs);
}

fn malformed_header(run: &mut Run, rng: &mut Rng) {
    let mut h = default_hdr();
    match rng.below(4) {
        0 => h.truncate(rng.below(19) as usize),
        1 => {
            let n = 1 + rng.below(3) as usize;
            h.extend(rng.bytes(n));
        }
        2 => {
            for i in 6..11 {
                h[i] = rng.below(8) as u8;
            }
            h[7] = rng.below(3) as u8;
        }
        _ => {
            let w = rng.below(500) as u32;
            let hh = rng.below(500) as u32;
            h[11..15].copy_from_slice(&w.to_le_bytes());
            h[15..19].copy_from_slice(&hh.to_le_bytes());
            h[0] = rng.next() as u8;
            h[3] = rng.next() as u8;
        }
    }
    header_case(run, &h);
}

fn header_case(run: &mut Run, h: &[u8]) {
    let png = png_build(&[("ICED".into(), h.to_vec()), ("END".into(), vec![])]);
    set_inflight("malformed-header");
    let obs = match load(&png) {
        Ok(Ok(b)) => format!("ok {}", header_line(&b)),
        Ok(Err(e)) => classify_err(&e).to_string(),
        Err(_) => "fail:panic".into(),
    };
    run.case(&format!("icydraw dechdr {}", hex(h)), &obs);
}

// ------------------------------------------------------------------------------------------------ generators

const TITLES: &[&str] = &["", "Background", "Ebene ä", "层 1", "слой", "🙂 layer 🙂", "a", "naïve café — ŧ", "\u{10FFFF}\u{7FF}\u{800}\u{FFFF}\u{10000}", "x\0y"];

fn gen_layer(rng: &mut Rng, pages: &[usize], max_w: i32, max_h: i32, style: u32) -> LayerSpec {
    let w = match rng.below(8) {
        0 => 0,
        1 => 1,
        2 => max_w,
        _ => rng.range(1, max_w as i64) as i32,
    };
    let h = match rng.below(8) {
        0 => 0,
        1 => 1,
        2 => max_h,
        _ => rng.range(1, max_h as i64) as i32,
    };
    let fl = rng.below(32);
    let mut ops = Vec::new();
    if w > 0 && h > 0 {
        match rng.below(5) {
            0 => {}
            1 => ops.push(CellOp::Fill(0, 0, w - 1, h - 1, rng.next() >> 8, style & !2)), // every row full: no terminators
            2 => ops.push(CellOp::Fill(0, 0, w - 1, h - 1, rng.next() >> 8, style)),
            3 => {
                // rows of different visible lengths, including full and empty ones
                for y in 0..h {
                    let n = match rng.below(4) {
                        0 => 0,
                        1 => w,
                        _ => rng.range(0, w as i64) as i32,
                    };
                    if n > 0 {
                        ops.push(CellOp::Fill(0, y, n - 1, y, rng.next() >> 8, style));
                    }
                }
            }
            _ => {
                for _ in 0..rng.range(1, 12) {
                    let mut r2 = Rng::new(rng.next());
                    ops.push(CellOp::Set(rng.range(0, w as i64 - 1) as i32, rng.range(0, h as i64 - 1) as i32, gen_cell(&mut r2, style, pages)));
                }
            }
        }
    }
    LayerSpec {
        title: {
            let t = rng.pick(TITLES).to_string();
            if rng.chance(1, 6) {
                t.repeat(rng.range(2, 5) as usize)
            } else {
                t
            }
        },
        role: 0,
        mode: rng.below(3) as u8,
        color: if rng.chance(1, 2) {
            Some(if rng.chance(1, 4) { (0, 0, 0) } else { (rng.next() as u8, rng.next() as u8, rng.next() as u8) })
        } else {
            None
        },
        flags: [fl & 1 != 0, fl & 2 != 0, fl & 4 != 0, fl & 8 != 0, fl & 16 != 0],
        transparency: *rng.pick(&[0u8, 255, 128, 1, 77]),
        off: {
            let (a, b) = (rng.range(-50, 50) as i32, rng.range(-50, 50) as i32);
            (*rng.pick(&[0, -50, 50, -1, 1, a]), *rng.pick(&[0, -50, 50, -1, 1, b]))
        },
        size: (w, h),
        default_page: *rng.pick(pages),
        shape: rng.below(4) as u8,
        ops,
    }
}

fn gen_doc(rng: &mut Rng, max_w: i32, max_h: i32, style: u32) -> DocSpec {
    let nfonts = 1 + rng.below(3) as usize;
    // fonts: built-in ones (8 wide) and custom ones of every width 1..=8 and height 1..=32, 256 or 512 glyphs, in any slot
    let custom = |rng: &mut Rng| FontSpec::Custom {
        w: rng.range(1, 8) as u8,
        h: {
            let any = rng.range(1, 32) as u8;
            *rng.pick(&[1u8, 2, 8, 14, 16, 19, 32, any])
        },
        len: if rng.chance(1, 4) { 512 } else { 256 },
        pat: if rng.chance(1, 2) { rng.below(5) } else { rng.next() >> 16 },
        name: rng.pick(&["", "F", "Schrift ü", "IBM VGA", "字体"]).to_string(),
    };
    let mut fonts: Vec<(usize, FontSpec)> = vec![(0, if rng.chance(1, 6) { custom(rng) } else { FontSpec::Builtin(*rng.pick(&[0usize, 0, 1, 5])) })];
    while fonts.len() < nfonts {
        let slot = *rng.pick(&[1usize, 2, 42, 255, 256, 257, 299, 300]);
        if !fonts.iter().any(|f| f.0 == slot) {
            fonts.push((slot, if rng.chance(1, 3) { custom(rng) } else { FontSpec::Builtin(rng.below(42) as usize) }));
        }
    }
    let pages: Vec<usize> = fonts.iter().map(|f| f.0).collect();
    let palette: Vec<(u8, u8, u8)> = match rng.below(8) {
        7 => {
            // a proper prefix of the DOS default palette (1..=15 colours), or the default with one more colour: "is it the
            // default palette?" must compare the length too
            let p: Vec<(u8, u8, u8)> = Palette::dos_default().color_iter().map(|c| c.get_rgb()).collect();
            if rng.chance(3, 4) {
                p[..rng.range(1, 16) as usize].to_vec()
            } else {
                let mut q = p;
                q.push((rng.next() as u8, 0, 0));
                q
            }
        }
        0 => Palette::dos_default().color_iter().map(|c| c.get_rgb()).collect(),
        5 => {
            // the same colour in several slots: a default palette padded with black, or one entry copied over another
            let mut p: Vec<(u8, u8, u8)> = Palette::dos_default().color_iter().map(|c| c.get_rgb()).collect();
            if rng.chance(1, 2) {
                for _ in 0..rng.range(1, 20) {
                    p.push((0, 0, 0));
                }
                p.push((1, 2, 3));
            } else {
                let (i, j) = (rng.below(16) as usize, rng.below(16) as usize);
                p[i] = p[j];
            }
            p
        }
        6 => {
            // few distinct colours, many slots
            let k = rng.range(1, 4) as usize;
            let cols: Vec<(u8, u8, u8)> = (0..k).map(|_| (rng.next() as u8, rng.next() as u8, rng.next() as u8)).collect();
            (0..rng.range(2, 40) as usize).map(|_| *rng.pick(&cols)).collect()
        }
        1 => {
            let mut p: Vec<(u8, u8, u8)> = Palette::dos_default().color_iter().map(|c| c.get_rgb()).collect();
            let i = rng.below(16) as usize;
            p[i] = (p[i].0 ^ 1, p[i].1, p[i].2);
            p
        }
        2 => (0..*rng.pick(&[1usize, 2, 15, 17])).map(|_| (rng.next() as u8, rng.next() as u8, rng.next() as u8)).collect(),
        3 => (0..*rng.pick(&[256usize, 257, 300])).map(|i| (i as u8, (i >> 8) as u8, rng.next() as u8)).collect(),
        _ => (0..rng.range(1, 300) as usize).map(|_| (rng.next() as u8, rng.next() as u8, rng.next() as u8)).collect(),
    };
    let sauce = if rng.chance(1, 2) {
        let word = |rng: &mut Rng, n: usize| -> String {
            let len = rng.below(n as u64 + 1) as usize;
            let mut s: String = (0..len).map(|_| (b'!' + rng.below(90) as u8) as char).collect();
            if rng.chance(1, 3) && len > 2 {
                s.replace_range(1..2, " ");
            }
            s
        };
        Some(SauceSpec {
            title: word(rng, 35),
            author: word(rng, 20),
            group: word(rng, 20),
            comments: {
                // lines start with 'c' (so that they never end up empty by chance); blank lines — at the start, between other
                // lines, at the end — are added on purpose: they are comment lines like any other and count
                let mut cs: Vec<String> = (0..rng.below(4)).map(|_| { let mut c = word(rng, 63); c.insert(0, 'c'); c }).collect();
                if rng.chance(1, 3) {
                    for _ in 0..rng.range(1, 3) {
                        let at = rng.below(cs.len() as u64 + 1) as usize;
                        cs.insert(at, String::new());
                    }
                }
                cs
            },
            letter_spacing: rng.chance(1, 2),
            aspect_ratio: rng.chance(1, 2),
        })
    } else {
        None
    };
    let nl = 1 + rng.below(6) as usize;
    DocSpec {
        bt: rng.below(5) as u8,
        ice: rng.below(3) as u8,
        pal_mode: rng.below(4) as u8,
        font_mode: rng.below(4) as u8,
        size: (*rng.pick(&[0, 1, 3, 8, 11]), *rng.pick(&[0, 1, 2, 5, 7])),
        sauce,
        palette,
        fonts,
        layers: (0..nl).map(|_| gen_layer(rng, &pages, max_w, max_h, style)).collect(),
    }
}

fn simple_doc(layer: LayerSpec) -> DocSpec {
    DocSpec {
        bt: 1,
        ice: 0,
        pal_mode: 1,
        font_mode: 1,
        size: (4, 2),
        sauce: None,
        palette: Palette::dos_default().color_iter().map(|c| c.get_rgb()).collect(),
        fonts: vec![(0, FontSpec::Builtin(0))],
        layers: vec![layer],
    }
}

fn plain_layer(w: i32, h: i32, ops: Vec<CellOp>) -> LayerSpec {
    LayerSpec {
        title: "L".into(),
        role: 0,
        mode: 0,
        color: None,
        flags: [true, false, false, false, false],
        transparency: 0,
        off: (0, 0),
        size: (w, h),
        default_page: 0,
        shape: 0,
        ops,
    }
}

fn vis(ch: u32) -> CellSpec {
    CellSpec { ch, fg: 7, bg: 0, page: 0, attr: 0 }
}

/// hand-made boundary documents (all inside the property's quantifier)
fn boundary_docs() -> Vec<DocSpec> {
    let mut v = Vec::new();
    let inv = |extra: u16| CellSpec { ch: 32, fg: 7, bg: 0, page: 0, attr: attribute::INVISIBLE | extra };
    // invisible cell with another attribute bit, followed by a visible cell
    v.push(simple_doc(plain_layer(3, 1, vec![CellOp::Set(0, 0, inv(attribute::BOLD)), CellOp::Set(1, 0, vis(0x41))])));
    v.push(simple_doc(plain_layer(
        6,
        2,
        vec![CellOp::Set(0, 0, inv(attribute::UNDERLINE)), CellOp::Set(1, 0, vis(0x41)), CellOp::Set(2, 0, vis(0x42)), CellOp::Set(3, 0, vis(0x43)), CellOp::Set(5, 1, vis(0x263A))],
    )));
    // full rows / widths 0 / heights 0
    v.push(simple_doc(plain_layer(2, 2, vec![CellOp::Set(0, 0, vis(0x41)), CellOp::Set(1, 0, vis(0x42)), CellOp::Set(0, 1, vis(0x43)), CellOp::Set(1, 1, vis(0x100))])));
    v.push(simple_doc(plain_layer(0, 0, vec![])));
    v.push(simple_doc(plain_layer(0, 5, vec![])));
    v.push(simple_doc(plain_layer(5, 0, vec![])));
    v.push(simple_doc(plain_layer(1, 1, vec![])));
    v.push(simple_doc(plain_layer(1, 1, vec![CellOp::Set(0, 0, vis(0x10FFFF))])));
    // short/long threshold on every field
    for (ch, fg, bg, page) in [(255u32, 255u32, 255u32, 255usize), (256, 0, 0, 0), (0, 256, 0, 0), (0, 0, 256, 0), (0, 0, 0, 256), (255, 255, 255, 256)] {
        let mut d = simple_doc(plain_layer(2, 1, vec![CellOp::Set(0, 0, CellSpec { ch, fg, bg, page, attr: 0x03FF }), CellOp::Set(1, 0, vis(0x41))]));
        d.fonts = vec![(0, FontSpec::Builtin(0)), (255, FontSpec::Builtin(1)), (256, FontSpec::Builtin(2))];
        v.push(d);
    }
    // transparent colours
    v.push(simple_doc(plain_layer(
        2,
        1,
        vec![
            CellOp::Set(0, 0, CellSpec { ch: 0xDF, fg: TextAttribute::TRANSPARENT_COLOR, bg: 1, page: 0, attr: 0 }),
            CellOp::Set(1, 0, CellSpec { ch: 0x41, fg: 2, bg: TextAttribute::TRANSPARENT_COLOR, page: 0, attr: 0 }),
        ],
    )));
    // every flag alone, offsets at the bounds, default font page >= 256
    for k in 0..5 {
        let mut l = plain_layer(2, 2, vec![CellOp::Set(1, 1, vis(0x41))]);
        l.flags = [k == 0, k == 1, k == 2, k == 3, k == 4];
        l.off = if k % 2 == 0 { (-50, 50) } else { (50, -50) };
        l.default_page = 300;
        l.title = TITLES[5 + k].into();
        l.color = Some((1, 2, 3));
        l.transparency = 200;
        l.mode = (k % 3) as u8;
        let mut d = simple_doc(l);
        d.fonts = vec![(0, FontSpec::Builtin(0)), (300, FontSpec::Builtin(3))];
        v.push(d);
    }
    // six layers, sauce, big palette
    let mut d = simple_doc(plain_layer(3, 2, vec![CellOp::Fill(0, 0, 2, 1, 7, 7)]));
    for i in 0..5 {
        let mut l = plain_layer(2 + i, 1 + i, vec![CellOp::Fill(0, 0, 1 + i, i, 11 + i as u64, 7)]);
        l.title = format!("layer {i} — ü");
        l.off = (i - 2, 2 - i);
        d.layers.push(l);
    }
    d.palette = (0..300).map(|i| (i as u8, (i / 2) as u8, (i / 3) as u8)).collect();
    d.sauce = Some(SauceSpec { title: "Title".into(), author: "Me".into(), group: "Grp".into(), comments: vec!["one".into(), "two".into()], letter_spacing: true, aspect_ratio: false });
    v.push(d);
    v
}

/// font slots used by the families that exercise font pages: every byte boundary of the u16 page and every bit of it
const PAGE_SLOTS: &[usize] = &[0, 1, 2, 4, 8, 16, 32, 64, 127, 128, 254, 255, 256, 257, 299, 300];

fn pages_fonts() -> Vec<(usize, FontSpec)> {
    // small custom fonts (8 x 2) keep these documents light; slot 0 stays the default font
    PAGE_SLOTS.iter().map(|s| (*s, if *s == 0 { FontSpec::Builtin(0) } else { FontSpec::Custom { w: 8, h: 2, len: 256, pat: *s as u64 + 5, name: format!("p{s}") } })).collect()
}

/// SYSTEMATIC families: every listed field of the property takes every value of its boundary set (or of its whole
/// range where that is small) while the rest of the document stays plain — one field at a time, so that a loss confined
/// to one value of one field cannot hide.  All inside the property's quantifier unless the flag says otherwise.
fn family_docs(thorough: bool) -> Vec<(DocSpec, bool)> {
    let mut v: Vec<(DocSpec, bool)> = Vec::new();
    let one = || plain_layer(1, 1, vec![CellOp::Set(0, 0, vis(0x41))]);
    // (a) header modes: every variant of every mode field, all combinations
    for bt in 0..BUFFER_TYPES.len() as u8 {
        for ice in 0..ICE_MODES.len() as u8 {
            for pm in 0..PALETTE_MODES.len() as u8 {
                for fm in 0..FONT_MODES.len() as u8 {
                    let mut d = simple_doc(one());
                    (d.bt, d.ice, d.pal_mode, d.font_mode) = (bt, ice, pm, fm);
                    d.size = (1, 1);
                    v.push((d, true));
                }
            }
        }
    }
    // (b) buffer size: every byte of the two u32 fields that a renderable size reaches
    for size in [(0, 0), (1, 0), (0, 1), (1, 1), (80, 25), (255, 1), (256, 1), (257, 1), (300, 2), (1, 255), (1, 256), (1, 257), (2, 300), (132, 60)] {
        let mut d = simple_doc(one());
        d.size = size;
        v.push((d, true));
    }
    // (c) font slots: every width 1..=8 x heights, every height 1..=32, 256 and 512 glyphs, every pattern, slot 0 and others
    {
        let mut specs: Vec<FontSpec> = Vec::new();
        let heights: Vec<u8> = if thorough { (1..=32).collect() } else { vec![1, 2, 8, 14, 16, 32] };
        for w in 1..=8u8 {
            for h in &heights {
                specs.push(FontSpec::Custom { w, h: *h, len: 256, pat: 5 + w as u64 * 40 + *h as u64, name: format!("f{w}x{h}") });
            }
        }
        for h in 1..=32u8 {
            let w = h % 8 + 1;
            specs.push(FontSpec::Custom { w, h, len: if h % 3 == 0 { 512 } else { 256 }, pat: (h % 5) as u64, name: format!("g{w}x{h} ü") });
        }
        for (i, f) in specs.into_iter().enumerate() {
            let mut d = simple_doc(plain_layer(2, 1, vec![CellOp::Set(0, 0, vis(0x41)), CellOp::Set(1, 0, CellSpec { ch: 0x42, fg: 7, bg: 0, page: if i % 3 == 0 { 0 } else { PAGE_SLOTS[i % PAGE_SLOTS.len()] }, attr: 0 })]));
            // the font under test sits in slot 0 (it then also gives the preview its cell size) or in another slot
            d.fonts = if i % 3 == 0 { vec![(0, f)] } else { vec![(0, FontSpec::Builtin(0)), (PAGE_SLOTS[i % PAGE_SLOTS.len()].max(1), f)] };
            if i % 3 != 0 && PAGE_SLOTS[i % PAGE_SLOTS.len()] == 0 {
                d.layers[0].ops.truncate(1);
            }
            v.push((d, true));
        }
        // outside the domain (model tie only): widths a one-byte glyph row cannot have — written, then refused by the reader
        for w in [0u8, 9, 16, 255] {
            let mut d = simple_doc(one());
            d.fonts = vec![(0, FontSpec::Builtin(0)), (1, FontSpec::Custom { w, h: 3, len: 256, pat: 2, name: "wide".into() })];
            v.push((d, false));
        }
    }
    // (d) cells: the font page of short and long cells over every page slot; every attribute bit; every colour bit and byte
    //     boundary; character boundaries — as rows of one layer
    {
        let n = PAGE_SLOTS.len() as i32;
        let mut ops = Vec::new();
        for (i, pg) in PAGE_SLOTS.iter().enumerate() {
            ops.push(CellOp::Set(i as i32, 0, CellSpec { ch: 0x41, fg: 7, bg: 0, page: *pg, attr: 0 }));
            ops.push(CellOp::Set(i as i32, 1, CellSpec { ch: 0x2588, fg: 7, bg: 0, page: *pg, attr: 0 }));
            ops.push(CellOp::Set(i as i32, 2, CellSpec { ch: 0x41, fg: 256, bg: 0, page: *pg, attr: 0 }));
        }
        let mut d = simple_doc(plain_layer(n, 3, ops));
        d.fonts = pages_fonts();
        v.push((d, true));
        for pg in PAGE_SLOTS {
            // … and as the layer's default font page
            let mut l = plain_layer(2, 1, vec![CellOp::Set(0, 0, CellSpec { ch: 0x41, fg: 7, bg: 0, page: *pg, attr: 0 })]);
            l.default_page = *pg;
            let mut d = simple_doc(l);
            d.fonts = vec![(0, FontSpec::Builtin(0))];
            if *pg != 0 {
                d.fonts.push((*pg, FontSpec::Custom { w: 8, h: 2, len: 256, pat: 9, name: "d".into() }));
            }
            v.push((d, true));
        }
        let mut ops = Vec::new();
        for k in 0..14 {
            ops.push(CellOp::Set(k, 0, CellSpec { ch: 0x41, fg: 7, bg: 0, page: 0, attr: 1 << k }));
            ops.push(CellOp::Set(k, 1, CellSpec { ch: 0x100, fg: 7, bg: 0, page: 0, attr: 1 << k }));
            ops.push(CellOp::Set(k, 2, CellSpec { ch: 0x41, fg: 7, bg: 0, page: 0, attr: 0x3FFF & !(1 << k) }));
        }
        v.push((simple_doc(plain_layer(14, 3, ops)), true));
        let cols: Vec<u32> = (0..32).map(|k| 1u32 << k).chain([0, 255, 256, 257, 65535, 65536, 0xFF_FFFF, 0x100_0000, 0x7FFF_FFFF, 0xFFFF_FFFF, 0x8000_0001]).collect();
        let mut ops = Vec::new();
        for (i, c) in cols.iter().enumerate() {
            ops.push(CellOp::Set(i as i32, 0, CellSpec { ch: 0x41, fg: *c, bg: 0, page: 0, attr: 0 }));
            ops.push(CellOp::Set(i as i32, 1, CellSpec { ch: 0x41, fg: 0, bg: *c, page: 0, attr: 0 }));
            ops.push(CellOp::Set(i as i32, 2, CellSpec { ch: 0x100, fg: *c, bg: *c, page: 0, attr: 0 }));
        }
        v.push((simple_doc(plain_layer(cols.len() as i32, 3, ops)), true));
        let chs: &[u32] = &[0, 1, 0x1F, 0x20, 0x7F, 0x80, 0xFF, 0x100, 0x101, 0x7FF, 0x800, 0xFFF, 0xD7FF, 0xE000, 0xFFFF, 0x10000, 0x1F600, 0xFFFFF, 0x100000, 0x10FFFF];
        let ops = chs.iter().enumerate().map(|(i, c)| CellOp::Set(i as i32, 0, vis(*c))).collect();
        v.push((simple_doc(plain_layer(chs.len() as i32, 1, ops)), true));
    }
    // (e) layer fields, one at a time, six layers to a document
    {
        let mut ls: Vec<LayerSpec> = Vec::new();
        let base = || plain_layer(2, 2, vec![CellOp::Set(1, 1, vis(0x42))]);
        for t in 0..=255u8 {
            if thorough || t < 4 || t > 251 || t % 16 == 0 || t % 16 == 15 || [100, 127, 128, 129].contains(&t) {
                let mut l = base();
                l.transparency = t;
                ls.push(l);
            }
        }
        for o in -50..=50 {
            let mut l = base();
            l.off = (o, -o);
            ls.push(l);
        }
        for c in [None, Some((0, 0, 0)), Some((1, 0, 0)), Some((0, 1, 0)), Some((0, 0, 1)), Some((255, 0, 0)), Some((0, 255, 0)), Some((0, 0, 255)), Some((127, 128, 129)), Some((255, 255, 255))] {
            let mut l = base();
            l.color = c;
            ls.push(l);
        }
        for m in 0..3 {
            for fl in 0..32u32 {
                let mut l = base();
                l.mode = m;
                l.flags = [fl & 1 != 0, fl & 2 != 0, fl & 4 != 0, fl & 8 != 0, fl & 16 != 0];
                ls.push(l);
            }
        }
        for t in TITLES.iter().map(|t| t.to_string()).chain(["x".repeat(255), "x".repeat(256), "ä".repeat(300), "\u{1F600}".repeat(70), " ".into(), "a b  c ".into()]) {
            let mut l = base();
            l.title = t;
            ls.push(l);
        }
        for (w, h) in [(0, 0), (1, 0), (0, 1), (2, 119), (2, 120), (199, 2), (200, 2), (127, 3), (128, 3), (129, 3), (200, 120), (255, 1), (1, 120)] {
            // within 0..=200 x 0..=120 except (255, 1): first and last cell set, the rest empty
            if w > 200 {
                continue;
            }
            let mut l = plain_layer(w, h, if w > 0 && h > 0 { vec![CellOp::Set(0, 0, vis(0x41)), CellOp::Set(w - 1, h - 1, vis(0x5A))] } else { vec![] });
            l.shape = 1;
            ls.push(l);
        }
        for (i, l) in ls.iter_mut().enumerate() {
            // every other layer is built directly (public fields, own grid) instead of through the setters the loader uses
            if i % 2 == 1 && l.shape == 0 {
                l.shape = 3;
            }
        }
        for chunk in ls.chunks(6) {
            let mut d = simple_doc(chunk[0].clone());
            d.layers = chunk.to_vec();
            v.push((d, true));
        }
    }
    // (f) palette sizes at the boundaries of the quantifier and of the one-byte / 16-colour limits
    for n in [1usize, 2, 15, 16, 17, 255, 256, 257, 299, 300] {
        let mut d = simple_doc(one());
        d.palette = (0..n).map(|i| (i as u8, (i >> 8) as u8 ^ 0x55, 255 - (i as u8))).collect();
        v.push((d, true));
    }
    // (g) SAUCE: field lengths 0 / 1 / max, both flags in all combinations, 0 / 1 / 2 / 10 / 255 comment lines
    {
        let s = |n: usize, c: char| -> String { (0..n).map(|i| if i % 7 == 6 { ' ' } else { c }).collect::<String>().trim_end().to_string() };
        for (tl, al, gl, nc, ls, ar) in [(0, 0, 0, 0, false, false), (1, 1, 1, 1, true, false), (35, 20, 20, 2, false, true), (34, 19, 19, 10, true, true), (35, 0, 20, 255, false, false), (0, 20, 0, 3, true, true)] {
            let mut d = simple_doc(one());
            d.sauce = Some(SauceSpec {
                title: s(tl, 'T'),
                author: s(al, 'A'),
                group: s(gl, 'G'),
                comments: (0..nc).map(|i| if i % 5 == 4 { String::new() } else { format!("c{i} {}", s(i % 60, 'x')) }).collect(),
                letter_spacing: ls,
                aspect_ratio: ar,
            });
            v.push((d, true));
        }
    }
    // (h) model tie only: roles other than Normal / Image are written as Normal (transient paste layers of the editor)
    for role in [1u8, 2] {
        let mut l = one();
        l.role = role;
        v.push((simple_doc(l), false));
    }
    v
}

/// The pinned loader could ABORT the process (`char::from_u32_unchecked` on a non-scalar value in the debug profile), which
/// `catch_unwind` cannot stop (the repaired loader returns `Err` there; the supervision stays as a safety net).  So the work runs in a child process writing to `<out>/child`; the parent merges the
/// child's files and, if the child died, reports the document whose load was in flight as an oracle failure.
fn supervise(run: &mut Run) {
    let args: Vec<String> = std::env::args().collect();
    let out = args.iter().position(|a| a == "--out").and_then(|i| args.get(i + 1)).cloned().unwrap_or_else(|| "work/tmp".into());
    let child_out = Path::new(&out).join("child");
    let _ = std::fs::remove_dir_all(&child_out);
    let mut cargs: Vec<String> = Vec::new();
    let mut i = 1;
    while i < args.len() {
        if args[i] == "--out" {
            cargs.push("--out".into());
            cargs.push(child_out.to_string_lossy().to_string());
            i += 2;
        } else {
            cargs.push(args[i].clone());
            i += 1;
        }
    }
    let status = std::process::Command::new(std::env::current_exe().unwrap())
        .args(&cargs)
        .env("VERIF_C07_CHILD", "1")
        .stderr(std::process::Stdio::null())
        .status();
    let read = |n: &str| std::fs::read(child_out.join(n)).map(|b| String::from_utf8_lossy(&b).to_string()).unwrap_or_default();
    let (ops, imp) = (read("ops.txt"), read("impl.txt"));
    let complete = |t: &str| -> usize { t.matches('\n').count() };
    let n = complete(&ops).min(complete(&imp));
    for (o, a) in ops.lines().zip(imp.lines()).take(n) {
        run.case(o, a);
    }
    let oracle = read("oracle.txt");
    for line in oracle.lines().take(complete(&oracle)) {
        let p: Vec<&str> = line.split('\t').collect();
        if p.len() >= 4 && p[0] == "FAIL" {
            run.oracle_fail(p[1], p[2], p[3]);
        }
    }
    for line in read("side.txt").lines() {
        let p: Vec<&str> = line.splitn(3, '\t').collect();
        match p.as_slice() {
            ["N", h] => run.nontrivial(h.parse().unwrap_or(0)),
            ["C", b, c] => *run.hist.entry(b.to_string()).or_insert(0) += c.parse::<u64>().unwrap_or(0),
            ["X", k, v] => run.extra.push((k.to_string(), v.to_string())),
            _ => {}
        }
    }
    let ok = matches!(&status, Ok(s) if s.success());
    if !ok {
        let inflight = read("inflight.txt");
        let what = format!("the process died ({:?}) while Buffer::from_bytes was loading this saved document", status.map(|s| s.to_string()));
        if DocSpec::from_text(&inflight).map_or(false, |d| !d.layers.is_empty()) && inflight.starts_with('H') {
            run.oracle_fail("load-abort", inflight.trim(), &what);
        } else {
            run.extra.push(("child-died".into(), format!("{} in flight: {}", what, inflight.chars().take(80).collect::<String>())));
            run.count("child-died-outside-oracle");
        }
    }
}

pub fn run(run: &mut Run, seed: u64, thorough: bool, replay: Option<&str>, corpus: &[String]) {
    if std::env::var("VERIF_C07_CHILD").is_err() {
        return supervise(run);
    }
    let out = {
        let args: Vec<String> = std::env::args().collect();
        args.iter().position(|a| a == "--out").and_then(|i| args.get(i + 1)).cloned().unwrap_or_else(|| "work/tmp".into())
    };
    INFLIGHT.with(|i| *i.borrow_mut() = Some((Path::new(&out).join("inflight.txt"), String::new())));
    run_child(run, seed, thorough, replay, corpus);
    // what the parent cannot recompute from ops/impl/oracle
    let mut side = String::new();
    for h in &run.nontrivial {
        let _ = writeln!(side, "N\t{h}");
    }
    for (b, c) in &run.hist {
        let _ = writeln!(side, "C\t{b}\t{c}");
    }
    for (k, v) in &run.extra {
        let _ = writeln!(side, "X\t{k}\t{}", v.replace(['\n', '\t'], " "));
    }
    let _ = std::fs::write(Path::new(&out).join("side.txt"), side);
}

fn run_child(run: &mut Run, seed: u64, thorough: bool, replay: Option<&str>, corpus: &[String]) {
    if let Some(r) = replay {
        match DocSpec::from_text(r) {
            Some(d) => one_doc(run, &d, &Opts { oracle: true }),
            None => run.extra.push(("bad-replay".into(), r.to_string())),
        }
        return;
    }
    for c in corpus {
        if let Some(d) = DocSpec::from_text(c) {
            one_doc(run, &d, &Opts { oracle: true });
        }
    }
    for d in boundary_docs() {
        one_doc(run, &d, &Opts { oracle: true });
    }
    {
        let fam = family_docs(thorough);
        run.extra.push(("systematic_families".into(), format!("{} documents: all 240 header-mode combinations, buffer sizes, font slots of every width 1..=8 / height 1..=32 / 256+512 glyphs, font pages, attribute bits, colour bits, character boundaries, layer fields one at a time, palette sizes, SAUCE shapes", fam.len())));
        for (d, oracle) in fam {
            run.count(if oracle { "family-doc" } else { "family-doc-outside-domain" });
            one_doc(run, &d, &Opts { oracle });
            if oracle && d.layers.len() == 1 && d.layers[0].ops.len() > 2 {
                // the cell families once more with the source lines written directly (not through `Layer::set_char`)
                let mut e = d.clone();
                e.layers[0].shape = 3;
                run.count("family-doc-direct-lines");
                one_doc(run, &e, &Opts { oracle });
            }
        }
    }
    // exhaustive small scope: every layer of size w x h (quick: up to 2 x 2, thorough: up to 3 x 2) over four kinds of cell
    // (short visible, long visible, plain invisible, invisible with another attribute bit) — every placement of row
    // terminators, skipped cells and short/long records relative to the width
    {
        let kinds = [
            CellSpec { ch: 0x41, fg: 7, bg: 1, page: 0, attr: 1 },
            CellSpec { ch: 0x2588, fg: 300, bg: TextAttribute::TRANSPARENT_COLOR, page: 0, attr: 0x208 },
            CellSpec { ch: 32, fg: 7, bg: 0, page: 0, attr: attribute::INVISIBLE },
            CellSpec { ch: 32, fg: 7, bg: 0, page: 0, attr: attribute::INVISIBLE | attribute::UNDERLINE },
        ];
        let (mw, mh) = if thorough { (3, 2) } else { (2, 2) };
        let mut n = 0u64;
        for w in 0..=mw {
            for h in 0..=mh {
                let cells = (w * h) as u32;
                for code in 0..4u32.pow(cells) {
                    let mut ops = Vec::new();
                    for i in 0..cells {
                        let k = (code >> (2 * i)) & 3;
                        ops.push(CellOp::Set((i % w as u32) as i32, (i / w as u32) as i32, kinds[k as usize].clone()));
                    }
                    one_doc(run, &simple_doc(plain_layer(w, h, ops.clone())), &Opts { oracle: true });
                    // … and with the source lines written directly (not through `Layer::set_char`)
                    let mut direct = plain_layer(w, h, ops);
                    direct.shape = 3;
                    one_doc(run, &simple_doc(direct), &Opts { oracle: true });
                    n += 2;
                }
            }
        }
        run.extra.push(("exhaustive_small_scope".into(), format!("all {n} layers up to {mw}x{mh} over 4 cell kinds")));
    }
    let mut rng = Rng::new(seed.wrapping_mul(0x9E37).wrapping_add(7));
    // documents of the quantifier, scaled down
    let n_small = if thorough { 10000 } else { 250 };
    for _ in 0..n_small {
        let d = gen_doc(&mut rng, 9, 5, 15);
        one_doc(run, &d, &Opts { oracle: true });
    }
    let n_mid = if thorough { 1000 } else { 15 };
    for _ in 0..n_mid {
        let d = gen_doc(&mut rng, 40, 20, 15);
        one_doc(run, &d, &Opts { oracle: true });
    }
    // full-size layers (200 x 120)
    let n_big = if thorough { 40 } else { 2 };
    for i in 0..n_big {
        let mut d = gen_doc(&mut rng, 9, 5, 15);
        d.layers.truncate(1);
        let mut l = plain_layer(200, 120, vec![CellOp::Fill(0, 0, 199, 119, rng.next() >> 8, if i % 2 == 0 { 15 } else { 13 })]);
        l.default_page = d.layers[0].default_page;
        l.off = (-50, 50);
        d.layers.push(l);
        d.size = (2, 2);
        one_doc(run, &d, &Opts { oracle: true });
    }
    // outside the property's domain, for the model tie only: visible cells carrying the SHORT_DATA marker
    for _ in 0..(if thorough { 600 } else { 40 }) {
        let d = gen_doc(&mut rng, 6, 4, 31);
        one_doc(run, &d, &Opts { oracle: false });
    }
    // malformed layer payloads and headers against the real loader
    let n_mal = if thorough { 30000 } else { 800 };
    let mut bases: Vec<Vec<Vec<u8>>> = Vec::new();
    for _ in 0..(if thorough { 150 } else { 30 }) {
        let mut d = gen_doc(&mut rng, 7, 4, 15);
        d.layers.truncate(1);
        d.palette = Palette::dos_default().color_iter().map(|c| c.get_rgb()).collect();
        d.fonts.truncate(1);
        d.layers[0] = gen_layer(&mut rng, &[0], 7, 4, 15);
        d.sauce = None;
        let buf = build_doc(&d);
        let mut opt = SaveOptions::new();
        opt.lossles_output = true;
        if let Ok(Ok(bytes)) = catch(std::panic::AssertUnwindSafe(|| buf.to_bytes("icy", &opt).map_err(|e| e.to_string()))) {
            if let Ok(cs) = png_text_chunks(&bytes) {
                let mine: Vec<Vec<u8>> = cs.into_iter().filter(|(k, _)| k.starts_with("LAYER_0")).map(|(_, p)| p).collect();
                if !mine.is_empty() {
                    bases.push(mine);
                }
            }
        }
    }
    if !bases.is_empty() {
        for _ in 0..n_mal {
            let b = rng.pick(&bases).clone();
            malformed(run, &mut rng, &b);
        }
        for _ in 0..n_mal / 4 {
            let b = rng.pick(&bases).clone();
            malformed_cont(run, &mut rng, &b);
        }
        for _ in 0..(if thorough { 200 } else { 20 }) {
            let b = rng.pick(&bases).clone();
            cont_unseen(run, &mut rng, &b);
        }
    }
    for _ in 0..(if thorough { 1500 } else { 100 }) {
        malformed_header(run, &mut rng);
    }
    // every byte value of every mode field of the ICED header (the `_` arms of the four `from_byte` tables), and the high
    // byte of the 16-bit buffer type, which the reader drops
    for field in 6..11usize {
        for b in 0..=255u8 {
            let mut h = default_hdr();
            h[field] = b;
            header_case(run, &h);
        }
    }
    // FONT_n payloads damaged field by field
    {
        let bases: Vec<Vec<u8>> = [
            FontSpec::Custom { w: 8, h: 1, len: 256, pat: 2, name: "a".into() },
            FontSpec::Custom { w: 6, h: 3, len: 256, pat: 7, name: "".into() },
            FontSpec::Custom { w: 5, h: 2, len: 512, pat: 3, name: "ü".into() },
        ]
        .iter()
        .map(|f| {
            let f = build_font(f);
            let mut p = (f.name.len() as u32).to_le_bytes().to_vec();
            p.extend(f.name.as_bytes());
            p.extend(f.to_psf2_bytes().unwrap_or_default());
            p
        })
        .collect();
        for _ in 0..(if thorough { 4000 } else { 240 }) {
            let b = rng.pick(&bases).clone();
            malformed_font(run, &mut rng, &b);
        }
    }
    if thorough {
        // beyond the quantifier: one synthetic layer large enough to be split into continuation chunks (model tie only)
        for (w, h, style, flags) in [(1500, 160, 32u32, [true, false, false, false, false]), (1500, 160, 34, [true, false, false, false, false]), (1500, 160, 34, [true, true, false, true, true])] {
            let mut l = plain_layer(w, h, vec![CellOp::Fill(0, 0, w - 1, h - 1, rng.next() >> 8, style)]);
            l.flags = flags;
            let mut d = simple_doc(l);
            d.size = (1, 1);
            one_doc(run, &d, &Opts { oracle: false });
        }
    }
    run.extra.push(("quantifier".into(), "1..=6 layers, sizes up to 200x120 (scaled down in quick), offsets -50..=50, all flag combinations, Unicode titles, short/long/invisible/transparent cells, palettes 1..=300, font slots 0..=300, with/without SAUCE".into()));
}
