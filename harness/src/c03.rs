//! C03: work per input is bounded by the screen size, not by numbers in the input.
//! Oracle: every entry of the control-function table with extreme parameters, macro / hex-macro / sixel / Avatar /
//! custom-font / binary-header cases, each timed in a crash-isolated worker with an address-space cap.
//! Added: the bitmap-font loaders and palette importers (`@font:` / `@fontdcs.N:` / `@palf.F:` / `@pal.E:` cases of
//! harness/src/fontpal.rs: headers declaring extreme sizes, a glyph height of 0 in front of data, palette count lines
//! with huge numbers, overlong lines) timed the same way and compared with the model (`fontload …`), and the
//! rectangle-area commands DECRQCRA / DECFRA / DECERA / DECSERA with every combination of extreme rectangle
//! coordinates (`rect <cmd> <w> <h> <lf> <params>`): time, and the number of cells visited against the model's loop count
//! (`rect crc|fill …`: checksum of a uniformly filled screen / cells changed).
use crate::term::*;
use crate::util::*;
use icy_engine::{Buffer, BufferParser, CallbackAction, Sixel, TextPane};

/// a token slower than this (debug build) counts as unbounded work; generous: the slowest legitimate token of the
/// table (a macro replaying 40 screenfuls of REP) takes ~0.3 s here
fn slow_ms() -> u128 {
    std::env::var("VERIF_slow_ms()").ok().and_then(|v| v.parse().ok()).unwrap_or(3000)
}

pub fn worker(inp: &str, out: &std::path::Path) {
    worker_loop(inp, out, |line, emit| {
        if let Some(rest) = line.strip_prefix("file ") {
            // `file <ext> <hex>`: time a loader
            let mut it = rest.split_whitespace();
            let ext = it.next().unwrap_or("bin");
            let data = unhex(it.next().unwrap_or("-"));
            let t0 = Stopwatch::start();
            let r = catch(std::panic::AssertUnwindSafe(|| Buffer::from_bytes(std::path::Path::new(&format!("a.{}", ext)), true, &data).map_err(|e| e.to_string())));
            let ms = t0.ms();
            let (cls, cells) = match &r {
                Ok(Ok(b)) => ("ok", crate::loadercost::cells_of(b)),
                Ok(Err(_)) => ("err", 0),
                Err(_) => ("panic", 0),
            };
            if crate::loadercost::COSTED_EXT.contains(&ext) && data.len() <= 400_000 {
                // the loader cost model: outcome, rows of layer 0, cells allocated
                let (op, obs) = crate::loadercost::fb_pair(ext, &data, &r);
                emit(format!("M {}", op));
                emit(format!("I {}", obs));
            }
            emit(format!("F {} {} {} {}", ext, cls, ms, cells));
            return;
        }
        if let Some(rest) = line.strip_prefix("icyc ") {
            // `icyc <kw>=<hexr>,…`: IcyDraw chunk payloads through the real .icy loader, compared with the cost model
            let Some(chunks) = crate::loadercost::parse_chunks(rest.trim()) else {
                emit("BAD".into());
                return;
            };
            let (op, obs, ms, cells, flen) = crate::loadercost::icyc_case(&chunks);
            emit(format!("M {}", op));
            emit(format!("I {}", obs));
            emit(format!("F icy {} {} {}", obs.split(':').next().unwrap_or("?").split(' ').next().unwrap_or("?"), ms, cells));
            let _ = flen;
            return;
        }
        if let Some(rest) = line.strip_prefix("tdf ") {
            // `tdf <hexr>`: a TheDraw font bundle, timed (the outcome is C02's business)
            let Some(data) = crate::icybox::unhexr(rest.trim()) else {
                emit("BAD".into());
                return;
            };
            let t0 = Stopwatch::start();
            let r = catch(std::panic::AssertUnwindSafe(|| icy_engine::TheDrawFont::from_tdf_bytes(&data).map(|f| f.len()).map_err(|e| e.to_string())));
            let ms = t0.ms();
            let cls = match r {
                Ok(Ok(_)) => "ok",
                Ok(Err(_)) => "err",
                Err(_) => "panic",
            };
            emit(format!("F tdf {} {} 0", cls, ms));
            return;
        }
        if let Some(rest) = line.strip_prefix("sixel ") {
            // payload bytes are code points (the convention of the sixel model)
            let raw = unhex(rest.trim());
            let data: String = raw.iter().map(|b| *b as char).collect();
            let t0 = Stopwatch::start();
            let r = catch(std::panic::AssertUnwindSafe(|| Sixel::parse_from(icy_engine::Position::default(), 1, 1, [0, 0, 0, 0], &data)));
            let ms = t0.ms();
            let (cls, bytes, obs) = match r {
                Ok(Ok(s)) => ("ok", s.picture_data.len() as u64, format!("ok {} {} {}", s.get_width(), s.get_height(), s.picture_data.len())),
                Ok(Err(_)) => ("err", 0, "err".to_string()),
                Err(_) => ("panic", 0, "panic".to_string()),
            };
            emit(format!("M loadercost sixel {}", hex(&raw)));
            emit(format!("I {}", obs));
            emit(format!("X {} {} {}", cls, ms, bytes));
            return;
        }
        if (line.starts_with('@') || line.starts_with("rect ")) && crate::fontpal::tripped(&crate::fontpal::family_of(line), 4) {
            // four cases of this family were already slower than the threshold in this worker: the rest is not run
            emit("SKIP".into());
            return;
        }
        if line.starts_with('@') {
            // a font / palette loader case (harness/src/fontpal.rs): timed, and compared with the model
            let Some((tag, payload)) = line.split_once(':') else {
                emit("BAD".into());
                return;
            };
            let Some(bytes) = crate::icybox::unhexr(payload) else {
                emit("BAD".into());
                return;
            };
            let t0 = Stopwatch::start();
            let Some(o) = crate::fontpal::observe(tag, &bytes) else {
                emit("BAD".into());
                return;
            };
            let ms = t0.ms();
            if !(tag.starts_with("@pal") && bytes.len() > 8000) {
                emit(format!("M {}", o.op));
                emit(format!("I {}", o.obs));
            }
            // an accepted font: the glyph count it declares (`ok [slot] w h LENGTH glyphs`) - every later loop over the font
            // (checksum, conversion, saving) runs that many times, so it has to be backed by the bytes of the file
            let declared: u64 = if tag.starts_with("@font") && o.class == "ok" {
                let f: Vec<&str> = o.obs.split_whitespace().collect();
                if f.len() >= 5 { f[f.len() - 2].parse().unwrap_or(0) } else { 0 }
            } else {
                0
            };
            emit(format!("L {} {} {} {} {}", tag, o.class, ms, bytes.len(), declared));
            if ms >= slow_ms() {
                crate::fontpal::note_slow(&crate::fontpal::family_of(line));
            }
            return;
        }
        if let Some(rest) = line.strip_prefix("rect ") {
            rect_case(rest, emit);
            return;
        }
        // macro nesting families (harness/src/c03nest.rs): the nesting oracle first, on a big-stack thread
        if crate::c03nest::is_nest(line) && !crate::c03nest::nest_case(line, emit) {
            return;
        }
        run_case(line, slow_ms(), emit);
    });
}

/// `rect <cmd> <w> <h> <lf> <params>`: one rectangle-area command on a screen filled with 'A' (after `lf` line feeds).
/// cmd = crc (DECRQCRA `*y`), fra (DECFRA `$x`), era (DECERA `$z`), sera (DECSERA `${`).  Emits the model request
/// (`rect crc …` / `rect fill …`), the observation and `RT <cmd> <ms>`.
fn rect_case(rest: &str, emit: &mut dyn FnMut(String)) {
    let f: Vec<&str> = rest.split_whitespace().collect();
    if f.len() != 5 {
        emit("BAD".into());
        return;
    }
    let (cmd, ps) = (f[0], f[4]);
    let (Ok(w), Ok(h), Ok(lf)) = (f[1].parse::<i32>(), f[2].parse::<i32>(), f[3].parse::<usize>()) else {
        emit("BAD".into());
        return;
    };
    let fin = match cmd {
        "crc" => "*y",
        "fra" => "$x",
        "era" => "$z",
        "sera" => "${",
        _ => {
            emit("BAD".into());
            return;
        }
    };
    let mut t = Term::new(Emu::Ansi(0), w, h);
    for _ in 0..lf {
        t.feed('\n');
    }
    for ch in "\x1b[65;1;1;2147483599;2147483599$x".chars() {
        t.feed(ch);
    }
    let lines = t.buf.layers[0].lines.len();
    let tw = t.buf.terminal_state.get_width();
    let th = t.buf.terminal_state.get_height();
    let not_a = |t: &Term| -> usize {
        let l = &t.buf.layers[0];
        (0..l.lines.len() as i32).map(|y| (0..tw).filter(|x| l.get_char((*x, y)).ch != 'A').count()).sum()
    };
    let before = not_a(&t);
    let c0 = t.buf.get_char((0, 0));
    let mut cell = vec![c0.ch as u8];
    cell.extend(c0.attribute.attr.to_be_bytes());
    cell.extend(c0.attribute.get_foreground().to_be_bytes());
    cell.extend(c0.attribute.get_background().to_be_bytes());
    let seq: Vec<char> = format!("\x1b[{}{}", ps, fin).chars().collect();
    for ch in &seq[..seq.len() - 1] {
        t.feed(*ch);
    }
    let last = seq[seq.len() - 1];
    let t0 = Stopwatch::start();
    let r = {
        let (parser, buf, caret) = (&mut t.parser, &mut t.buf, &mut t.caret);
        catch(std::panic::AssertUnwindSafe(|| parser.print_char(buf, 0, caret, last)))
    };
    let ms = t0.ms();
    let obs = match r {
        Err(loc) => format!("panic:{}", panic_site(&loc)),
        Ok(Err(_)) => "err".to_string(),
        Ok(Ok(act)) => {
            if cmd == "crc" {
                match act {
                    CallbackAction::SendString(s) => {
                        // ESC P <pid> ! ~ <XXXX> ESC \
                        let body = s.trim_start_matches("\x1bP").trim_end_matches("\x1b\\");
                        match body.split_once("!~") {
                            Some((pid, crc)) => format!("ok {} {}", pid, crc),
                            None => format!("ok-unparsed {}", hex(s.as_bytes())),
                        }
                    }
                    _ => "ok-no-answer".to_string(),
                }
            } else {
                format!("ok {}", not_a(&t).saturating_sub(before))
            }
        }
    };
    if before == 0 && ps.split(';').all(|p| !p.is_empty() && p.chars().all(|c| c.is_ascii_digit())) {
        let psc = ps.replace(';', ",");
        if cmd == "crc" {
            emit(format!("M rect crc {} {} {} {}", tw, th, hex(&cell), psc));
        } else {
            emit(format!("M rect fill {} {} {} {} {}", if cmd == "fra" { 1 } else { 0 }, lines, tw, th, psc));
        }
        emit(format!("I {}", obs));
    }
    emit(format!("RT {} {} {}", cmd, ms, t.buf.layers[0].lines.len().saturating_sub(lines)));
    if ms >= slow_ms() {
        crate::fontpal::note_slow(&format!("rect:{}", cmd));
    }
}

const RECT_EXTREMES: [i64; 5] = [65536, 1_000_000, 2147483599, 2147483647, 99_999_999_999];

/// rectangle coordinates: each of top / left / bottom / right from {0, 1, size, size + 1, 65536, 10^6, 2147483599}
/// (plus i32::MAX and an 11-digit number in thorough), `size` = height for rows and width for columns
fn rect_values(size: i32, thorough: bool) -> Vec<String> {
    let mut v: Vec<String> = vec!["0".into(), "1".into(), size.to_string(), (size + 1).to_string()];
    for e in RECT_EXTREMES.iter().take(if thorough { 5 } else { 3 }) {
        v.push(e.to_string());
    }
    v
}

fn rect_cases(w: i32, h: i32, lf: usize, rng: &mut Rng, thorough: bool, keep_1_in: u64) -> Vec<String> {
    let mut v = Vec::new();
    let rows = rect_values(h, thorough);
    let cols = rect_values(w, thorough);
    for cmd in ["crc", "fra", "era", "sera"] {
        for t in &rows {
            for l in &cols {
                for b in &rows {
                    for r in &cols {
                        if keep_1_in > 1 && !rng.chance(1, keep_1_in) {
                            continue;
                        }
                        let ps = match cmd {
                            "crc" => format!("7;1;{};{};{};{}", t, l, b, r),
                            "fra" => format!("90;{};{};{};{}", t, l, b, r),
                            _ => format!("{};{};{};{}", t, l, b, r),
                        };
                        v.push(format!("rect {} {} {} {} {}", cmd, w, h, lf, ps));
                    }
                }
            }
        }
        // wrong parameter counts, fill characters that are not characters
        for ps in ["", "1", "1;2", "1;2;3", "1;2;3;4", "1;2;3;4;5", "1;2;3;4;5;6", "1;2;3;4;5;6;7", "1114112;1;1;2;2", "55296;1;1;2;2", "2147483599;1;1;2;2", "0;1;1;2;2"] {
            v.push(format!("rect {} {} {} {} {}", cmd, w, h, lf, if ps.is_empty() { "0".to_string() } else { ps.to_string() }));
        }
    }
    v
}

fn tok(label: &str, s: &str) -> Token {
    Token { label: label.to_string(), chars: s.chars().collect() }
}

/// the complete control-function table of the quantifier for one screen size
fn csi_table(w: i32, h: i32, rng: &mut Rng, thorough: bool) -> Vec<Vec<Token>> {
    let vals: Vec<String> = vec!["0".into(), "1".into(), h.to_string(), w.to_string(), "65536".into(), "1000000".into(), "2147483647".into()];
    let prefixes: Vec<Token> = vec![
        tok("pre:none", "AB"),
        tok("pre:scroll", &format!("{}AB", "\n".repeat(h as usize + 5))),
        tok("pre:margins", &format!("{}\x1b[2;{}rAB", "\n".repeat(3), (h - 1).max(2))),
        tok("pre:lrmargins", "\x1b[?69h\x1b[2;5sAB"),
        tok("pre:insert", "\x1b[4hABCDEF\x1b[3D"),
    ];
    let mut out = Vec::new();
    for fin in CSI_FINALS.chars() {
        for inter in CSI_INTER {
            let maxp = if "mrtxyz{".contains(fin) { 6 } else { 2 };
            let mut param_sets: Vec<String> = vec!["".to_string()];
            for v in &vals {
                param_sets.push(v.clone());
            }
            // two parameters: all pairs in thorough, a sample in quick; more parameters: sampled
            for a in &vals {
                for b in &vals {
                    if thorough || rng.chance(1, 12) {
                        param_sets.push(format!("{};{}", a, b));
                    }
                }
            }
            for n in 3..=maxp {
                for _ in 0..(if thorough { 12 } else { 2 }) {
                    let p: Vec<String> = (0..n).map(|_| rng.pick(&vals[..]).clone()).collect();
                    param_sets.push(p.join(";"));
                }
            }
            for p in param_sets {
                if !thorough && !rng.chance(1, 3) {
                    continue;
                }
                let seq = match inter {
                    "?" | "=" | "!" | "<" => format!("\x1b[{}{}{}", inter, p, fin),
                    _ => format!("\x1b[{}{}{}", p, inter, fin),
                };
                let pre = rng.pick(&prefixes[..]).clone();
                out.push(vec![pre, tok(&format!("CSI{}{}", inter, fin), &seq), tok("post", "Z\n")]);
            }
        }
    }
    out
}

/// "every repeat clamp leans on the terminal size": a text-area resize `CSI 8 ; rows ; cols t` with extreme sizes FOLLOWED BY each
/// repeat-style command with an extreme count (labels start with `RSZ`: these cases run in the worker chain with the breaker)
fn resize_then_repeat_cases(rng: &mut Rng, thorough: bool) -> Vec<Vec<Token>> {
    let sizes: [&str; 9] = ["0", "1", "25", "60", "61", "132", "133", "65536", "2147483647"];
    // final bytes (with intermediates) of the commands whose loop count is a parameter clamped by the screen
    let cmds: [(&str, &str); 16] = [
        ("b", "b"), ("S", "S"), ("T", "T"), ("L", "L"), ("M", "M"), ("@", "@"), ("P", "P"), ("X", "X"), ("I", "I"), ("Z", "Z"), ("Y", "Y"),
        ("A", "A"), ("B", "B"), ("SP@", " @"), ("SPA", " A"), ("e", "e"),
    ];
    let mut v = Vec::new();
    for rows in sizes {
        for cols in sizes {
            let big = rows.len() > 3 || cols.len() > 3;
            for (name, fin) in cmds {
                if !thorough && !big && !rng.chance(1, 4) {
                    continue;
                }
                if !thorough && big && !rng.chance(1, 2) {
                    continue;
                }
                let n = *rng.pick(&["2147483647", "65536", "1000000"]);
                let pre = if rng.chance(1, 2) { tok("pre:fill", "\x1b[65;1;1;9999;9999$x\x1b[2;5r") } else { tok("pre:scroll", "\n\n\nAB") };
                v.push(vec![
                    pre,
                    tok("RSZ:CSIt", &format!("\x1b[8;{};{}t", rows, cols)),
                    tok(&format!("RSZ:CSI{}", name), &format!("A\x1b[{}{}", n, fin)),
                    tok("post", "Z\n"),
                ]);
            }
        }
    }
    // the sequence inside a macro, and two resizes in a row
    v.push(vec![
        tok("DCS!z1", "\x1bP1;0;1!z1B5B383B323134373438333634373B38307431B5B3231343734383336343753\x1b\\"),
        tok("RSZ:CSI*z", "\x1b[1*z"),
        tok("post", "Z\n"),
    ]);
    v.push(vec![tok("RSZ:CSIt", "\x1b[8;2147483647;2147483647t\x1b[8;2147483647;1t"), tok("RSZ:CSIb", "A\x1b[2147483647b"), tok("post", "Z\n")]);
    v
}

/// "every sixel raster/repeat header": raster attributes, repeat counts (before data AND before control characters), colour
/// registers and cursor positions at the limits of the decoder (MAX_SIXEL_SIZE = 4096, MAX_SIXEL_COLORS = 4096) and far beyond,
/// alone and combined; structured random payloads of at most 64 bytes built from the same numbers
fn sixel_cost_payloads(rng: &mut Rng, thorough: bool) -> Vec<String> {
    let nums: [&str; 12] = ["0", "1", "6", "100", "4095", "4096", "4097", "65536", "1000000", "2147483599", "2147483647", "99999999999"];
    let mut v: Vec<String> = Vec::new();
    // raster attributes: 3 and 4 numbers
    for a in nums {
        v.push(format!("\"1;1;{}~", a));
        for b in ["0", "1", "4096", "4097", "2147483647"] {
            v.push(format!("\"1;1;{};{}~", a, b));
            v.push(format!("\"1;1;{};{}", b, a));
        }
    }
    // repeat counts in front of data, empty cells and every control character
    for a in nums {
        for ch in ["~", "?", "-", "$", "#", "!", "\"", "\u{7f}"] {
            v.push(format!("!{}{}", a, ch));
            v.push(format!("!{}{}~-~", a, ch));
        }
        v.push(format!("!{}?~", a));
        v.push(format!("!{}-!{}-~", a, a));
        v.push(format!("~$!{}~$!{}~", a, a));
    }
    // colour registers: selection and definition (RGB, HLS, wrong formats)
    for a in nums {
        v.push(format!("#{}~", a));
        v.push(format!("#{};2;100;0;0~", a));
        v.push(format!("#{};1;120;50;50~", a));
        v.push(format!("#1;2;{};{};{}~", a, a, a));
        v.push(format!("#{};3;0;0;0~", a));
    }
    // the largest legal picture and its neighbours (64 MB each: only a few)
    v.push("\"1;1;4096;4096".into());
    v.push("\"1;1;4096;4096\"1;1;1;1\"1;1;4096;4096~".into());
    v.push("!4096~$!4096~-!4096~".into());
    v.push(format!("{}~", "-".repeat(700)));
    v.push(format!("!682-~"));
    v.push(format!("!683-~"));
    // structured random payloads of at most 64 bytes
    for _ in 0..(if thorough { 2000 } else { 150 }) {
        let mut s = String::new();
        while s.len() < 40 {
            let n = *rng.pick(&nums[..]);
            match rng.below(8) {
                0 => s.push_str(&format!("\"{};{};{};{}", rng.below(3), rng.below(3), n, rng.pick(&nums[..6]))),
                1 => s.push_str(&format!("!{}{}", n, rng.pick(&["~", "?", "-", "$", "A"]))),
                2 => s.push_str(&format!("#{};2;{};0;0", rng.pick(&nums[..7]), rng.below(101))),
                3 => s.push('-'),
                4 => s.push('$'),
                _ => s.push(*rng.pick(&['~', '?', '@', 'N', '^'])),
            }
        }
        s.truncate(64);
        v.push(s);
    }
    v
}

fn macro_cases() -> Vec<Vec<Token>> {
    let mut v = Vec::new();
    let def = |id: u32, hexbody: &str| tok("DCS!z1", &format!("\x1bP{};0;1!z{}\x1b\\", id, hexbody));
    let hex = |s: &str| s.bytes().map(|b| format!("{:02X}", b)).collect::<String>();
    // self-recursive, mutually recursive, fan-out recursion (each level invokes itself 8 times)
    v.push(vec![def(1, &hex("X\x1b[1*z")), tok("CSI*z", "\x1b[1*z")]);
    v.push(vec![def(1, &hex("A\x1b[2*z")), def(2, &hex("B\x1b[1*z")), tok("CSI*z", "\x1b[1*z")]);
    v.push(vec![def(1, &hex(&"\x1b[1*z".repeat(8))), tok("CSI*z", "\x1b[1*z")]);
    v.push(vec![def(1, &hex(&"\x1b[9999b".repeat(40))), tok("print", "Q"), tok("CSI*z", "\x1b[1*z")]);
    // hex repeat groups with extreme counts
    for n in ["0", "1", "65536", "1000000", "2147483647", "99999999999"] {
        v.push(vec![tok("DCS!z1", &format!("\x1bP1;0;1!z!{};41424344;\x1b\\", n)), tok("CSI*z", "\x1b[1*z")]);
        v.push(vec![tok("DCS!z1", &format!("\x1bP1;0;1!z!{};;!{};41;\x1b\\", n, n)), tok("CSI*z", "\x1b[1*z")]);
        v.push(vec![tok("DCS!z1", &format!("\x1bP1;0;1!z!{};1B5B312A7A;\x1b\\", n)), tok("CSI*z", "\x1b[1*z")]);
        // last repeat group not closed by `;` before ST
        v.push(vec![tok("DCS!z1", &format!("\x1bP1;0;1!z!{};41\x1b\\", n)), tok("CSI*z", "\x1b[1*z")]);
        v.push(vec![tok("DCS!z1", &format!("\x1bP1;0;1!z4142!{};4344\x1b\\", n)), tok("CSI*z", "\x1b[1*z")]);
        // two-byte characters: the macro space is counted in UTF-8 bytes (String::len)
        v.push(vec![tok("DCS!z1", &format!("\x1bP1;0;1!zE9!{};E941;0A\x1b\\", n)), tok("CSI*z", "\x1b[1*z")]);
    }
    // macro invocation from inside a DCS
    v.push(vec![def(1, &hex("\x1bPxx\x1b[1*z")), tok("DCSmacroinside", "\x1bPyy\x1b[1*zzz\x1b\\")]);
    v
}

pub fn run(run: &mut Run, seed: u64, thorough: bool, replay: Option<&str>, corpus: &[String]) {
    let dir = std::path::PathBuf::from(std::env::var("VERIF_WORK").unwrap_or_else(|_| "work/C03".to_string()));
    std::fs::create_dir_all(&dir).unwrap();
    let mut cases: Vec<String> = Vec::new();
    let decode = |c: &str| -> String {
        if c.starts_with('@') {
            c.to_string()
        } else if c.starts_with("rect_") {
            c.replace('_', " ")
        } else if c.starts_with("icyc_") || c.starts_with("tdf_") {
            // chunk keywords contain underscores (LAYER_0): only the separator after the kind is a blank
            c.replacen('_', " ", 1)
        } else if c.starts_with("file_") || c.starts_with("sixel_") {
            c.replacen('_', " ", 1).replacen('_', " ", if c.starts_with("file_") { 1 } else { 0 })
        } else {
            // emu_w_h_hex[_labels]: labels may themselves contain underscores
            let parts: Vec<&str> = c.splitn(5, '_').collect();
            parts.join(" ")
        }
    };
    if let Some(r) = replay {
        cases.push(decode(r));
    } else {
        for c in corpus {
            cases.push(decode(c));
        }
        let mut rng = Rng::new(seed);
        for (w, h) in [(80, 25), (132, 60), (1, 1), (7, 4)] {
            for toks in csi_table(w, h, &mut rng, thorough) {
                let emu = if rng.chance(1, 6) { *rng.pick(&[Emu::Avatar, Emu::PCBoard, Emu::CtrlA, Emu::Renegade]) } else { Emu::Ansi(0) };
                cases.push(case_line(emu, w, h, &toks));
            }
        }
        for toks in macro_cases() {
            cases.push(case_line(Emu::Ansi(0), 80, 25, &toks));
            cases.push(case_line(Emu::Ansi(0), 132, 60, &toks));
        }
        // every entry point of macro replay (CSI handler, in-DCS invocation, wrappers) and of the other bounded loops
        // (own generator state: the draws of the families above and below stay what they were)
        let mut nest_rng = Rng::new(seed ^ 0x6e65_7374);
        cases.extend(crate::c03nest::nest_cases(&mut nest_rng, thorough));
        cases.extend(crate::c03nest::entry_cases());
        for toks in resize_then_repeat_cases(&mut rng, thorough) {
            cases.push(case_line(Emu::Ansi(0), 80, 25, &toks));
        }
        // Avatar repeat with every large count
        for n in [0u32, 1, 255, 65535, 0x10FFFF] {
            if let Some(c) = char::from_u32(n) {
                cases.push(case_line(Emu::Avatar, 80, 25, &[tok("print", "AB"), tok("AVTrep", &format!("\x19x{}", c)), tok("AVTrep", &format!("\x19\n{}", c))]));
            }
        }
        // sixel raster / repeat headers
        for s in ["\"1;1;100000;100000~", "\"1;1;2147483647;2147483647~", "!2147483647~", "!1000000~-!1000000~", "#0;2;100;100;100!99999~$-", "!99999999999~", "\"99999999999;1;1;1!5~"] {
            cases.push(format!("sixel {}", hex(s.as_bytes())));
            cases.push(case_line(Emu::Ansi(0), 80, 25, &[tok("DCSq", &format!("\x1bPq{}\x1b\\", s)), tok("post", "Z\n")]));
        }
        for s in sixel_cost_payloads(&mut rng, thorough) {
            cases.push(format!("sixel {}", hex(s.as_bytes())));
        }
        // custom font DCS payloads: PSF2 header declaring extreme sizes (base64 of the header only)
        cases.push(case_line(Emu::Ansi(0), 80, 25, &[tok("DCSfont", "\x1bPCTerm:Font:1:crVKhgAAAAAgAAAAAAAAAP///38QAAAAEAAAAAgAAAA=\x1b\\")]));
        cases.push(case_line(Emu::Ansi(0), 80, 25, &[tok("DCSfont", "\x1bPCTerm:Font:1:NgQAAA==\x1b\\")]));
        // the same loader with data behind a header that announces height 0, and the whole font / palette cost table:
        // PSF1 / PSF2 headers declaring extreme sizes, raw fonts, DCS route; palette files with huge count lines, overlong lines
        for c in font_cost_cases(&mut rng, thorough) {
            cases.push(c);
        }
        // rectangle-area commands: every combination of extreme coordinates
        cases.extend(rect_cases(80, 25, 0, &mut rng, thorough, 1));
        cases.extend(rect_cases(7, 4, 0, &mut rng, thorough, if thorough { 1 } else { 4 }));
        cases.extend(rect_cases(132, 60, 0, &mut rng, thorough, if thorough { 3 } else { 16 }));
        cases.extend(rect_cases(80, 25, 30, &mut rng, thorough, if thorough { 2 } else { 8 }));
        // ... and as ordinary streams (state correspondence with the terminal model, per-token time and row growth)
        for (w, h) in [(80, 25), (7, 4)] {
            let rows = rect_values(h, false);
            let cols = rect_values(w, false);
            for (inter_fin, lead) in [("*y", "7;1;"), ("$x", "90;"), ("$z", ""), ("${", "")] {
                for _ in 0..(if thorough { 400 } else { 60 }) {
                    let ps = format!("{}{};{};{};{}", lead, rng.pick(&rows[..]), rng.pick(&cols[..]), rng.pick(&rows[..]), rng.pick(&cols[..]));
                    let pre = if rng.chance(1, 2) { tok("pre:fill", "\x1b[65;1;1;9999;9999$x") } else { tok("pre:scroll", &format!("{}AB", "\n".repeat(h as usize + 5))) };
                    cases.push(case_line(Emu::Ansi(0), w, h, &[pre, tok(&format!("CSI{}", inter_fin), &format!("\x1b[{}{}", ps, inter_fin)), tok("post", "Z\n")]));
                }
            }
            // tab report `CSI 2 $ w` after setting many tab stops
            cases.push(case_line(Emu::Ansi(0), w, h, &[tok("pre:tabs", &"A\x1bH".repeat(w as usize + 5)), tok("CSI$w", "\x1b[2$w"), tok("CSI$w", "\x1b[2147483599$w")]));
        }
        // binary headers declaring extreme width / height / font size
        let mut xb = b"XBIN\x1a".to_vec();
        for (w, h, fs, fl) in [(65535u16, 65535u16, 16u8, 0u8), (65535, 65535, 255, 0x1f), (0, 0, 0, 0), (65535, 1, 32, 4), (1, 65535, 0, 2)] {
            let mut d = xb.clone();
            d.extend(w.to_le_bytes());
            d.extend(h.to_le_bytes());
            d.push(fs);
            d.push(fl);
            d.extend([1u8, 2, 3, 4]);
            cases.push(format!("file xb {}", hex(&d)));
        }
        xb.clear();
        let mut idf = b"\x041.4".to_vec();
        idf.extend([0u8, 0, 0, 0, 0xFF, 0xFF, 0xFF, 0xFF]);
        idf.extend([1u8, 0, 0xFF, 0xFF, 65, 7]);
        cases.push(format!("file idf {}", hex(&idf)));
        let mut tnd = vec![24u8];
        tnd.extend(b"TUNDRA24");
        tnd.extend([1u8, 0xFF, 0xFF, 0xFF, 0xFF, 0xFF, 0xFF, 0xFF, 0xFF, 65]);
        cases.push(format!("file tnd {}", hex(&tnd)));
        // a position record far down the page (the loader caps rows below 65535)
        for y in [65534u32, 65535, 3_000_000, 0x7FFF_FFFF] {
            let mut t = vec![24u8];
            t.extend(b"TUNDRA24");
            t.push(1);
            t.extend(y.to_be_bytes());
            t.extend(0u32.to_be_bytes());
            t.push(65);
            cases.push(format!("file tnd {}", hex(&t)));
        }
        cases.push(format!("file ans {}", hex(b"\x1b[2000000000BX")));
        cases.push(format!("file ans {}", hex(b"\x1b[2000000000CX\x1b[99999999b")));
        cases.push(format!("file bin {}", hex(&[65u8, 7])));
        cases.push(format!("file adf {}", hex(&[1u8; 300])));
        cases.extend(binary_header_cases(thorough));
        // loader cost: structured files of every costed format (compared with the cost models), IcyDraw chunks, TheDraw bundles
        cases.extend(crate::loadercost::cost_file_cases(&mut rng, thorough));
        cases.extend(crate::loadercost::icyc_cases(&mut rng, thorough));
        cases.extend(crate::loadercost::tdf_cases(thorough));
    }
    // the generated nesting / entry-point cases, for inspection (`<exe> c03 --worker <this file> <out>` replays them)
    let _ = std::fs::write(dir.join("nest_cases.txt"), cases.iter().filter(|c| crate::c03nest::family_of(c).is_some()).cloned().collect::<Vec<_>>().join("\n"));
    std::env::set_var("VERIF_WORKER_VMEM_KB", "6000000");
    // the loader and rectangle cases are cheap: they get their own worker chain (in parallel with the stream cases) whose
    // no-progress timeout is 8 s (the per-case "slow" threshold is 3 s), so a loop that never ends costs 8 s, not 20 s
    // (streams whose token is a rectangle command go with them: one family for the breaker)
    let is_light = |c: &String| c.starts_with('@') || c.starts_with("rect ") || ["CSI$x", "CSI$z", "CSI${", "CSI*y", "CSI$w", "RSZ:"].iter().any(|l| c.contains(l));
    let (light, heavy): (Vec<String>, Vec<String>) = cases.iter().cloned().partition(|c| is_light(c));
    // the macro nesting cases get their own chain too: on a tree that lost the nesting limit every one of them costs a dead or
    // timed-out child (the recursion eats the 2 GiB stack), so the chain gives up after 3 dead children (`skipped`)
    let (nest, heavy): (Vec<String>, Vec<String>) = heavy.into_iter().partition(|c| crate::c03nest::is_nest(c));
    let cases: Vec<String> = heavy.iter().chain(nest.iter()).chain(light.iter()).cloned().collect();
    let results = if replay.is_some() || light.is_empty() {
        run_in_workers("c03", &dir, &cases, 20)
    } else {
        let d2 = dir.join("light");
        std::fs::create_dir_all(&d2).unwrap();
        let l2 = light.clone();
        let h = std::thread::spawn(move || crate::fontpal::run_in_workers_breaker("c03", &d2, &l2, 8, 4));
        let d3 = dir.join("nest");
        std::fs::create_dir_all(&d3).unwrap();
        // (after the heavy chain, not beside it: two chains in parallel are what the no-progress timeouts were tuned for)
        let mut r = run_in_workers("c03", &dir, &heavy, 20);
        r.extend(run_in_workers_capped("c03", &d3, &nest, 20, 3));
        r.extend(h.join().unwrap());
        r
    };
    for (case, res) in cases.iter().zip(results.iter()) {
        let mut parts = case.split_whitespace();
        let first = parts.next().unwrap_or("?").to_string();
        let short: String = if first == "icyc" || first == "tdf" {
            case.replacen(' ', "_", 1)
        } else if first == "file" || first == "sixel" || first == "rect" || first.starts_with('@') {
            case.replace(' ', "_")
        } else if crate::c03nest::is_nest(case) {
            // the labels carry the bound of the nesting oracle: they are part of the replay input
            case.split_whitespace().take(5).collect::<Vec<_>>().join("_")
        } else {
            case.split_whitespace().take(4).collect::<Vec<_>>().join("_")
        };
        let fam = if first.starts_with("ansi") {
            "ansi".to_string()
        } else if first == "icyc" || first == "tdf" {
            "file".to_string()
        } else if first.starts_with('@') {
            // @font:…, @fontdcs.1:…, @palf.pal:…  ->  font / fontdcs / palf
            first[1..].split(|c| c == ':' || c == '.').next().unwrap_or("font").to_string()
        } else {
            first.clone()
        };
        run.count(&format!("kind:{}", fam));
        if let Some(f) = crate::c03nest::family_of(case) {
            run.count(&f);
        }
        match res {
            Err(reason) if reason == "skipped" && crate::c03nest::is_nest(case) => {
                run.count("skipped:nesting(3 children of the nesting chain died before)");
            }
            Err(reason) => {
                let label = if first == "sixel" {
                    "payload".to_string()
                } else if first == "icyc" {
                    "icy".to_string()
                } else if first == "tdf" {
                    "tdf".to_string()
                } else if first == "file" || first == "rect" {
                    case.split_whitespace().nth(1).unwrap_or("?").to_string()
                } else if first.starts_with('@') {
                    first[1..].split(':').next().unwrap_or("?").split('.').nth(1).unwrap_or("bytes").to_string()
                } else {
                    case.split_whitespace().nth(4).map(|l| l.split(',').nth(1).unwrap_or("?").split('*').next().unwrap_or("?").to_string()).unwrap_or_else(|| "?".to_string())
                };
                // abort (allocation failure under the address-space cap) and timeout (no cap available / slow) are the same finding
                run.oracle_fail(&format!("{}:{}:runaway", fam, label), &short, &format!("worker died ({}): runaway time or memory", reason));
                run.evaluations += 1;
            }
            Ok(lines) => {
                let mut mop: Option<String> = None;
                for l in lines {
                    if let Some(m) = l.strip_prefix("M ") {
                        mop = Some(m.to_string());
                        continue;
                    }
                    if let Some(i) = l.strip_prefix("I ") {
                        if let Some(m) = mop.take() {
                            let ev = run.evaluations;
                            run.case(&m, i.trim_end());
                            run.evaluations = ev;
                        }
                        continue;
                    }
                    let p: Vec<&str> = l.split_whitespace().collect();
                    match p.first() {
                        Some(&"T") => run.oracle_fail(&format!("{}:{}:slow-or-grows", fam, p[2]), &short, &format!("token {} took {} ms and added {} rows", p[2], p[3], p[4])),
                        Some(&"F") => {
                            run.count(&format!("file:{}:{}", p[1], p[2]));
                            let ms: u128 = p[3].parse().unwrap_or(0);
                            let cells: u64 = p[4].parse().unwrap_or(0);
                            if ms >= slow_ms() || cells > 8_000_000 {
                                // two keys, so that a recorded allocation finding cannot hide a loop that is slow without allocating (and vice versa)
                                let kind = if cells > 8_000_000 { "huge" } else { "slow" };
                                run.oracle_fail(&format!("file:{}:{}", p[1], kind), &short, &format!("loader {} took {} ms, allocated {} cells", p[1], ms, cells));
                            }
                            run.evaluations += 1;
                            run.nontrivial(fnv(case.bytes().map(|b| b as u64)));
                        }
                        Some(&"X") => {
                            let ms: u128 = p[2].parse().unwrap_or(0);
                            let bytes: u64 = p[3].parse().unwrap_or(0);
                            // the largest picture the decoder builds: MAX_SIXEL_SIZE x MAX_SIXEL_SIZE pixels of 4 bytes (theorem sixel_picture_bounded)
                            let max_bytes = 4 * (icy_engine::MAX_SIXEL_SIZE as u64) * (icy_engine::MAX_SIXEL_SIZE as u64);
                            if ms >= slow_ms() || bytes > max_bytes {
                                run.oracle_fail("sixel:slow-or-huge", &short, &format!("sixel decode took {} ms, {} bytes", ms, bytes));
                            }
                            run.evaluations += 1;
                            run.nontrivial(fnv(case.bytes().map(|b| b as u64)));
                        }
                        Some(&"L") => {
                            // L <tag> <class> <ms> <len>: a font / palette loader
                            run.count(&format!("loader:{}:{}", fam, p[2]));
                            let ms: u128 = p[3].parse().unwrap_or(0);
                            if ms >= slow_ms() {
                                run.oracle_fail(&format!("{}:slow", fam), &short, &format!("loader case {} took {} ms for {} bytes", p[1], ms, p[4]));
                            }
                            // "independent of declared font sizes": the glyph count of an accepted font is backed by the file
                            // (theorem font_loader_cost: the checksum loop runs at most max(512, |d|) times)
                            let len: u64 = p[4].parse().unwrap_or(0);
                            let declared: u64 = p.get(5).and_then(|v| v.parse().ok()).unwrap_or(0);
                            if declared > len.max(512) {
                                run.oracle_fail(&format!("{}:length-not-backed", fam), &short, &format!("a font of {} bytes was accepted with {} glyphs: every loop over the font runs that often", len, declared));
                            }
                            run.evaluations += 1;
                            run.nontrivial(fnv(case.bytes().map(|b| b as u64)));
                        }
                        Some(&"RT") => {
                            // RT <cmd> <ms> <rows added>
                            let ms: u128 = p[2].parse().unwrap_or(0);
                            let grew: usize = p[3].parse().unwrap_or(0);
                            if ms >= slow_ms() || grew > 200 {
                                run.oracle_fail(&format!("rect:{}:slow-or-grows", p[1]), &short, &format!("rectangle command {} took {} ms and added {} rows", p[1], ms, grew));
                            }
                            run.evaluations += 1;
                            run.nontrivial(fnv(case.bytes().map(|b| b as u64)));
                        }
                        Some(&"N") => {
                            // N <markers> <bound> <ms> <MAX_MACRO_DEPTH>: one marker (group) per nesting level of macro replay
                            let marks: usize = p[1].parse().unwrap_or(0);
                            let bound: usize = p[2].parse().unwrap_or(0);
                            run.count(if marks == bound { "nest-depth:at-the-limit" } else if marks == 0 { "nest-depth:0" } else { "nest-depth:below-the-limit" });
                            if marks > bound {
                                run.oracle_fail("ansi:macro-nesting", &short, &format!("macro replay nested beyond MAX_MACRO_DEPTH = {}: {} markers printed (one group per level), at most {} allowed; {} ms on a 2 GiB stack", p[4], marks, bound, p[3]));
                                run.evaluations += 1;
                            }
                        }
                        Some(&"NSKIP") => run.count("skipped:nesting(2 streams of this worker nested beyond the limit before)"),
                        Some(&"SKIP") => run.count("skipped:breaker(4 runaway or slow cases of this family before)"),
                        Some(&"P") => run.count("panic(C01)"),
                        Some(&"S") => {
                            run.evaluations += 1;
                            run.nontrivial(fnv(case.bytes().map(|b| b as u64)));
                        }
                        _ => {}
                    }
                }
            }
        }
    }
    if run.samples.is_empty() {
        for c in cases.iter().take(3) {
            run.samples.push(c.chars().take(200).collect());
        }
    }
}

/// font / palette cases whose point is COST: sizes declared by a header against the bytes that back them
fn font_cost_cases(rng: &mut Rng, thorough: bool) -> Vec<String> {
    use crate::fontpal::*;
    use crate::icybox::hexr;
    let mut cs: Vec<String> = Vec::new();
    let case = |tag: &str, b: &[u8]| format!("{}:{}", tag, hexr(b));
    // PSF1: height 0 / 1 / 255 in front of data of every order of magnitude
    for charsize in [0u8, 1, 2, 16, 255] {
        for mode in [0u8, 1, 0xFF] {
            for l in [0usize, 1, 255, 4096, 65536, 262144] {
                if l > 70000 && !(thorough || charsize == 0 || charsize == 1) {
                    continue;
                }
                // (a height of 0 in front of data is the case that never ended on the pinned tree: a few of them suffice)
                if charsize == 0 && !thorough && (mode == 0xFF || l == 255 || l == 65536) {
                    continue;
                }
                cs.push(case("@font", &psf1(mode, charsize, l, 0x5A)));
            }
        }
    }
    for (mode, charsize, l) in [(0u8, 0u8, 1usize), (1, 0, 40), (0, 0, 3000), (0, 1, 256), (1, 255, 70000)] {
        cs.push(case("@fontdcs.1", &psf1(mode, charsize, l, 0x5A)));
    }
    // PSF2: every size field at every extreme, with no data and with a little data behind the header
    for fi in 2..8usize {
        for v in U32_EXTREMES {
            for n in [0usize, 64, 4096] {
                let mut f = [PSF2_MAGIC, 0, 32, 0, 256, 16, 16, 8];
                f[fi] = v;
                cs.push(case("@font", &psf2(f, n, 0x77)));
            }
            let mut f = [PSF2_MAGIC, 0, 32, 0, 4, 2, 2, 8];
            f[fi] = v;
            cs.push(case("@fontdcs.1", &psf2(f, 8, 0x77)));
        }
    }
    // PSF2 headers with ZERO bytes per glyph (charsize 0, width 0 or height 0 - then `length * charsize + headersize == len` holds
    // for every declared length) and huge declared glyph counts, header only and with data behind it; also through the DCS
    for length in [1u32, 256, 65536, 0x7FFF_FFFF, 0x8000_0000, 0xFFFF_FFFF] {
        for (height, width) in [(16u32, 0u32), (0, 8), (0, 0), (1, 0), (0xFFFF_FFFF, 0)] {
            for n in [0usize, 16] {
                cs.push(case("@font", &psf2([PSF2_MAGIC, 0, 32, 0, length, 0, height, width], n, 0x3C)));
            }
            cs.push(case("@fontdcs.0", &psf2([PSF2_MAGIC, 0, 32, 0, length, 0, height, width], 0, 0)));
        }
    }
    // consistent PSF2 headers whose numbers are large but backed by the file
    for (len, h, w) in [(65536u32, 1u32, 8u32), (1, 65535, 8), (1, 1, 0x7FFF8), (200_000, 1, 1)] {
        let rowb = (w + 7) / 8;
        let charsize = h * rowb;
        cs.push(case("@font", &psf2([PSF2_MAGIC, 0, 32, 0, len, charsize, h, w], (len * charsize) as usize, 0x0F)));
    }
    // raw fonts: big multiples of 256 and their neighbours
    for l in [256usize, 8192, 8448, 65536, 65537, 1 << 20] {
        cs.push(case("@font", &vec![0x33u8; l]));
    }
    // palettes: the numbers a file can announce; long lines; many lines
    for n in NUMBERS {
        cs.push(case("@palf.pal", format!("JASC-PAL\n0100\n{}\n1 2 3\n", n).as_bytes()));
        cs.push(case("@pal.pal", format!("JASC-PAL\n{}\n{}\n{} {} {}\n", n, n, n, n, n).as_bytes()));
        cs.push(case("@palf.gpl", format!("GIMP Palette\nColumns: {}\n#Colors: {}\n{} {} {} x\n", n, n, n, n, n).as_bytes()));
        cs.push(case("@palf.ice", format!("ICE Palette\n#Colors: {}\n{}\n", n, n).as_bytes()));
        cs.push(case("@palf.txt", format!(";Colors: {}\n{}\nFF112233\n", n, n).as_bytes()));
        cs.push(case("@palf.hex", format!("{}\n", n).as_bytes()));
    }
    let big = if thorough { 1_000_000 } else { 100_000 };
    for fmt in ["ice", "hex", "pal", "gpl", "txt"] {
        let magic = match fmt {
            "pal" => "JASC-PAL\n0100\n1\n",
            "gpl" => "GIMP Palette\n",
            "ice" => "ICE Palette\n",
            _ => "",
        };
        for (fill, tail) in [(b'1', " 2 3\n"), (b'f', "\n"), (b' ', "1 2 3\n"), (b'\n', "1 2 3\n"), (b'#', "Name: x\n")] {
            let mut t = magic.as_bytes().to_vec();
            t.extend(std::iter::repeat(fill).take(big));
            t.extend(tail.as_bytes());
            cs.push(case(&format!("@palf.{}", fmt), &t));
        }
        let mut t = magic.as_bytes().to_vec();
        for i in 0..(big / 50) {
            t.extend(format!("{} {} {} c\n{:06x}\n", i % 256, i % 7, i % 300, i).as_bytes());
        }
        cs.push(case(&format!("@palf.{}", fmt), &t));
    }
    let _ = rng;
    cs
}

/// a SAUCE record (with the EOF byte in front) announcing `tinfo1` x `tinfo2`
fn sauce_record(datatype: u8, filetype: u8, tinfo1: u16, tinfo2: u16) -> Vec<u8> {
    let mut v = vec![0x1Au8];
    v.extend(b"SAUCE00");
    v.extend(std::iter::repeat(b' ').take(35 + 20 + 20));
    v.extend(b"20240101");
    v.extend(0u32.to_le_bytes());
    v.push(datatype);
    v.push(filetype);
    v.extend(tinfo1.to_le_bytes());
    v.extend(tinfo2.to_le_bytes());
    v.extend([0u8; 4]);
    v.push(0);
    v.push(0);
    v.extend([0u8; 22]);
    debug_assert_eq!(v.len(), 129);
    v
}

/// "every binary file header declaring extreme width / height / font size": well-formed XBin / IDF / ADF / BIN / Tundra /
/// IcyDraw files whose header (or SAUCE record) announces sizes far beyond the few bytes of content that follow
fn binary_header_cases(thorough: bool) -> Vec<String> {
    let mut cs: Vec<String> = Vec::new();
    // XBin: size x font height x flags, palette and font blocks as announced, then a little data
    for (w, h) in [(65535u16, 65535u16), (4096, 65535), (4097, 1), (1, 65535), (65535, 1), (0, 0), (80, 25)] {
        for fs in [0u8, 1, 16, 32, 33, 255] {
            for flags in [0u8, 1, 2, 3, 4, 7, 0x13, 0x17, 0x1F] {
                if !thorough && (fs == 1 || fs == 33) && flags != 7 {
                    continue;
                }
                let mut d = b"XBIN\x1a".to_vec();
                d.extend(w.to_le_bytes());
                d.extend(h.to_le_bytes());
                d.push(fs);
                d.push(flags);
                if flags & 1 != 0 {
                    d.extend([0x2Au8; 48]);
                }
                if flags & 2 != 0 {
                    let n = (if fs == 0 { 16 } else { fs as usize }) * 256 * if flags & 0x10 != 0 { 2 } else { 1 };
                    d.extend(std::iter::repeat(0x18u8).take(n));
                }
                if flags & 4 != 0 {
                    for _ in 0..200 {
                        d.extend([0xFF, 0x41, 0x07]); // Full run of 64 cells
                    }
                    d.extend([0x3F, 0x41]); // a run cut off
                } else {
                    d.extend(std::iter::repeat([0x41u8, 0x07]).take(300).flatten());
                }
                cs.push(format!("file xb {}", hex(&d)));
            }
        }
    }
    // IDF: x2 (width - 1) and RLE counts at extremes; the font and palette blocks follow the data
    for x2 in [0u16, 1, 79, 80, 4095, 65535] {
        for cnt in [0u16, 1, 80, 65535] {
            for reps in [1usize, 200] {
                let mut d = b"\x041.4".to_vec();
                d.extend(0u16.to_le_bytes());
                d.extend(0u16.to_le_bytes());
                d.extend(x2.to_le_bytes());
                d.extend(0xFFFFu16.to_le_bytes());
                for _ in 0..reps {
                    d.extend([1, 0]);
                    d.extend(cnt.to_le_bytes());
                    d.extend([0x41, 0x07]);
                }
                d.extend([0x11u8; 4096]);
                d.extend([0x3Fu8; 48]);
                cs.push(format!("file idf {}", hex(&d)));
            }
        }
    }
    // ADF (fixed geometry) and BIN / ANSI / PCBoard with a SAUCE record announcing extreme sizes
    let mut adf = vec![1u8];
    adf.extend([0x15u8; 192]);
    adf.extend([0x22u8; 4096]);
    adf.extend(std::iter::repeat([0x41u8, 0x07]).take(400).flatten());
    cs.push(format!("file adf {}", hex(&adf)));
    for t1 in [0u16, 1, 80, 1000, 1001, 65535] {
        for t2 in [0u16, 1, 25, 65535] {
            let mut b = std::iter::repeat([0x41u8, 0x07]).take(200).flatten().collect::<Vec<u8>>();
            b.extend(sauce_record(5, (t1 & 0xFF) as u8, t1, t2));
            cs.push(format!("file bin {}", hex(&b)));
            let mut adf2 = adf.clone();
            adf2.extend(sauce_record(1, 1, t1, t2));
            cs.push(format!("file adf {}", hex(&adf2)));
            for ext in ["ans", "pcb", "avt", "asc"] {
                let mut a = b"hello\r\nworld\x1b[5;5Hx".to_vec();
                a.extend(sauce_record(1, 1, t1, t2));
                cs.push(format!("file {} {}", ext, hex(&a)));
            }
            let mut x = b"XBIN\x1a\x50\x00\x19\x00\x10\x00".to_vec();
            x.extend(std::iter::repeat([0x41u8, 0x07]).take(100).flatten());
            x.extend(sauce_record(6, 0, t1, t2));
            cs.push(format!("file xb {}", hex(&x)));
        }
    }
    // IcyDraw: ICED header and LAYER chunk announcing big sizes with one or two rows of content.  (A layer 2^31-1 cells wide
    // is C02's finding icyc:abort-alloc - one full-width row per row touched; here: sizes that must still be cheap.)
    for (bw, bh) in [(80u32, 25u32), (1_000_000, 1_000_000), (0x7FFF_FFFF, 0x7FFF_FFFF)] {
        for (lw, lh) in [(1u32, 1u32), (100_000, 1), (1, 1_000_000), (1_000_000, 1_000_000), (3_000_000, 2)] {
            // two short cells on row 0, end of line, one on row 1
            let cells: Vec<u8> = vec![0x01, 0x40, 0x41, 7, 0x01, 0x40, 0x42, 7];
            let mut p = crate::c02::layer_header(b"t", 0, 0, 1, 0, 0, lw, lh, cells.len() as u64);
            p.extend(&cells);
            let file = crate::icybox::icy_container(&[("ICED".to_string(), crate::c02::iced_header(bw, bh)), ("LAYER_0".to_string(), p)]);
            cs.push(format!("file icy {}", hex(&file)));
        }
    }
    cs
}
