//! C03: work per input is bounded by the screen size, not by numbers in the input.
//! Oracle: every entry of the control-function table with extreme parameters, macro / hex-macro / sixel / Avatar /
//! custom-font / binary-header cases, each timed in a crash-isolated worker with an address-space cap.
use crate::term::*;
use crate::util::*;
use icy_engine::{Buffer, Sixel};

/// a token slower than this (debug build) counts as unbounded work; generous: the slowest legitimate token of the
/// table (a macro replaying 40 screenfuls of REP) takes ~0.3 s here
fn slow_ms() -> u128 {
    std::env::var("VERIF_slow_ms()").ok().and_then(|v| v.parse().ok()).unwrap_or(3000)
}

pub fn worker(inp: &str, out: &std::path::Path) {
    worker_loop(inp, out, |line, emit| {
        if let Some(rest) = line.strip_prefix("file ") {
            // `file <ext> <hex>`: time a loader
            let mut it = rest.split_whitespace();
            let ext = it.next().unwrap_or("bin");
            let data = unhex(it.next().unwrap_or("-"));
            let t0 = Stopwatch::start();
            let r = catch(std::panic::AssertUnwindSafe(|| Buffer::from_bytes(std::path::Path::new(&format!("a.{}", ext)), true, &data)));
            let ms = t0.ms();
            let (cls, cells) = match r {
                Ok(Ok(b)) => ("ok", (b.layers.iter().map(|l| l.lines.iter().map(|r| r.chars.len()).sum::<usize>()).sum::<usize>()) as u64),
                Ok(Err(_)) => ("err", 0),
                Err(_) => ("panic", 0),
            };
            emit(format!("F {} {} {} {}", ext, cls, ms, cells));
            return;
        }
        if let Some(rest) = line.strip_prefix("sixel ") {
            let data = String::from_utf8_lossy(&unhex(rest.trim())).to_string();
            let t0 = Stopwatch::start();
            let r = catch(std::panic::AssertUnwindSafe(|| Sixel::parse_from(icy_engine::Position::default(), 1, 1, [0, 0, 0, 0], &data)));
            let ms = t0.ms();
            let (cls, bytes) = match r {
                Ok(Ok(s)) => ("ok", s.picture_data.len() as u64),
                Ok(Err(_)) => ("err", 0),
                Err(_) => ("panic", 0),
            };
            emit(format!("X {} {} {}", cls, ms, bytes));
            return;
        }
        run_case(line, slow_ms(), emit);
    });
}

fn tok(label: &str, s: &str) -> Token {
    Token { label: label.to_string(), chars: s.chars().collect() }
}

/// the complete control-function table of the quantifier for one screen size
fn csi_table(w: i32, h: i32, rng: &mut Rng, thorough: bool) -> Vec<Vec<Token>> {
    let vals: Vec<String> = vec!["0".into(), "1".into(), h.to_string(), w.to_string(), "65536".into(), "1000000".into(), "2147483647".into()];
    let prefixes: Vec<Token> = vec![
        tok("pre:none", "AB"),
        tok("pre:scroll", &format!("{}AB", "\n".repeat(h as usize + 5))),
        tok("pre:margins", &format!("{}\x1b[2;{}rAB", "\n".repeat(3), (h - 1).max(2))),
        tok("pre:lrmargins", "\x1b[?69h\x1b[2;5sAB"),
        tok("pre:insert", "\x1b[4hABCDEF\x1b[3D"),
    ];
    let mut out = Vec::new();
    for fin in CSI_FINALS.chars() {
        for inter in CSI_INTER {
            let maxp = if "mrtxyz{".contains(fin) { 6 } else { 2 };
            let mut param_sets: Vec<String> = vec!["".to_string()];
            for v in &vals {
                param_sets.push(v.clone());
            }
            // two parameters: all pairs in thorough, a sample in quick; more parameters: sampled
            for a in &vals {
                for b in &vals {
                    if thorough || rng.chance(1, 12) {
                        param_sets.push(format!("{};{}", a, b));
                    }
                }
            }
            for n in 3..=maxp {
                for _ in 0..(if thorough { 12 } else { 2 }) {
                    let p: Vec<String> = (0..n).map(|_| rng.pick(&vals[..]).clone()).collect();
                    param_sets.push(p.join(";"));
                }
            }
            for p in param_sets {
                if !thorough && !rng.chance(1, 3) {
                    continue;
                }
                let seq = match inter {
                    "?" | "=" | "!" | "<" => format!("\x1b[{}{}{}", inter, p, fin),
                    _ => format!("\x1b[{}{}{}", p, inter, fin),
                };
                let pre = rng.pick(&prefixes[..]).clone();
                out.push(vec![pre, tok(&format!("CSI{}{}", inter, fin), &seq), tok("post", "Z\n")]);
            }
        }
    }
    out
}

fn macro_cases() -> Vec<Vec<Token>> {
    let mut v = Vec::new();
    let def = |id: u32, hexbody: &str| tok("DCS!z1", &format!("\x1bP{};0;1!z{}\x1b\\", id, hexbody));
    let hex = |s: &str| s.bytes().map(|b| format!("{:02X}", b)).collect::<String>();
    // self-recursive, mutually recursive, fan-out recursion (each level invokes itself 8 times)
    v.push(vec![def(1, &hex("X\x1b[1*z")), tok("CSI*z", "\x1b[1*z")]);
    v.push(vec![def(1, &hex("A\x1b[2*z")), def(2, &hex("B\x1b[1*z")), tok("CSI*z", "\x1b[1*z")]);
    v.push(vec![def(1, &hex(&"\x1b[1*z".repeat(8))), tok("CSI*z", "\x1b[1*z")]);
    v.push(vec![def(1, &hex(&"\x1b[9999b".repeat(40))), tok("print", "Q"), tok("CSI*z", "\x1b[1*z")]);
    // hex repeat groups with extreme counts
    for n in ["0", "1", "65536", "1000000", "2147483647", "99999999999"] {
        v.push(vec![tok("DCS!z1", &format!("\x1bP1;0;1!z!{};41424344;\x1b\\", n)), tok("CSI*z", "\x1b[1*z")]);
        v.push(vec![tok("DCS!z1", &format!("\x1bP1;0;1!z!{};;!{};41;\x1b\\", n, n)), tok("CSI*z", "\x1b[1*z")]);
        v.push(vec![tok("DCS!z1", &format!("\x1bP1;0;1!z!{};1B5B312A7A;\x1b\\", n)), tok("CSI*z", "\x1b[1*z")]);
        // last repeat group not closed by `;` before ST
        v.push(vec![tok("DCS!z1", &format!("\x1bP1;0;1!z!{};41\x1b\\", n)), tok("CSI*z", "\x1b[1*z")]);
        v.push(vec![tok("DCS!z1", &format!("\x1bP1;0;1!z4142!{};4344\x1b\\", n)), tok("CSI*z", "\x1b[1*z")]);
        // two-byte characters: the macro space is counted in UTF-8 bytes (String::len)
        v.push(vec![tok("DCS!z1", &format!("\x1bP1;0;1!zE9!{};E941;0A\x1b\\", n)), tok("CSI*z", "\x1b[1*z")]);
    }
    // macro invocation from inside a DCS
    v.push(vec![def(1, &hex("\x1bPxx\x1b[1*z")), tok("DCSmacroinside", "\x1bPyy\x1b[1*zzz\x1b\\")]);
    v
}

pub fn run(run: &mut Run, seed: u64, thorough: bool, replay: Option<&str>, corpus: &[String]) {
    let dir = std::path::PathBuf::from(std::env::var("VERIF_WORK").unwrap_or_else(|_| "work/C03".to_string()));
    std::fs::create_dir_all(&dir).unwrap();
    let mut cases: Vec<String> = Vec::new();
    let decode = |c: &str| -> String {
        if c.starts_with("file_") || c.starts_with("sixel_") {
            c.replacen('_', " ", 1).replacen('_', " ", if c.starts_with("file_") { 1 } else { 0 })
        } else {
            // emu_w_h_hex[_labels]: labels may themselves contain underscores
            let parts: Vec<&str> = c.splitn(5, '_').collect();
            parts.join(" ")
        }
    };
    if let Some(r) = replay {
        cases.push(decode(r));
    } else {
        for c in corpus {
            cases.push(decode(c));
        }
        let mut rng = Rng::new(seed);
        for (w, h) in [(80, 25), (132, 60), (1, 1), (7, 4)] {
            for toks in csi_table(w, h, &mut rng, thorough) {
                let emu = if rng.chance(1, 6) { *rng.pick(&[Emu::Avatar, Emu::PCBoard, Emu::CtrlA, Emu::Renegade]) } else { Emu::Ansi(0) };
                cases.push(case_line(emu, w, h, &toks));
            }
        }
        for toks in macro_cases() {
            cases.push(case_line(Emu::Ansi(0), 80, 25, &toks));
            cases.push(case_line(Emu::Ansi(0), 132, 60, &toks));
        }
        // Avatar repeat with every large count
        for n in [0u32, 1, 255, 65535, 0x10FFFF] {
            if let Some(c) = char::from_u32(n) {
                cases.push(case_line(Emu::Avatar, 80, 25, &[tok("print", "AB"), tok("AVTrep", &format!("\x19x{}", c)), tok("AVTrep", &format!("\x19\n{}", c))]));
            }
        }
        // sixel raster / repeat headers
        for s in ["\"1;1;100000;100000~", "\"1;1;2147483647;2147483647~", "!2147483647~", "!1000000~-!1000000~", "#0;2;100;100;100!99999~$-", "!99999999999~", "\"99999999999;1;1;1!5~"] {
            cases.push(format!("sixel {}", hex(s.as_bytes())));
            cases.push(case_line(Emu::Ansi(0), 80, 25, &[tok("DCSq", &format!("\x1bPq{}\x1b\\", s)), tok("post", "Z\n")]));
        }
        // custom font DCS payloads: PSF2 header declaring extreme sizes (base64 of the header only)
        cases.push(case_line(Emu::Ansi(0), 80, 25, &[tok("DCSfont", "\x1bPCTerm:Font:1:crVKhgAAAAAgAAAAAAAAAP///38QAAAAEAAAAAgAAAA=\x1b\\")]));
        cases.push(case_line(Emu::Ansi(0), 80, 25, &[tok("DCSfont", "\x1bPCTerm:Font:1:NgQAAA==\x1b\\")]));
        // binary headers declaring extreme width / height / font size
        let mut xb = b"XBIN\x1a".to_vec();
        for (w, h, fs, fl) in [(65535u16, 65535u16, 16u8, 0u8), (65535, 65535, 255, 0x1f), (0, 0, 0, 0), (65535, 1, 32, 4), (1, 65535, 0, 2)] {
            let mut d = xb.clone();
            d.extend(w.to_le_bytes());
            d.extend(h.to_le_bytes());
            d.push(fs);
            d.push(fl);
            d.extend([1u8, 2, 3, 4]);
            cases.push(format!("file xb {}", hex(&d)));
        }
        xb.clear();
        let mut idf = b"\x041.4".to_vec();
        idf.extend([0u8, 0, 0, 0, 0xFF, 0xFF, 0xFF, 0xFF]);
        idf.extend([1u8, 0, 0xFF, 0xFF, 65, 7]);
        cases.push(format!("file idf {}", hex(&idf)));
        let mut tnd = vec![24u8];
        tnd.extend(b"TUNDRA24");
        tnd.extend([1u8, 0xFF, 0xFF, 0xFF, 0xFF, 0xFF, 0xFF, 0xFF, 0xFF, 65]);
        cases.push(format!("file tnd {}", hex(&tnd)));
        // a position record far down the page (the loader caps rows below 65535)
        for y in [65534u32, 65535, 3_000_000, 0x7FFF_FFFF] {
            let mut t = vec![24u8];
            t.extend(b"TUNDRA24");
            t.push(1);
            t.extend(y.to_be_bytes());
            t.extend(0u32.to_be_bytes());
            t.push(65);
            cases.push(format!("file tnd {}", hex(&t)));
        }
        cases.push(format!("file ans {}", hex(b"\x1b[2000000000BX")));
        cases.push(format!("file ans {}", hex(b"\x1b[2000000000CX\x1b[99999999b")));
        cases.push(format!("file bin {}", hex(&[65u8, 7])));
        cases.push(format!("file adf {}", hex(&[1u8; 300])));
    }
    std::env::set_var("VERIF_WORKER_VMEM_KB", "6000000");
    let results = run_in_workers("c03", &dir, &cases, 20);
    for (case, res) in cases.iter().zip(results.iter()) {
        let mut parts = case.split_whitespace();
        let first = parts.next().unwrap_or("?").to_string();
        let short: String = if first == "file" || first == "sixel" { case.replace(' ', "_") } else { case.split_whitespace().take(4).collect::<Vec<_>>().join("_") };
        let fam = if first.starts_with("ansi") { "ansi".to_string() } else { first.clone() };
        run.count(&format!("kind:{}", fam));
        match res {
            Err(reason) => {
                let label = if first == "sixel" {
                    "payload".to_string()
                } else if first == "file" {
                    case.split_whitespace().nth(1).unwrap_or("?").to_string()
                } else {
                    case.split_whitespace().nth(4).map(|l| l.split(',').nth(1).unwrap_or("?").split('*').next().unwrap_or("?").to_string()).unwrap_or_else(|| "?".to_string())
                };
                // abort (allocation failure under the address-space cap) and timeout (no cap available / slow) are the same finding
                run.oracle_fail(&format!("{}:{}:runaway", fam, label), &short, &format!("worker died ({}): runaway time or memory", reason));
                run.evaluations += 1;
            }
            Ok(lines) => {
                let mut mop: Option<String> = None;
                for l in lines {
                    if let Some(m) = l.strip_prefix("M ") {
                        mop = Some(m.to_string());
                        continue;
                    }
                    if let Some(i) = l.strip_prefix("I ") {
                        if let Some(m) = mop.take() {
                            let ev = run.evaluations;
                            run.case(&m, i.trim_end());
                            run.evaluations = ev;
                        }
                        continue;
                    }
                    let p: Vec<&str> = l.split_whitespace().collect();
                    match p.first() {
                        Some(&"T") => run.oracle_fail(&format!("{}:{}:slow-or-grows", fam, p[2]), &short, &format!("token {} took {} ms and added {} rows", p[2], p[3], p[4])),
                        Some(&"F") => {
                            let ms: u128 = p[3].parse().unwrap_or(0);
                            let cells: u64 = p[4].parse().unwrap_or(0);
                            if ms >= slow_ms() || cells > 8_000_000 {
                                run.oracle_fail(&format!("file:{}:slow-or-huge", p[1]), &short, &format!("loader {} took {} ms, allocated {} cells", p[1], ms, cells));
                            }
                            run.evaluations += 1;
                            run.nontrivial(fnv(case.bytes().map(|b| b as u64)));
                        }
                        Some(&"X") => {
                            let ms: u128 = p[2].parse().unwrap_or(0);
                            let bytes: u64 = p[3].parse().unwrap_or(0);
                            if ms >= slow_ms() || bytes > 64_000_000 {
                                run.oracle_fail("sixel:slow-or-huge", &short, &format!("sixel decode took {} ms, {} bytes", ms, bytes));
                            }
                            run.evaluations += 1;
                            run.nontrivial(fnv(case.bytes().map(|b| b as u64)));
                        }
                        Some(&"P") => run.count("panic(C01)"),
                        Some(&"S") => {
                            run.evaluations += 1;
                            run.nontrivial(fnv(case.bytes().map(|b| b as u64)));
                        }
                        _ => {}
                    }
                }
            }
        }
    }
    if run.samples.is_empty() {
        for c in cases.iter().take(3) {
            run.samples.push(c.chars().take(200).collect());
        }
    }
}
