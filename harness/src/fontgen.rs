//! font case descriptors shared by C10 and C17: descriptor → bytes (same filler function as the Lean driver), and the
//! canonical observation of a `BitFont`.
use crate::util::*;
use icy_engine::BitFont;

/// deterministic filler, reproduced in Lean (`Drv/Font.lean: fillBytes`)
pub fn fill_byte(seed: u64, i: u64) -> u8 {
    ((i * 131 + (i / 256) * 17 + (i / 7) + seed * 29) % 256) as u8
}
pub fn fill_bytes(n: usize, seed: u64) -> Vec<u8> {
    (0..n as u64).map(|i| fill_byte(seed, i)).collect()
}

pub fn psf2_header(version: u32, headersize: u32, length: u32, charsize: u32, height: u32, width: u32) -> Vec<u8> {
    let mut b = Vec::new();
    b.extend(0x864a_b572u32.to_le_bytes());
    b.extend(version.to_le_bytes());
    b.extend(headersize.to_le_bytes());
    b.extend(0u32.to_le_bytes());
    b.extend(length.to_le_bytes());
    b.extend(charsize.to_le_bytes());
    b.extend(height.to_le_bytes());
    b.extend(width.to_le_bytes());
    b
}

pub fn font_bytes(kind: &str, f: &[&str]) -> Option<Vec<u8>> {
    let n = |i: usize| -> Option<u64> { f.get(i)?.parse::<u64>().ok() };
    match kind {
        "psf1" => {
            let mut b = vec![0x36, 0x04, n(0)? as u8, n(1)? as u8];
            b.extend(fill_bytes(n(2)? as usize, n(3)?));
            Some(b)
        }
        "psf2" => {
            let mut b = psf2_header(n(0)? as u32, n(1)? as u32, n(2)? as u32, n(3)? as u32, n(4)? as u32, n(5)? as u32);
            b.extend(fill_bytes(n(6)? as usize, n(7)?));
            Some(b)
        }
        "raw" => Some(fill_bytes(n(0)? as usize, n(1)?)),
        "font" => Some(unhex(f.first()?)),
        "dcsfont" => font_bytes(f.first()?, &f[1..]),
        _ => None,
    }
}

pub fn font_obs(font: &BitFont, want_ck: bool) -> String {
    let mut keys: Vec<u64> = font.glyphs.keys().map(|k| *k as u64).collect();
    keys.sort_unstable();
    let keyhash = fnv(keys.iter().copied());
    let ck = if want_ck { font.checksum } else { 0 };
    let u8d = match catch(std::panic::AssertUnwindSafe(|| font.convert_to_u8_data())) {
        Ok(d) => format!("{}:{}", d.len(), fnv(d.iter().map(|b| *b as u64))),
        Err(_) => "panic".to_string(),
    };
    let psf2 = match catch(std::panic::AssertUnwindSafe(|| font.to_psf2_bytes())) {
        Ok(Ok(d)) => format!("ok:{}:{}", d.len(), fnv(d.iter().map(|b| *b as u64))),
        Ok(Err(_)) => "err".to_string(),
        Err(_) => "panic".to_string(),
    };
    format!("ok {} {} {} {} {} {} u8={} psf2={}", font.size.width, font.size.height, font.length, keys.len(), keyhash, ck, u8d, psf2)
}

/// all glyph rows of the codes 0..n as one byte vector, `None` rows marked
pub fn glyph_dump(font: &BitFont, n: u32) -> Vec<Option<Vec<u8>>> {
    (0..n).map(|i| char::from_u32(i).and_then(|c| font.get_glyph(c)).map(|g| g.data.clone())).collect()
}
