//! C10: boundary-complete value families for every NUMBER that flows into a `char` conversion
//! (DECFRA fill parameter, IcyDraw 32-bit character fields, clipboard 16-bit fields, glyph counts).
//!
//! A checked conversion can be replaced by a hand-written range test; such tests are built from a few constants
//! (0xD800, 0x800, 0xE000, 0x110000, 0x10000) combined with `^`, `wrapping_sub`, shifts and one comparison, so a wrong
//! constant opens a window whose edges are the scalar-range boundaries SHIFTED by one of these constants (e.g.
//! `(v ^ 0xD800).wrapping_sub(0x800) >= 0x110000` lets exactly 0x11D800..=0x11DFFF through). The families below are
//! therefore (a) every boundary, every shifted / xor-ed boundary and their neighbours, powers of two and the ends of the
//! parameter space — always, in every run — and (b) the first, the last and a seeded member of EVERY 0x800-aligned block
//! below 0x200000 (the scalar predicate is constant on such blocks: `Props/C10.scalar_block_constant`), and a seeded
//! member of every further power-of-two octave.
use crate::util::Rng;

pub const BLOCK: u32 = 0x800;
pub const BLOCK_LIMIT: u32 = 0x20_0000;

pub fn is_scalar(v: u32) -> bool {
    v <= 0xD7FF || (0xE000..=0x10FFFF).contains(&v)
}

/// class of a value for the printed input distribution
pub fn class_of(v: u32) -> &'static str {
    match v {
        0..=0x7F => "ascii",
        0x80..=0x7FF => "2byte",
        0x800..=0xD7FF => "bmp-low",
        0xD800..=0xDFFF => "surrogate",
        0xE000..=0xFFFF => "bmp-high",
        0x1_0000..=0x10_FFFF => "astral",
        0x11_0000..=0x11_D7FF => "above:110000-11D7FF",
        0x11_D800..=0x11_DFFF => "above:11D800-11DFFF",
        0x11_E000..=0x1F_FFFF => "above:11E000-1FFFFF",
        0x20_0000..=0x7FFF_FFFF => "above:200000-7FFFFFFF",
        _ => "above:80000000-FFFFFFFF",
    }
}

/// every boundary of the scalar ranges, shifted by every constant a hand-written range test uses, ±1; powers of two ±1;
/// ends of the parameter space. All values ≤ `max`, sorted, no duplicates. (~900 values for max = 2^31-1)
pub fn boundary_values(max: u32) -> Vec<u32> {
    let base: [i64; 19] = [
        0, 0x7F, 0x80, 0xFF, 0x100, 0x7FF, 0x800, 0xD7FF, 0xD800, 0xDBFF, 0xDC00, 0xDFFF, 0xE000, 0xFFFD, 0xFFFF, 0x1_0000, 0x10_FFFF, 0x11_0000, 0x1F_FFFF,
    ];
    let shifts: [i64; 9] = [0, 0x800, 0x1000, 0xD800, 0xE000, 0x1_0000, 0x10_0000, 0x11_0000, 0x20_0000];
    let mut v: Vec<i64> = Vec::new();
    for b in base {
        for s in shifts {
            for x in [b + s, b - s, b ^ s, (b ^ 0xD800) + s, (b ^ 0xD800) - s] {
                for d in [-1i64, 0, 1] {
                    v.push(x + d);
                }
            }
        }
    }
    // the windows of the one-comparison trick with each plausible wrong limit, named explicitly
    v.extend([0x10_F7FF, 0x10_F800, 0x10_FFFF, 0x11_0000, 0x11_07FF, 0x11_0800, 0x11_D7FF, 0x11_D800, 0x11_DFFF, 0x11_E000, 0x1F_FFFF, 0x20_0000]);
    for k in 0..=32u32 {
        let p = 1i64 << k;
        v.extend([p - 1, p, p + 1]);
    }
    // the largest number the parameter parser can produce (saturating arithmetic ends at i32::MAX - 48) and its neighbours
    v.extend([2147483598, 2147483599, 2147483600, 2147483646, 2147483647, 2147483648, 4294967294, 4294967295]);
    let mut v: Vec<u32> = v.into_iter().filter(|x| *x >= 0 && *x <= max as i64).map(|x| x as u32).collect();
    v.sort_unstable();
    v.dedup();
    v
}

/// first, last and `extra` seeded members of every 0x800-aligned block below 0x200000 (1024 blocks)
pub fn block_samples(rng: &mut Rng, extra: usize) -> Vec<u32> {
    let mut v = Vec::with_capacity((BLOCK_LIMIT / BLOCK) as usize * (2 + extra));
    let mut b = 0u32;
    while b < BLOCK_LIMIT {
        v.push(b);
        v.push(b + BLOCK - 1);
        for _ in 0..extra {
            v.push(b + 1 + rng.below((BLOCK - 2) as u64) as u32);
        }
        b += BLOCK;
    }
    v
}

/// `per` seeded members of every octave [2^k, 2^(k+1)) for 2^k ≥ 0x200000, up to `max`
pub fn octave_samples(rng: &mut Rng, max: u32, per: usize) -> Vec<u32> {
    let mut v = Vec::new();
    for k in 21..32u32 {
        let lo = 1u64 << k;
        let hi = ((1u64 << (k + 1)) - 1).min(max as u64);
        if lo > max as u64 {
            break;
        }
        for _ in 0..per {
            v.push((lo + rng.below(hi - lo + 1)) as u32);
        }
    }
    v
}
