//! C09: cursor stays inside the visible screen; fixed-grid emulations keep their 40x24 page
//!
//! Phases as in c01.rs: seeded / exhaustive streams compared with the model and checked by the oracle (with the
//! invariant-triggered failing-input search), the exhaustive probe family (position x own-alphabet prefix x every
//! probe suffix, oracle only), and `--replay @search:<file>` (probe search from correspondence mismatches).
use crate::probe::*;
use crate::term::*;
use crate::util::*;

pub fn worker(inp: &str, out: &std::path::Path) {
    worker_loop(inp, out, |line, emit| {
        if line.starts_with("probe ") {
            probe_group(line, emit)
        } else {
            run_case_ex(line, 2000, !no_probe(), emit)
        }
    });
}

/// the ~70-token alphabet of the quantifier for exhaustive short sequences
pub fn alphabet(emu: Emu, w: i32, h: i32) -> Vec<Token> {
    let mut v: Vec<Token> = Vec::new();
    let t = |l: &str, s: String| Token { label: l.to_string(), chars: s.chars().collect() };
    v.push(t("print", "A".into()));
    v.push(t("printW", "x".repeat(w as usize)));
    for c in ['\n', '\r', '\x0c', '\x08', '\x7f', '\x09'] {
        v.push(t(&format!("C0:{}", c.escape_default()), c.to_string()));
    }
    v.push(t("LFxH", "\n".repeat(h as usize + 1)));
    if emu.ansi_family() {
        for c in ['7', '8', 'c', 'D', 'M', 'E', 'H'] {
            v.push(t(&format!("ESC{}", c), format!("\x1b{}", c)));
        }
        let ps = ["".to_string(), "0".into(), "1".into(), (h / 2).max(1).to_string(), h.to_string(), w.to_string(), (h.max(w) + 1).to_string(), "9999".into()];
        for f in ['A', 'B', 'C', 'D', 'E', 'F', 'G', 'd', 'e', 'a', '\'', 'Y', 'Z', 'L', 'M', 'S', 'T', 'X', 'P', '@', 'b', 'J', 'K', 's', 'u', 'g'] {
            for p in [&ps[0], &ps[2], &ps[6], &ps[7]] {
                v.push(t(&format!("CSI{}", f), format!("\x1b[{}{}", p, f)));
            }
        }
        for p in ["", "1;1", "0;0", "2;3", "9999;9999", "5;2"] {
            v.push(t("CSIH", format!("\x1b[{}H", p)));
            v.push(t("CSIr", format!("\x1b[{}r", p)));
        }
        v.push(t("CSI?69h", "\x1b[?69h".into()));
        v.push(t("CSI?7l", "\x1b[?7l".into()));
        v.push(t("CSI4h", "\x1b[4h".into()));
        v.push(t("CSI_@", "\x1b[2 @".into()));
        v.push(t("CSI_A", "\x1b[2 A".into()));
        v.push(t("CSI=r", "\x1b[=r".into()));
        v.push(t("CSI!p", "\x1b[!p".into()));
    }
    v
}

fn sizes(rng: &mut Rng) -> (i32, i32) {
    match rng.below(6) {
        0 => (80, 25),
        1 => (1, 1),
        2 => (132, 60),
        3 => (rng.range(1, 8) as i32, rng.range(1, 5) as i32),
        _ => (rng.range(1, 132) as i32, rng.range(1, 60) as i32),
    }
}

pub fn run(run: &mut Run, seed: u64, thorough: bool, replay: Option<&str>, corpus: &[String]) {
    let dir = std::path::PathBuf::from(std::env::var("VERIF_WORK").unwrap_or_else(|_| "work/C09".to_string()));
    std::fs::create_dir_all(&dir).unwrap();
    if let Some(path) = replay.and_then(|r| r.strip_prefix("@search:")) {
        // failing-input search from correspondence mismatches
        let groups = search_groups(path, 20);
        run.extra.push(("search_prefixes".into(), groups.len().to_string()));
        for lines in run_probe_groups("c09", &dir, &groups, jobs(), 15) {
            let (_, f) = report_probe_lines(run, &lines, c09_verdict);
            run.evaluations += f;
            run.count("search-group");
        }
        return;
    }
    let mut cases: Vec<String> = Vec::new();
    let mut groups: Vec<String> = Vec::new();
    if let Some(r) = replay {
        cases.push(r.replace('_', " "));
    } else {
        for c in corpus {
            cases.push(c.replace('_', " "));
        }
        let mut rng = Rng::new(seed);
        // exhaustive pairs (quick) / triples on a small alphabet subset (thorough) for the ANSI core
        let (w, h) = (7, 4);
        let alpha = alphabet(Emu::Ansi(0), w, h);
        let n = alpha.len();
        if thorough {
            for a in 0..n {
                for b in 0..n {
                    cases.push(case_line(Emu::Ansi(0), w, h, &[alpha[0].clone(), alpha[8].clone(), alpha[a].clone(), alpha[b].clone()]));
                }
            }
        } else {
            for _ in 0..1500 {
                let a = rng.below(n as u64) as usize;
                let b = rng.below(n as u64) as usize;
                let c = rng.below(n as u64) as usize;
                cases.push(case_line(Emu::Ansi(0), w, h, &[alpha[8].clone(), alpha[a].clone(), alpha[b].clone(), alpha[c].clone()]));
            }
        }
        run.extra.push(("alphabet_size".into(), n.to_string()));
        let nrand = if thorough { 6000 } else { 500 };
        for k in 0..nrand {
            let emu = ALL_EMUS[k % ALL_EMUS.len()];
            let (w, h) = sizes(&mut rng);
            let ntok = rng.range(1, if k % 5 == 0 { 200 } else { 30 }) as usize;
            let toks = Gen { rng: &mut rng, w, h, huge: false }.stream(emu, ntok);
            // streams that request a resize are outside the property: drop the `t` tokens with 8;h;w
            let toks: Vec<Token> = toks.into_iter().filter(|t| !(t.label == "CSIt")).collect();
            cases.push(case_line(emu, w, h, &toks));
        }
    }
    if replay.is_none() {
        // exhaustive short streams over the control alphabets of the byte-oriented emulations and the wrappers:
        // pairs in quick, triples in thorough, on a small screen after a scrollback-filling prefix and on a fresh one
        let lf = |emu: Emu| -> Token {
            let c = match emu {
                Emu::Atascii => '\u{9b}',
                Emu::Petscii => '\r',
                _ => '\n',
            };
            Token { label: "LFxN".into(), chars: vec![c; 6] }
        };
        for emu in [Emu::Atascii, Emu::Petscii, Emu::Viewdata, Emu::Mode7, Emu::Ascii, Emu::Avatar, Emu::CtrlA] {
            let alpha = byte_alphabet(emu);
            let depth = if thorough { 3 } else { 2 };
            exhaustive(emu, 7, 4, &[], &alpha, depth, &mut cases);
            exhaustive(emu, 7, 4, &[lf(emu)], &alpha, depth, &mut cases);
        }
        // every control of every emulation's own alphabet in the four corners of the screen, with and without
        // scrollback: as ordinary cases (compared with the model) and as probe groups (followed by every probe suffix)
        let (pc, pg) = if no_probe() { (vec![], vec![]) } else { probe_plan(thorough) };
        run.extra.push(("corner_cases".into(), pc.len().to_string()));
        run.extra.push(("probe_groups".into(), pg.len().to_string()));
        cases.extend(pc);
        groups = pg;
    }
    let results = run_in_workers("c09", &dir, &cases, 20);
    for (case, res) in cases.iter().zip(results.iter()) {
        let short: String = case.split_whitespace().take(4).collect::<Vec<_>>().join("_");
        let emu = case.split_whitespace().next().unwrap_or("?").to_string();
        let fam = if emu.starts_with("ansi") { "ansi".to_string() } else { emu.clone() };
        run.count(&format!("emu:{}", emu));
        match res {
            Err(reason) => run.count(&format!("worker-died:{}", reason.split(':').next().unwrap_or("?"))), // C01/C03's business
            Ok(lines) => {
                let mut mop: Option<String> = None;
                for l in lines {
                    if let Some(m) = l.strip_prefix("M ") {
                        mop = Some(m.to_string());
                        continue;
                    }
                    if let Some(i) = l.strip_prefix("I ") {
                        if let Some(m) = mop.take() {
                            let ev = run.evaluations;
                            run.case(&m, i.trim_end());
                            run.evaluations = ev; // evaluations count characters, not streams
                        }
                        continue;
                    }
                    let parts: Vec<&str> = l.split_whitespace().collect();
                    match parts.first() {
                        Some(&"C") => {
                            run.oracle_fail(&format!("{}:{}", fam, parts[2]), &short, &format!("cursor ({},{}) outside screen first_visible={} size={}x{} after char {}", parts[3], parts[4], parts[5], parts[6], parts[7], parts[1]));
                        }
                        Some(&"G") => {
                            run.oracle_fail(&format!("{}:grid:{}", fam, parts[2]), &short, &format!("fixed 40x24 page changed size or grew a scrollback at char {}", parts[1]));
                        }
                        Some(&"Z") => {
                            run.oracle_fail(&format!("{}:size:{}", fam, parts[2]), &short, &format!("terminal size became {}x{} (opened / last resized to {}x{}) without a resize request, at char {}", parts[3], parts[4], parts[5], parts[6], parts[1]));
                        }
                        Some(&"P") => run.count("panic(C01)"),
                        Some(&"S") => {
                            run.evaluations += parts[1].parse::<u64>().unwrap_or(0);
                            run.nontrivial(fnv(case.bytes().map(|b| b as u64)));
                        }
                        Some(&"Q") => {
                            let (_, f) = report_probe_lines(run, std::slice::from_ref(l), c09_verdict);
                            run.evaluations += f;
                        }
                        _ => {}
                    }
                }
            }
        }
    }
    // the exhaustive probe family (oracle only)
    if !groups.is_empty() {
        let (mut runs, mut fed) = (0u64, 0u64);
        for (g, lines) in groups.iter().zip(run_probe_groups("c09", &dir, &groups, jobs(), 15).iter()) {
            let (r, f) = report_probe_lines(run, lines, c09_verdict);
            runs += r;
            fed += f;
            run.count(&format!("probe-emu:{}", g.split_whitespace().nth(1).unwrap_or("?")));
        }
        run.evaluations += fed;
        run.extra.push(("probe_runs".into(), runs.to_string()));
        run.extra.push(("probe_chars".into(), fed.to_string()));
    }
    if run.samples.is_empty() {
        for c in cases.iter().take(3) {
            run.samples.push(c.chars().take(200).collect());
        }
    }
}
