//! C11, the CP437 <-> Unicode layer of `SauceString`: `SauceString::from(String)` / `to_string()` on arbitrary Rust strings
//! vs `Model/SauceUni.lean` (`sauceuni from|text|rt …`, strings as hex of their UTF-8 bytes).
//! Oracle (independent of the model): a string of at most LEN CP437 characters without trailing blank / NUL comes back
//! unchanged through from -> append_to -> read -> to_string; any other string does not (the domain is exact); a character
//! outside the table becomes `?`; at most LEN characters are taken.
use crate::util::*;
use icy_engine::{ascii::CP437_TO_UNICODE, SauceString};

fn from_obs<const L: usize, const P: u8>(s: &str) -> (Vec<u8>, String) {
    let v = SauceString::<L, P>::from(s.to_string());
    let mut out = Vec::new();
    v.append_to(&mut out);
    // the contents are the appended bytes without the padding `append_to` adds (contents never exceed LEN)
    let n = s.chars().count().min(L);
    (out[..n].to_vec(), v.to_string())
}

fn rt_obs<const L: usize, const P: u8>(s: &str) -> Result<String, String> {
    let v = SauceString::<L, P>::from(s.to_string());
    let mut out = Vec::new();
    v.append_to(&mut out);
    catch(std::panic::AssertUnwindSafe(move || {
        let mut r = SauceString::<L, P>::new();
        r.read(&out);
        r.to_string()
    }))
}

fn text_obs(bytes: &[u8]) -> String {
    // a SauceString<64, 0> holding exactly these bytes (read stops at the first NUL, so build it through `from`)
    let s: String = bytes.iter().map(|b| CP437_TO_UNICODE[*b as usize]).collect();
    SauceString::<64, 0>::from(s).to_string()
}

fn in_table(c: char) -> bool {
    CP437_TO_UNICODE.contains(&c)
}

fn gen_string(r: &mut Rng, max: usize) -> String {
    let n = r.below(max as u64 + 1) as usize;
    let style = r.below(5);
    (0..n)
        .map(|_| match style {
            0 => r.range(0x20, 0x7E) as u8 as char,
            1 => CP437_TO_UNICODE[r.below(256) as usize],
            2 => *r.pick(&['A', ' ', '\0', 'é', '░', '€', '字', '\u{1F600}', '?', 'ÿ', '\u{a0}']),
            3 => {
                if r.chance(1, 5) {
                    char::from_u32(r.below(0x11_0000) as u32).unwrap_or('x')
                } else {
                    CP437_TO_UNICODE[r.below(256) as usize]
                }
            }
            _ => *r.pick(&[' ', '\0', 'a']),
        })
        .collect()
}

macro_rules! dispatch {
    ($len:expr, $pad:expr, $f:ident, $a:expr) => {
        match ($len, $pad) {
            (35, 32) => $f::<35, 32>($a),
            (20, 32) => $f::<20, 32>($a),
            (64, 0) => $f::<64, 0>($a),
            (22, 0) => $f::<22, 0>($a),
            _ => $f::<5, 32>($a),
        }
    };
}

pub fn string_case(run: &mut Run, len: usize, pad: u8, s: &str) {
    let hx = hex(s.as_bytes());
    let input = format!("su/{len}/{pad}/{hx}");
    let nchars = s.chars().count();
    let all_in = s.chars().all(in_table);
    run.count(&format!("uni string {len}/{pad}: {} {}", if nchars > len { "longer than LEN" } else { "fits" }, if all_in { "all CP437" } else { "has other characters" }));
    run.nontrivial(fnv(s.bytes().map(|b| b as u64).chain([len as u64, pad as u64])));
    let (bytes, text) = dispatch!(len, pad, from_obs, s);
    run.case(&format!("sauceuni from {len} {hx}"), &hex(&bytes));
    run.case(&format!("sauceuni text {}", hex(&bytes)), &hex(text_obs(&bytes).as_bytes()));
    let _ = text;
    // oracle: from, character by character
    for (i, c) in s.chars().take(len).enumerate() {
        let want = CP437_TO_UNICODE.iter().position(|x| *x == c).map(|p| p as u8).unwrap_or(b'?');
        if bytes.get(i) != Some(&want) {
            run.oracle_fail("string-from", &input, &format!("character {i} ({:?}) is not encoded as its CP437 byte / `?`", c));
            break;
        }
    }
    if bytes.len() != nchars.min(len) {
        run.oracle_fail("string-from", &input, "SauceString::from does not take min(LEN, number of characters) characters");
    }
    match dispatch!(len, pad, rt_obs, s) {
        Ok(back) => {
            run.case(&format!("sauceuni rt {len} {pad} {hx}"), &hex(back.as_bytes()));
            let stripped = s.trim_end_matches([' ', '\0']);
            let in_domain = nchars <= len && all_in && stripped == s && (pad != 0 || !s.contains('\0'));
            if in_domain && back != s {
                run.oracle_fail("roundtrip-string-unicode", &input, "a string of CP437 characters that fits, without trailing blank/NUL, does not come back");
            }
            if pad == b' ' && !in_domain && back == s {
                run.oracle_fail("string-domain-not-exact", &input, "a string outside the domain came back unchanged");
            }
            // in every case: CP437 strings that fit come back up to trailing blanks / NULs (blank-padded fields)
            if pad == b' ' && nchars <= len && all_in && back != stripped {
                run.oracle_fail("roundtrip-string-unicode", &input, "a CP437 string that fits comes back as something else than itself without trailing blanks/NULs");
            }
        }
        Err(l) => {
            run.case(&format!("sauceuni rt {len} {pad} {hx}"), "panic");
            run.oracle_fail("roundtrip-string-unicode", &input, &format!("panic at {}", panic_site(&l)));
        }
    }
}

pub fn cases(run: &mut Run, rng: &mut Rng, thorough: bool) {
    let m = if thorough { 10 } else { 1 };
    for (len, pad) in [(35usize, 32u8), (20, 32), (64, 0), (22, 0), (5, 32)] {
        for _ in 0..40 * m {
            let s = gen_string(rng, len + 4);
            string_case(run, len, pad, &s);
        }
        // boundaries: exactly LEN / LEN+1 characters, multi-byte characters at the cut, only blanks, only `?`, empty
        let full: String = (0..len).map(|i| CP437_TO_UNICODE[(i * 7 + 1) % 256]).collect();
        string_case(run, len, pad, &full);
        string_case(run, len, pad, &format!("{full}X"));
        string_case(run, len, pad, &format!("{}€", &full.chars().take(len - 1).collect::<String>()));
        string_case(run, len, pad, &" ".repeat(len));
        string_case(run, len, pad, "");
        string_case(run, len, pad, "???");
        string_case(run, len, pad, "a\0b");
        string_case(run, len, pad, "ab \0 ");
    }
    // every table character on its own and every byte through to_string (the table is used in both directions)
    for b in 0..256usize {
        let c = CP437_TO_UNICODE[b];
        string_case(run, 5, 32, &format!("x{c}y"));
    }
    run.extra.push(("every_cp437_character_through_from_and_to_string".into(), "true".into()));
}
