//! C08: undo restores the document and redo the edit, for every edit history.
//!
//! Replay syntax (no spaces): `D,bw,bh,fontmode,fullfont;L,w,h,ox,oy,flags,rw,rh,seed;…;op,arg,…;op;…`
//!   (lines sent to the model carry the identity of the fonts as extra arguments: `D,…,initfont`, `saf,page,font` …)
//!   layer flags: 1 hidden, 2 locked, 4 position-locked, 8 has-alpha, 16 alpha-locked; `rw x rh` = size of the raw
//!   `lines` storage (may be larger than `w x h`: hidden content; or smaller: unmaterialised rows), `seed` = cell pattern.
//!   ops: see `exec_op`. `u`/`r` are undo/redo steps inside the history, `ga`/`ge` open/close an atomic undo group.
//!
//! Every history is first sanitised (ops whose edit returns Err or panics are dropped: the property quantifies over
//! edits that report success), then run with a shadow of both stacks holding the document snapshots recorded on the way
//! forward; the oracle appends `undo_stack_len()` undos, as many redos, one more undo and a fresh edit, and checks after
//! EVERY undo/redo step that it did not fail/panic and produced the recorded document, and that a new edit empties the
//! redo stack.  Correspondence: for histories over the modelled alphabet the per-step hash of the exact state
//! (sizes, offsets, flags, raw rows, caret, selection, stack lengths) is compared with `icydrv undo run`.
use crate::util::*;
use icy_engine::editor::{AtomicUndoGuard, EditState, UndoState};
use icy_engine::{
    AttributedChar, BitFont, Buffer, FontMode, IceMode, Layer, Palette, PaletteMode, Position, Rectangle, SauceData, SauceString, Size, TextAttribute,
    TextPane,
};
use std::panic::AssertUnwindSafe;

// ---------------------------------------------------------------------------------------------- spec / syntax

#[derive(Clone, Debug, PartialEq)]
pub struct LayerSpec {
    w: i32,
    h: i32,
    ox: i32,
    oy: i32,
    flags: u32,
    rw: i32,
    rh: i32,
    seed: u32,
}

#[derive(Clone, Debug, PartialEq)]
pub struct Op {
    name: String,
    a: Vec<i64>,
}

impl Op {
    fn new(name: &str, a: &[i64]) -> Op {
        Op { name: name.to_string(), a: a.to_vec() }
    }
    fn fmt(&self) -> String {
        let mut s = self.name.clone();
        for v in &self.a {
            s.push(',');
            s.push_str(&v.to_string());
        }
        s
    }
    fn arg(&self, i: usize) -> i64 {
        self.a.get(i).copied().unwrap_or(0)
    }
    fn i(&self, i: usize) -> i32 {
        self.arg(i).clamp(-100_000, 100_000) as i32
    }
    fn u(&self, i: usize) -> usize {
        self.arg(i).clamp(0, 100_000) as usize
    }
}

#[derive(Clone, Debug, PartialEq)]
pub struct Spec {
    bw: i32,
    bh: i32,
    fm: u32,
    ff: u32,
    layers: Vec<LayerSpec>,
    ops: Vec<Op>,
}

impl Spec {
    fn fmt(&self) -> String {
        let mut s = format!("D,{},{},{},{}", self.bw, self.bh, self.fm, self.ff);
        for l in &self.layers {
            s.push_str(&format!(";L,{},{},{},{},{},{},{},{}", l.w, l.h, l.ox, l.oy, l.flags, l.rw, l.rh, l.seed));
        }
        for o in &self.ops {
            s.push(';');
            s.push_str(&o.fmt());
        }
        s
    }
    /// the same history as the model reads it (font identities filled in)
    fn fmt_model(&self) -> String {
        let init = font_code(&if self.ff == 0 { cut_font() } else { BitFont::default() });
        let mut s = format!("D,{},{},{},{},{}", self.bw, self.bh, self.fm, self.ff, init);
        for l in &self.layers {
            s.push_str(&format!(";L,{},{},{},{},{},{},{},{}", l.w, l.h, l.ox, l.oy, l.flags, l.rw, l.rh, l.seed));
        }
        for o in &self.ops {
            s.push(';');
            s.push_str(&op_for_model(o).fmt());
        }
        s
    }
    fn parse(s: &str) -> Option<Spec> {
        let mut spec = Spec { bw: 0, bh: 0, fm: 0, ff: 0, layers: vec![], ops: vec![] };
        let mut have_doc = false;
        for tok in s.trim().split(';') {
            if tok.is_empty() {
                continue;
            }
            let mut parts = tok.split(',');
            let name = parts.next()?;
            let a: Vec<i64> = parts.map(|p| p.parse::<i64>().unwrap_or(0)).collect();
            let g = |i: usize| a.get(i).copied().unwrap_or(0);
            match name {
                "D" => {
                    spec.bw = g(0) as i32;
                    spec.bh = g(1) as i32;
                    spec.fm = g(2) as u32;
                    spec.ff = g(3) as u32;
                    have_doc = true;
                }
                "L" => spec.layers.push(LayerSpec {
                    w: g(0) as i32,
                    h: g(1) as i32,
                    ox: g(2) as i32,
                    oy: g(3) as i32,
                    flags: g(4) as u32,
                    rw: g(5) as i32,
                    rh: g(6) as i32,
                    seed: g(7) as u32,
                }),
                _ => spec.ops.push(Op { name: name.to_string(), a }),
            }
        }
        if have_doc {
            Some(spec)
        } else {
            None
        }
    }
}

/// deterministic cell pattern shared with the Lean driver (`IcyVerif.Drv.Undo.pat`)
fn pat(seed: u32, x: i32, y: i32) -> Option<(u32, u32, u32)> {
    let (s, x, y) = (seed as i64, x as i64, y as i64);
    let v = (s * 31 + x * 7 + y * 13) % 11;
    if v < 3 {
        None
    } else {
        Some(((65 + (v + x + y) % 20) as u32, ((x + s) % 16) as u32, ((y + s) % 8) as u32))
    }
}

fn mk_cell(ch: u32, fg: u32, bg: u32) -> AttributedChar {
    AttributedChar::new(char::from_u32(ch).unwrap_or('?'), TextAttribute::new(fg, bg))
}

/// cell of the `sc` op: character, colours, font page, attribute bits (8 = blink)
fn mk_cell_full(ch: u32, fg: u32, bg: u32, page: usize, attr: u16) -> AttributedChar {
    let mut c = mk_cell(ch, fg, bg);
    c.attribute.set_font_page(page);
    c.attribute.attr = attr;
    c
}

const SAUCE_NAMES: [&str; 4] = ["IBM VGA", "IBM EGA", "Amiga Topaz 1", "nope"];

thread_local! {
    static FONT_CODES: std::cell::RefCell<Option<std::collections::HashMap<u64, i64>>> = const { std::cell::RefCell::new(None) };
}

fn cut_font() -> BitFont {
    let mut f = BitFont::default();
    f.glyphs.retain(|c, _| c.is_ascii_uppercase() || c.is_ascii_digit() || *c == ' ');
    f
}

/// identity of a font for the model: ANSI font page n -> n, SAUCE name k -> 1000 + k, `BitFont::default()` -> 5000, the
/// cut-down default -> 5001; fonts with equal content share the smallest code
fn font_code(f: &BitFont) -> i64 {
    let sig = font_sig(f);
    FONT_CODES.with(|m| {
        let mut m = m.borrow_mut();
        let map = m.get_or_insert_with(|| {
            let mut map = std::collections::HashMap::new();
            for n in 0..64usize {
                if let Ok(f) = BitFont::from_ansi_font_page(n) {
                    map.entry(font_sig(&f)).or_insert(n as i64);
                }
            }
            for (k, name) in SAUCE_NAMES.iter().enumerate() {
                if let Ok(f) = BitFont::from_sauce_name(name) {
                    map.entry(font_sig(&f)).or_insert(1000 + k as i64);
                }
            }
            map.entry(font_sig(&BitFont::default())).or_insert(5000);
            map.entry(font_sig(&cut_font())).or_insert(5001);
            map
        });
        map.get(&sig).copied().unwrap_or(9999)
    })
}

/// the op as the model reads it: font operations get the identity of their font appended (-1 = no such font)
fn op_for_model(op: &Op) -> Op {
    let code = |r: icy_engine::EngineResult<BitFont>| r.map(|f| font_code(&f)).unwrap_or(-1);
    let c = match op.name.as_str() {
        "saf" | "aaf" | "af" | "sf" => code(BitFont::from_ansi_font_page(op.u(0))),
        "ssf" => code(BitFont::from_sauce_name(SAUCE_NAMES[op.u(0) % 4])),
        _ => return op.clone(),
    };
    Op::new(&op.name, &[op.arg(0), c])
}

fn build(spec: &Spec) -> EditState {
    let mut buf = Buffer::new((spec.bw.max(0), spec.bh.max(0)));
    buf.font_mode = match spec.fm {
        1 => FontMode::Single,
        2 => FontMode::Unlimited,
        3 => FontMode::FixedSize,
        _ => FontMode::Sauce,
    };
    if spec.ff == 0 {
        // flip_x/flip_y build an O(glyphs^2) table on every call: most documents carry font 0 cut down to 37 glyphs
        // (none of them has a flip partner), `ff=1` documents keep the full font
        buf.set_font(0, cut_font());
    }
    buf.layers.clear();
    for (i, l) in spec.layers.iter().enumerate() {
        let mut layer = Layer::new(format!("L{}", i), (l.rw.max(0), l.rh.max(0)));
        for y in 0..l.rh.max(0) {
            for x in 0..l.rw.max(0) {
                if let Some((ch, fg, bg)) = pat(l.seed, x, y) {
                    layer.lines[y as usize].chars[x as usize] = mk_cell(ch, fg, bg);
                }
            }
        }
        layer.set_size((l.w, l.h));
        layer.properties.offset = Position::new(l.ox, l.oy);
        layer.properties.is_visible = l.flags & 1 == 0;
        layer.properties.is_locked = l.flags & 2 != 0;
        layer.properties.is_position_locked = l.flags & 4 != 0;
        layer.properties.has_alpha_channel = l.flags & 8 != 0;
        layer.properties.is_alpha_channel_locked = l.flags & 16 != 0;
        buf.layers.push(layer);
    }
    EditState::from_buffer(buf)
}

// ---------------------------------------------------------------------------------------------- executing one op

#[derive(Debug, Clone, PartialEq)]
enum Res {
    Ok,
    /// the edit returned Err or panicked: the op is outside the property's quantifier
    EditFail(String),
    /// undo / redo returned Err ("err") or panicked ("panic")
    UndoFail(&'static str, String),
    RedoFail(&'static str, String),
    Skip,
}

fn clip_data(w: i32, h: i32, x: i32, y: i32, seed: u32) -> Vec<u8> {
    let mut d = vec![0u8];
    d.extend(i32::to_le_bytes(x));
    d.extend(i32::to_le_bytes(y));
    d.extend(u32::to_le_bytes(w.max(0) as u32));
    d.extend(u32::to_le_bytes(h.max(0) as u32));
    for yy in 0..h.max(0) {
        for xx in 0..w.max(0) {
            let (ch, attr, fg, bg) = match pat(seed, xx, yy) {
                Some((c, f, b)) => (c, 0u16, f, b),
                None => (32, 0x8000u16, 7, 0),
            };
            d.extend(u16::to_le_bytes(ch as u16));
            d.extend(u16::to_le_bytes(attr));
            d.extend(u16::to_le_bytes(0));
            d.extend(u32::to_le_bytes(bg));
            d.extend(u32::to_le_bytes(fg));
        }
    }
    d
}

fn is_edit(name: &str) -> bool {
    !matches!(name, "u" | "r" | "cl" | "clp" | "cp" | "ca" | "mm" | "ga" | "ge")
}

fn exec_op(st: &mut EditState, guards: &mut Vec<AtomicUndoGuard>, op: &Op) -> Res {
    let name = op.name.as_str();
    match name {
        "u" | "r" => {
            if !guards.is_empty() {
                return Res::Skip;
            }
            let undo = name == "u";
            if undo && st.undo_stack_len() == 0 || !undo && !st.can_redo() {
                return Res::Skip;
            }
            let r = catch(AssertUnwindSafe(|| if undo { st.undo().map_err(|e| e.to_string()) } else { st.redo().map_err(|e| e.to_string()) }));
            return match (undo, r) {
                (_, Ok(Ok(()))) => Res::Ok,
                (true, Ok(Err(e))) => Res::UndoFail("err", e),
                (true, Err(p)) => Res::UndoFail("panic", panic_site(&p)),
                (false, Ok(Err(e))) => Res::RedoFail("err", e),
                (false, Err(p)) => Res::RedoFail("panic", panic_site(&p)),
            };
        }
        "ga" => {
            guards.push(st.begin_atomic_undo("group"));
            return Res::Ok;
        }
        "ge" => {
            if let Some(g) = guards.pop() {
                let r = catch(AssertUnwindSafe(move || drop(g)));
                return match r {
                    Ok(()) => Res::Ok,
                    Err(p) => Res::EditFail(panic_site(&p)),
                };
            }
            return Res::Skip;
        }
        _ => {}
    }
    let r = catch(AssertUnwindSafe(|| -> Result<(), String> {
        let e = |r: icy_engine::EngineResult<()>| r.map_err(|e| e.to_string());
        match name {
            "cl" => {
                st.set_current_layer(op.u(0));
                Ok(())
            }
            "clp" => {
                // what the UI does after a paste: the floating layer becomes the current one
                if let Some(i) = st.get_buffer().layers.iter().position(|l| l.role.is_paste()) {
                    st.set_current_layer(i);
                }
                Ok(())
            }
            "cp" => {
                st.get_caret_mut().set_position(Position::new(op.i(0), op.i(1)));
                Ok(())
            }
            "ca" => {
                // caret attribute (set_ice_mode converts it too; it is editor state outside the document)
                let mut a = TextAttribute::new(op.u(0) as u32, op.u(1) as u32);
                a.set_is_blinking(op.arg(2) != 0);
                a.set_font_page(st.get_caret().get_font_page());
                st.get_caret_mut().set_attr(a);
                Ok(())
            }
            "mm" => {
                st.set_mirror_mode(op.arg(0) != 0);
                Ok(())
            }
            "sc" => e(st.set_char((op.i(0), op.i(1)), mk_cell_full(op.u(2) as u32, op.u(3) as u32, op.u(4) as u32, op.u(5), op.u(6) as u16))),
            "sci" => e(st.set_char((op.i(0), op.i(1)), AttributedChar::invisible())),
            "sw" => e(st.swap_char((op.i(0), op.i(1)), (op.i(2), op.i(3)))),
            "al" => e(st.add_new_layer(op.u(0))),
            "rl" => e(st.remove_layer(op.u(0))),
            "ra" => e(st.raise_layer(op.u(0))),
            "lo" => e(st.lower_layer(op.u(0))),
            "du" => e(st.duplicate_layer(op.u(0))),
            "cll" => e(st.clear_layer(op.u(0))),
            "mg" => e(st.merge_layer_down(op.u(0))),
            "tv" => e(st.toggle_layer_visibility(op.u(0))),
            "mv" => e(st.move_layer(Position::new(op.i(0), op.i(1)))),
            "sls" => e(st.set_layer_size(op.u(0), (op.i(1), op.i(2)))),
            "rb" => e(st.resize_buffer(false, (op.i(0), op.i(1)))),
            "rbl" => e(st.resize_buffer(true, (op.i(0), op.i(1)))),
            "cr" => e(st.crop()),
            "crr" => e(st.crop_rect(Rectangle::from(op.i(0), op.i(1), op.i(2), op.i(3)))),
            "ss" => e(st.set_selection(Rectangle::from(op.i(0), op.i(1), op.i(2), op.i(3)))),
            "ssa" => {
                let mut sel: icy_engine::Selection = Rectangle::from(op.i(0), op.i(1), op.i(2), op.i(3)).into();
                sel.add_type = match op.arg(4) {
                    1 => icy_engine::AddType::Add,
                    2 => icy_engine::AddType::Subtract,
                    _ => icy_engine::AddType::Default,
                };
                if op.arg(5) != 0 {
                    sel.shape = icy_engine::Shape::Lines;
                }
                e(st.set_selection(sel))
            }
            "cs" => e(st.clear_selection()),
            "ds" => e(st.deselect()),
            "asm" => e(st.add_selection_to_mask()),
            "inv" => e(st.inverse_selection()),
            "er" => e(st.erase_selection()),
            "fx" => e(st.flip_x()),
            "fy" => e(st.flip_y()),
            "jl" => e(st.justify_left()),
            "jr" => e(st.justify_right()),
            "ce" => e(st.center()),
            "jll" => e(st.justify_line_left()),
            "jlr" => e(st.justify_line_right()),
            "cel" => e(st.center_line()),
            "dr" => e(st.delete_row()),
            "ir" => e(st.insert_row()),
            "dc" => e(st.delete_column()),
            "ic" => e(st.insert_column()),
            "erow" => e(st.erase_row()),
            "erows" => e(st.erase_row_to_start()),
            "erowe" => e(st.erase_row_to_end()),
            "ecol" => e(st.erase_column()),
            "ecols" => e(st.erase_column_to_start()),
            "ecole" => e(st.erase_column_to_end()),
            "su" => e(st.scroll_area_up()),
            "sd" => e(st.scroll_area_down()),
            "sl" => e(st.scroll_area_left()),
            "sr" => e(st.scroll_area_right()),
            "rot" => e(st.rotate_layer()),
            "mt" => e(st.make_layer_transparent()),
            "st" => e(st.stamp_layer_down()),
            "pa" => e(st.paste_clipboard_data(&clip_data(op.i(0), op.i(1), op.i(2), op.i(3), op.u(4) as u32))),
            "an" => e(st.anchor_layer()),
            "afl" => {
                // only meaningful on a freshly pasted layer (that is how the UI uses it)
                let fresh = Layer::from_clipboard_data(&clip_data(1, 1, 0, 0, 0)).map(|l| l.properties.title.clone()).unwrap_or_default();
                if st.get_cur_layer().map(|l| l.role.is_paste() && l.properties.title == fresh).unwrap_or(false) {
                    e(st.add_floating_layer())
                } else {
                    Err("not a paste layer".into())
                }
            }
            "ice" => e(st.set_ice_mode(match op.arg(0) {
                1 => IceMode::Blink,
                2 => IceMode::Ice,
                _ => IceMode::Unlimited,
            })),
            "pm" => e(st.set_palette_mode(match op.arg(0) {
                1 => PaletteMode::Fixed16,
                2 => PaletteMode::Free8,
                3 => PaletteMode::Free16,
                _ => PaletteMode::RGB,
            })),
            "spal" => {
                let mut p = Palette::dos_default();
                p.set_color_rgb(1, op.u(0) as u8, 7, 9);
                e(st.switch_to_palette(p))
            }
            "usd" => {
                let s = if op.arg(0) == 0 {
                    None
                } else {
                    let mut sd = SauceData::default();
                    sd.title = SauceString::from(format!("T{}", op.arg(0)));
                    sd.author = SauceString::from("me");
                    sd.buffer_size = st.get_buffer().get_size();
                    Some(sd)
                };
                e(st.update_sauce_data(s))
            }
            "sfp" => e(st.switch_to_font_page(op.u(0))),
            "saf" => e(st.set_ansi_font(op.u(0))),
            "aaf" => e(st.add_ansi_font(op.u(0))),
            "ssf" => e(st.set_sauce_font(SAUCE_NAMES[op.u(0) % 4])),
            "af" => e(st.add_font(BitFont::from_ansi_font_page(op.u(0)).map_err(|e| e.to_string())?)),
            "sf" => e(st.set_font(BitFont::from_ansi_font_page(op.u(0)).map_err(|e| e.to_string())?)),
            "rfu" => e(st.replace_font_usage(op.u(0), op.u(1))),
            "cfs" => e(st.change_font_slot(op.u(0), op.u(1))),
            "rmf" => e(st.remove_font(op.u(0))),
            "ulp" => {
                let i = op.u(0);
                if i >= st.get_buffer().layers.len() {
                    return Err("invalid layer".into());
                }
                let mut p = st.get_buffer().layers[i].properties.clone();
                let f = op.u(1);
                p.is_visible = f & 1 == 0;
                p.is_locked = f & 2 != 0;
                p.is_position_locked = f & 4 != 0;
                p.has_alpha_channel = f & 8 != 0;
                p.is_alpha_channel_locked = f & 16 != 0;
                if f & 32 != 0 {
                    p.title = format!("t{}", f);
                }
                e(st.update_layer_properties(i, p))
            }
            "ucp" => e(st.undo_caret_position()),
            "es" => {
                // the two closures of `IcyVerif.Undo.enumClosure`
                if op.arg(0) == 0 {
                    st.enumerate_selections(|_, ch, _| Some(ch.ch as u32 % 2 == 0));
                } else {
                    st.enumerate_selections(|pos, _, sel| if pos.x.rem_euclid(2) == 0 { Some(!sel) } else { None });
                }
                Ok(())
            }
            "psx" => e(st.paste_sixel(icy_engine::Sixel::from_data((op.i(0).max(1), op.i(1).max(1)), 1, 1, vec![0u8; (op.i(0).max(1) * op.i(1).max(1) * 4) as usize]))),
            "cpd" => {
                // copy the selection of the current layer and paste it back (get_clipboard_data -> from_clipboard_data)
                match st.get_clipboard_data() {
                    Some(data) => e(st.paste_clipboard_data(&data)),
                    None => Err("nothing selected".into()),
                }
            }
            "prv" => {
                // push_reverse_undo of a record written here: the reversed record's redo is the inner undo
                let cur = st.get_buffer().get_size();
                let inner = SizeRecord { undo_size: Size::new(op.i(0), op.i(1)), redo_size: cur };
                e(st.push_reverse_undo("reverse", Box::new(inner), icy_engine::editor::OperationType::Unknown))
            }
            _ => Err(format!("unknown op {}", name)),
        }
    }));
    match r {
        Ok(Ok(())) => Res::Ok,
        Ok(Err(e)) => Res::EditFail(e),
        Err(p) => Res::EditFail(format!("panic {}", panic_site(&p))),
    }
}

/// an undo record implemented outside the crate (the `UndoOperation` trait is public): sets the buffer size
struct SizeRecord {
    undo_size: Size,
    redo_size: Size,
}

impl icy_engine::editor::UndoOperation for SizeRecord {
    fn get_description(&self) -> String {
        "size".into()
    }
    fn undo(&mut self, edit_state: &mut EditState) -> icy_engine::EngineResult<()> {
        edit_state.get_buffer_mut().set_size(self.undo_size);
        edit_state.set_mask_size();
        Ok(())
    }
    fn redo(&mut self, edit_state: &mut EditState) -> icy_engine::EngineResult<()> {
        edit_state.get_buffer_mut().set_size(self.redo_size);
        edit_state.set_mask_size();
        Ok(())
    }
}

/// the undo record type a public operation pushes (names of `undo_operations.rs`)
fn record_type(st: &EditState, op: &Op) -> String {
    let whole = || -> bool {
        let Some(layer) = st.get_cur_layer() else { return true };
        let lr = layer.get_rectangle();
        let area = match st.get_selection() {
            Some(sel) => sel.as_rectangle().intersect(&lr),
            None => lr,
        };
        area.get_width() >= layer.get_width()
    };
    match op.name.as_str() {
        "sc" | "sci" => "UndoSetChar",
        "sw" => "UndoSwapChar",
        "al" | "du" => "AddLayer",
        "rl" => "RemoveLayer",
        "ra" => "RaiseLayer",
        "lo" => "LowerLayer",
        "cll" => "ClearLayer",
        "mg" | "an" => "MergeLayerDown",
        "tv" => "ToggleLayerVisibility",
        "mv" => "MoveLayer",
        "sls" => "SetLayerSize",
        "rb" => "ResizeBuffer",
        "rbl" | "cr" | "crr" => "Crop",
        "ss" | "ssa" => "SetSelection",
        "cs" => "SelectNothing",
        "ds" => "Deselect",
        "asm" => "AddSelectionToMask",
        "inv" => "InverseSelection",
        // UndoLayerChange is built in three ways: from a clone of the whole layer (erase), from `Layer::from_layer`
        // snapshots of an area of the edited layer (area), and from snapshots of the layer below (stamp)
        "er" | "erow" | "erows" | "erowe" | "ecol" | "ecols" | "ecole" => "UndoLayerChange(erase)",
        "fx" | "fy" | "jl" | "jr" | "ce" | "jll" | "jlr" | "cel" | "sl" | "sr" | "mt" => "UndoLayerChange(area)",
        "st" => "UndoLayerChange(stamp)",
        "su" => {
            if whole() {
                "UndoScrollWholeLayerUp"
            } else {
                "UndoLayerChange(area)"
            }
        }
        "sd" => {
            if whole() {
                "UndoScrollWholeLayerDown"
            } else {
                "UndoLayerChange(area)"
            }
        }
        "rot" => "RotateLayer",
        "pa" => "Paste",
        "afl" => "AddFloatingLayer",
        "ice" => "SetIceMode",
        "pm" => "SwitchPalette",
        "spal" => "SwitchPalettte",
        "usd" => "SetSauceData",
        "sfp" => "SwitchToFontPage",
        "saf" | "ssf" | "sf" => "SetFont",
        "aaf" | "af" => "AddFont",
        "rfu" => "ReplaceFontUsage",
        "cfs" => "ChangeFontSlot",
        "rmf" => "RemoveFont",
        "ulp" => "UpdateLayerProperties",
        "ucp" => "ReverseCaretPosition",
        "prv" => "ReversedUndo",
        "es" => "SetSelectionMask",
        "psx" | "cpd" => "Paste",
        "dr" => "DeleteRow",
        "ir" => "InsertRow",
        "dc" => "DeleteColumn",
        "ic" => "InsertColumn",
        _ => "?",
    }
    .to_string()
}

/// state features of the layer an op targets, at the time its record is created (part of the finding key)
fn features(st: &EditState, op: &Op) -> Vec<&'static str> {
    let layers = &st.get_buffer().layers;
    let idx = match op.name.as_str() {
        "rl" | "ra" | "lo" | "du" | "cll" | "mg" | "tv" | "sls" | "ulp" => Some(op.u(0)),
        "st" => st.get_current_layer().ok().and_then(|i| i.checked_sub(1)),
        _ => st.get_current_layer().ok(),
    };
    let mut f = Vec::new();
    let Some(l) = idx.and_then(|i| layers.get(i)) else {
        return f;
    };
    let inv = AttributedChar::invisible();
    let (w, h) = (l.get_width().max(0) as usize, l.get_height().max(0) as usize);
    let mut hidden = false;
    for (y, line) in l.lines.iter().enumerate() {
        for (x, c) in line.chars.iter().enumerate() {
            if (x >= w || y >= h) && *c != inv {
                hidden = true;
            }
        }
    }
    if hidden {
        f.push("hidden");
    }
    if l.lines.len() < h || l.lines.iter().take(h).any(|ln| ln.chars.len() < w) {
        f.push("short");
    }
    if !l.properties.is_visible {
        f.push("invisible");
    }
    if l.properties.is_locked {
        f.push("locked");
    }
    if l.properties.has_alpha_channel && l.properties.is_alpha_channel_locked {
        f.push("alphalocked");
    }
    f
}

// ---------------------------------------------------------------------------------------------- snapshots

fn cell_ints(c: AttributedChar) -> [u64; 5] {
    [c.ch as u64, c.attribute.attr as u64, c.attribute.get_foreground() as u64, c.attribute.get_background() as u64, c.get_font_page() as u64]
}

fn enc(v: i32) -> u64 {
    // two's complement in 32 bits, the Lean side does the same with `Int.toNat (v % 2^32)`
    v as u32 as u64
}

fn layer_flags(l: &Layer) -> u64 {
    let p = &l.properties;
    (!p.is_visible) as u64 | (p.is_locked as u64) << 1 | (p.is_position_locked as u64) << 2 | (p.has_alpha_channel as u64) << 3 | (p.is_alpha_channel_locked as u64) << 4
}

/// exact state as the model sees it
fn model_snap(st: &EditState) -> Vec<u64> {
    let b = st.get_buffer();
    let mut v = vec![enc(b.get_width()), enc(b.get_height()), st.undo_stack_len() as u64, st.can_redo() as u64, b.layers.len() as u64];
    let cp = st.get_caret().get_position();
    v.push(enc(cp.x));
    v.push(enc(cp.y));
    v.push(st.get_caret().get_font_page() as u64);
    v.push(match b.font_mode {
        FontMode::Sauce => 0,
        FontMode::Single => 1,
        FontMode::Unlimited => 2,
        FontMode::FixedSize => 3,
    });
    v.push(match b.ice_mode {
        IceMode::Unlimited => 0,
        IceMode::Blink => 1,
        IceMode::Ice => 2,
    });
    v.push(match b.palette_mode {
        PaletteMode::RGB => 0,
        PaletteMode::Fixed16 => 1,
        PaletteMode::Free8 => 2,
        PaletteMode::Free16 => 3,
    });
    v.push(match b.get_sauce() {
        Some(s) => 1 + s.title.to_string().trim_start_matches('T').parse::<u64>().unwrap_or(0),
        None => 0,
    });
    v.push(b.palette.len() as u64);
    for c in b.palette.color_iter() {
        let (r, g, bl) = c.get_rgb();
        v.push((r as u64) << 16 | (g as u64) << 8 | bl as u64);
    }
    let mut fonts: Vec<(usize, i64)> = b.font_iter().map(|(k, f)| (*k, font_code(f))).collect();
    fonts.sort();
    v.push(fonts.len() as u64);
    for (k, c) in fonts {
        v.push(k as u64);
        v.push(c as u64);
    }
    match st.get_selection() {
        Some(s) => {
            let add = match s.add_type {
                icy_engine::AddType::Default => 0,
                icy_engine::AddType::Add => 1,
                icy_engine::AddType::Subtract => 2,
            };
            v.extend([1, enc(s.anchor.x), enc(s.anchor.y), enc(s.lead.x), enc(s.lead.y), add, matches!(s.shape, icy_engine::Shape::Lines) as u64]);
        }
        None => v.push(0),
    }
    // the selection mask as far as it can be seen from outside: on the buffer plus a margin
    let (mw, mh) = (b.get_width().clamp(0, 40) + 2, b.get_height().clamp(0, 40) + 2);
    for y in 0..mh {
        for x in 0..mw {
            v.push(st.get_is_mask_selected((x, y)) as u64);
        }
    }
    for l in &b.layers {
        let role = match l.role {
            icy_engine::Role::Normal => 0,
            icy_engine::Role::PastePreview => 1,
            icy_engine::Role::PasteImage => 2,
            icy_engine::Role::Image => 3,
        };
        v.extend([enc(l.get_width()), enc(l.get_height()), enc(l.get_offset().x), enc(l.get_offset().y), layer_flags(l), role]);
        v.push(l.properties.title.len() as u64);
        v.extend(l.properties.title.bytes().map(|b| b as u64));
        v.push(l.lines.len() as u64);
        for line in &l.lines {
            v.push(line.chars.len() as u64);
            for c in &line.chars {
                v.extend(cell_ints(*c));
            }
        }
    }
    v
}

thread_local! {
    static FONT_SIGS: std::cell::RefCell<std::collections::HashMap<(String, i32, i32, i32, usize, u32), u64>> = Default::default();
}

fn font_sig(f: &BitFont) -> u64 {
    let key = (f.name.clone(), f.size.width, f.size.height, f.length, f.glyphs.len(), f.checksum);
    if let Some(v) = FONT_SIGS.with(|m| m.borrow().get(&key).copied()) {
        return v;
    }
    let v = font_sig_slow(f);
    FONT_SIGS.with(|m| m.borrow_mut().insert(key, v));
    v
}

fn font_sig_slow(f: &BitFont) -> u64 {
    let mut keys: Vec<&char> = f.glyphs.keys().collect();
    keys.sort();
    let mut h = fnv(f.name.bytes().map(|b| b as u64).chain([f.size.width as u64, f.size.height as u64, f.length as u64, f.glyphs.len() as u64]));
    for k in keys.iter().step_by(37) {
        h = fnv_step(h, **k as u64);
        for b in &f.glyphs[*k].data {
            h = fnv_step(h, *b as u64);
        }
    }
    h
}

fn cells_str(it: impl Iterator<Item = AttributedChar>) -> String {
    let mut s = String::new();
    for c in it {
        let i = cell_ints(c);
        // `==` ignores the font page: the page of an invisible cell is representation noise (absent cells read back
        // with the layer's default_font_page, materialised padding with page 0)
        if c == AttributedChar::invisible() {
            s.push_str("_ ");
        } else {
            s.push_str(&format!("{:x}.{:x}.{:x}.{:x}.{:x} ", i[0], i[1], i[2], i[3], i[4]));
        }
    }
    s
}

/// the document state the property talks about, one line per item; normalised so that two documents that
/// are indistinguishable through `get_char`, sizes, offsets, properties AND the raw rows (hidden content) are equal
fn doc_snap(st: &EditState) -> Vec<String> {
    let b = st.get_buffer();
    let mut v = Vec::new();
    v.push(format!("buffer size {}x{}", b.get_width(), b.get_height()));
    v.push(format!("modes ice={:?} palette={:?} font={:?} type={:?}", b.ice_mode, b.palette_mode, b.font_mode, b.buffer_type));
    let mut pal = String::new();
    for c in b.palette.color_iter() {
        let (r, g, bl) = c.get_rgb();
        pal.push_str(&format!("{:02x}{:02x}{:02x} ", r, g, bl));
    }
    v.push(format!("palette {}", pal));
    let mut fonts: Vec<(usize, u64)> = b.font_iter().map(|(k, f)| (*k, font_sig(f))).collect();
    fonts.sort();
    v.push(format!("fonts {:?}", fonts));
    match b.get_sauce() {
        Some(s) => v.push(format!(
            "sauce title={} author={} group={} comments={} size={}x{} font={:?} ice={} ls={} ar={}",
            s.title,
            s.author,
            s.group,
            s.comments.len(),
            s.buffer_size.width,
            s.buffer_size.height,
            s.font_opt,
            s.use_ice,
            s.use_letter_spacing,
            s.use_aspect_ratio
        )),
        None => v.push("sauce none".into()),
    }
    v.push(format!("layers {}", b.layers.len()));
    for (i, l) in b.layers.iter().enumerate() {
        let p = &l.properties;
        v.push(format!(
            "L{} title={:?} role={:?} mode={:?} color={:?} transparency={} dfp={} size={}x{} offset={},{} visible={} locked={} poslocked={} alpha={} alphalocked={}",
            i,
            p.title,
            l.role,
            p.mode,
            p.color.as_ref().map(|c| c.get_rgb()),
            l.transparency,
            l.default_font_page,
            l.get_width(),
            l.get_height(),
            l.get_offset().x,
            l.get_offset().y,
            p.is_visible,
            p.is_locked,
            p.is_position_locked,
            p.has_alpha_channel,
            p.is_alpha_channel_locked
        ));
        let (w, h) = (l.get_width().clamp(0, 64), l.get_height().clamp(0, 64));
        for y in 0..h {
            v.push(format!("L{} cells y={}: {}", i, y, cells_str((0..w).map(|x| l.get_char((x, y))))));
        }
        // raw rows, trailing absent-equivalent cells and rows stripped
        let inv = AttributedChar::invisible();
        let mut raw: Vec<String> = Vec::new();
        for line in &l.lines {
            let mut n = line.chars.len();
            while n > 0 && line.chars[n - 1] == inv {
                n -= 1;
            }
            raw.push(cells_str(line.chars[..n].iter().copied()));
        }
        while raw.last().map(|s| s.is_empty()).unwrap_or(false) {
            raw.pop();
        }
        for (y, r) in raw.iter().enumerate() {
            v.push(format!("L{} raw y={}: {}", i, y, r));
        }
        v.push(format!("L{} sixels={} links={}", i, l.sixels.len(), l.hyperlinks().len()));
    }
    v
}

fn first_diff(a: &[String], b: &[String]) -> String {
    for i in 0..a.len().max(b.len()) {
        let x = a.get(i).map(|s| s.as_str()).unwrap_or("<missing>");
        let y = b.get(i).map(|s| s.as_str()).unwrap_or("<missing>");
        if x != y {
            return format!("expected `{}` got `{}`", x.trim(), y.trim());
        }
    }
    "no difference".into()
}

thread_local! {
    /// relevance test of a key feature: (executed-step index, feature) to neutralise just before that step
    static NEUTRAL: std::cell::RefCell<Option<(usize, &'static str)>> = const { std::cell::RefCell::new(None) };
    static RUNS: std::cell::Cell<u64> = const { std::cell::Cell::new(0) };
}

// ---------------------------------------------------------------------------------------------- running a history

#[derive(Clone, Debug)]
pub struct Failure {
    /// undo-err / undo-panic / undo-mismatch / redo-err / redo-panic / redo-mismatch / redo-not-cleared / unrecorded-change
    kind: String,
    /// record type(s) of the entry whose undo/redo deviates
    culprit: String,
    features: Vec<&'static str>,
    what: String,
    step: usize,
}

impl Failure {
    fn prekey(&self) -> String {
        format!("{}:{}", self.culprit, self.kind)
    }
    fn key(&self) -> String {
        format!("{}:{}:{}", self.culprit, self.kind, if self.features.is_empty() { "plain".to_string() } else { self.features.join("+") })
    }
}

struct Entry {
    below: Vec<String>,
    above: Vec<String>,
    culprit: String,
    features: Vec<&'static str>,
    /// number of executed steps before the edit (or group) that pushed the entry
    step: usize,
}

pub struct Trace {
    /// ops that were actually executed (edits that failed were dropped), with the oracle tail appended
    steps: Vec<Op>,
    hashes: Vec<String>,
    failure: Option<Failure>,
    /// first edit that failed (prefix + that op), for the model's edit-failure check
    failed_edit: Option<usize>,
    /// a step the model does not cover was executed (`outside_model`)
    unmodelled: bool,
    max_stack: usize,
}

/// steps the model does not interpret (the history is then checked by the oracle only)
fn outside_model(st: &EditState, op: &Op) -> bool {
    match op.name.as_str() {
        // sixels are not in the model
        "psx" => true,
        // flip tables: only the cut-down font (no character has a mirror partner) is interpreted
        "fx" | "fy" => st.get_buffer().font_iter().any(|(_, f)| font_code(f) != 5001),
        // Shape::Lines selections are added to the mask position by position
        "asm" => st.get_selection().map(|s| matches!(s.shape, icy_engine::Shape::Lines)).unwrap_or(false),
        // replace_font_usage changes default_font_page when a layer's default is the replaced page
        "rfu" | "cfs" | "rmf" => st.get_buffer().layers.iter().any(|l| l.default_font_page == op.u(0)),
        _ => false,
    }
}

/// runs `ops` on a fresh document; returns Err(index) when the edit at `index` does not succeed
fn run_once(spec: &Spec, ops: &[Op], oracle_tail: bool, want_hashes: bool) -> Result<Trace, (usize, Vec<Op>)> {
    RUNS.with(|r| r.set(r.get() + 1));
    let mut st = build(spec);
    let mut guards: Vec<AtomicUndoGuard> = Vec::new();
    let mut undo_sh: Vec<Entry> = Vec::new();
    let mut redo_sh: Vec<Entry> = Vec::new();
    let mut tr = Trace { steps: Vec::new(), hashes: Vec::new(), failure: None, failed_edit: None, unmodelled: false, max_stack: 0 };
    let mut cur = doc_snap(&st);
    // culprit/features of the ops inside an open top-level group
    let mut group_culprits: Vec<String> = Vec::new();
    let mut group_features: Vec<&'static str> = Vec::new();
    let mut group_below: Option<Vec<String>> = None;
    let mut group_len = 0usize;
    let mut group_step = 0usize;
    let mut neutral = NEUTRAL.with(|n| n.borrow().clone());
    if want_hashes {
        tr.hashes.push(fnv(model_snap(&st)).to_string());
    }
    let mut queue: Vec<Op> = ops.to_vec();
    queue.reverse();
    let mut tail_added = !oracle_tail;
    let mut idx = 0usize;
    loop {
        let op = match queue.pop() {
            Some(o) => o,
            None => {
                // close groups left open, then append the oracle tail once
                if !guards.is_empty() {
                    queue.push(Op::new("ge", &[]));
                    continue;
                }
                if tail_added {
                    break;
                }
                tail_added = true;
                let k = st.undo_stack_len();
                // tail (executed in this order): k undos, k redos, one undo, a fresh edit
                let mut tail: Vec<Op> = Vec::new();
                for _ in 0..k {
                    tail.push(Op::new("u", &[]));
                }
                for _ in 0..k {
                    tail.push(Op::new("r", &[]));
                }
                if k > 0 {
                    tail.push(Op::new("u", &[]));
                    tail.push(Op::new("rb", &[(st.get_buffer().get_width() + 1) as i64, st.get_buffer().get_height() as i64]));
                }
                tail.reverse();
                queue = tail;
                continue;
            }
        };
        let name = op.name.as_str();
        let step_no = tr.steps.len();
        if let Some((at, feat)) = neutral {
            if at == step_no {
                neutralise(&mut st, feat);
                cur = doc_snap(&st);
                neutral = None;
            }
        }
        let len_before = st.undo_stack_len();
        let (culprit, feats) = if is_edit(name) { (record_type(&st, &op), features(&st, &op)) } else { (String::new(), Vec::new()) };
        let top_level = guards.is_empty();
        if outside_model(&st, &op) {
            tr.unmodelled = true;
        }
        let res = exec_op(&mut st, &mut guards, &op);
        match res {
            Res::Skip => {
                idx += 1;
                continue;
            }
            Res::EditFail(_) => {
                if idx < ops.len() {
                    // the steps executed so far plus the edit that did not succeed
                    // (no must-fail case for the model when the prefix left the modelled fragment)
                    let mut pre = tr.steps.clone();
                    pre.push(op.clone());
                    return Err((idx, if tr.unmodelled { Vec::new() } else { pre }));
                }
                // the oracle's own probe edit failed (cannot happen: resize_buffer(false) never fails); ignore
                idx += 1;
                continue;
            }
            _ => {}
        }
        tr.steps.push(op.clone());
        // the descriptions of the stack tops must be obtainable in every state
        if let Err(p) = catch(AssertUnwindSafe(|| (st.undo_description(), st.redo_description(), st.can_undo()))) {
            tr.failure = Some(Failure { kind: "description-panic".into(), culprit: culprit.clone(), features: vec![], what: format!("undo_description/redo_description panicked in {}", panic_site(&p)), step: step_no });
            break;
        }
        let len_after = st.undo_stack_len();
        tr.max_stack = tr.max_stack.max(len_after);
        let snap = doc_snap(&st);
        let mut fail: Option<Failure> = None;
        match (&res, name) {
            (Res::UndoFail(k, w), _) | (Res::RedoFail(k, w), _) => {
                let e = if name == "u" { undo_sh.last() } else { redo_sh.last() };
                fail = Some(Failure {
                    kind: format!("{}-{}", if name == "u" { "undo" } else { "redo" }, k),
                    culprit: e.map(|e| e.culprit.clone()).unwrap_or_else(|| "?".into()),
                    features: e.map(|e| e.features.clone()).unwrap_or_default(),
                    step: e.map(|e| e.step).unwrap_or(0),
                    what: format!("{} of the {} record {}: {}", if name == "u" { "undo" } else { "redo" }, e.map(|e| e.culprit.as_str()).unwrap_or("?"), if *k == "err" { "returned Err" } else { "panicked in" }, w),
                });
            }
            (Res::Ok, "u") => {
                if let Some(e) = undo_sh.pop() {
                    if e.below != snap {
                        fail = Some(Failure {
                            kind: "undo-mismatch".into(),
                            culprit: e.culprit.clone(),
                            features: e.features.clone(),
                            step: e.step,
                            what: format!("undo of the {} record did not restore the document it was pushed on: {}", e.culprit, first_diff(&e.below, &snap)),
                        });
                    }
                    redo_sh.push(e);
                }
            }
            (Res::Ok, "r") => {
                if let Some(e) = redo_sh.pop() {
                    if e.above != snap {
                        fail = Some(Failure {
                            kind: "redo-mismatch".into(),
                            culprit: e.culprit.clone(),
                            features: e.features.clone(),
                            step: e.step,
                            what: format!("redo of the {} record did not reproduce the edited document: {}", e.culprit, first_diff(&e.above, &snap)),
                        });
                    }
                    undo_sh.push(e);
                }
            }
            (Res::Ok, "ga") => {
                if top_level {
                    group_culprits.clear();
                    group_features.clear();
                    group_below = Some(cur.clone());
                    group_len = len_before;
                    group_step = step_no;
                }
            }
            (Res::Ok, _) => {
                let closes_group = name == "ge" && guards.is_empty();
                if is_edit(name) && !top_level {
                    group_culprits.push(culprit.clone());
                    for f in &feats {
                        if !group_features.contains(f) {
                            group_features.push(f);
                        }
                    }
                }
                if top_level && is_edit(name) || closes_group {
                    let (c, f, below, lb, st0) = if closes_group {
                        (group_culprits.join("+"), group_features.clone(), group_below.take().unwrap_or_else(|| cur.clone()), group_len, group_step)
                    } else {
                        (culprit.clone(), feats.clone(), cur.clone(), len_before, step_no)
                    };
                    let grown = len_after as i64 - lb as i64;
                    let changed = below != snap;
                    if (grown > 0 || changed) && st.can_redo() {
                        fail = Some(Failure {
                            kind: "redo-not-cleared".into(),
                            culprit: c.clone(),
                            features: vec![],
                            step: st0,
                            what: format!("a new edit ({}) after an undo left the redo stack non-empty", op.fmt()),
                        });
                    } else if grown > 0 {
                        for g in 0..grown {
                            undo_sh.push(Entry { below: if g == 0 { below.clone() } else { snap.clone() }, above: snap.clone(), culprit: c.clone(), features: f.clone(), step: st0 });
                        }
                    } else if changed {
                        fail = Some(Failure {
                            kind: "unrecorded-change".into(),
                            culprit: c.clone(),
                            features: f.clone(),
                            step: st0,
                            what: format!("{} changed the document but pushed no undo record: {}", op.fmt(), first_diff(&below, &snap)),
                        });
                    }
                }
            }
            _ => {}
        }
        if !st.can_redo() {
            // a new edit (or an atomic guard opened inside an API call) discarded the redo history
            redo_sh.clear();
        }
        cur = snap;
        if want_hashes {
            tr.hashes.push(match &res {
                Res::UndoFail(k, _) | Res::RedoFail(k, _) => if *k == "err" { "E".to_string() } else { "P".to_string() },
                _ => fnv(model_snap(&st)).to_string(),
            });
        }
        idx += 1;
        if fail.is_some() || matches!(res, Res::UndoFail(..) | Res::RedoFail(..)) {
            tr.failure = fail;
            break;
        }
    }
    // guards must be dropped before the state
    while let Some(g) = guards.pop() {
        let _ = catch(AssertUnwindSafe(move || drop(g)));
    }
    Ok(tr)
}

/// drop edits that do not succeed until the whole history does; returns the surviving ops and the trace
fn run_history(spec: &Spec, want_hashes: bool) -> (Vec<Op>, Trace, Vec<Vec<Op>>) {
    let mut ops = spec.ops.clone();
    let mut failed_prefixes = Vec::new();
    loop {
        match run_once(spec, &ops, true, want_hashes) {
            Ok(tr) => return (ops, tr, failed_prefixes),
            Err((i, pre)) => {
                if failed_prefixes.len() < 2 && !pre.is_empty() {
                    failed_prefixes.push(pre);
                }
                ops.remove(i);
            }
        }
    }
}

/// removes one state feature from every layer (direct manipulation, not an edit)
fn neutralise(st: &mut EditState, feat: &str) {
    for l in &mut st.get_buffer_mut().layers {
        let (w, h) = (l.get_width().max(0) as usize, l.get_height().max(0) as usize);
        match feat {
            "hidden" => {
                l.lines.truncate(h);
                for ln in &mut l.lines {
                    ln.chars.truncate(w);
                }
            }
            "short" => {
                if l.lines.len() < h {
                    l.lines.resize(h, icy_engine::Line::create(w as i32));
                }
                for ln in l.lines.iter_mut().take(h) {
                    if ln.chars.len() < w {
                        ln.chars.resize(w, AttributedChar::invisible());
                    }
                }
            }
            "invisible" => l.properties.is_visible = true,
            "locked" => l.properties.is_locked = false,
            "alphalocked" => l.properties.is_alpha_channel_locked = false,
            _ => {}
        }
    }
}

/// keeps the features without which the (minimised) failure disappears
fn relevant_features(spec: &Spec, f: &Failure) -> Vec<&'static str> {
    if f.features.len() == 0 {
        return vec![];
    }
    let mut keep = Vec::new();
    for feat in &f.features {
        NEUTRAL.with(|n| *n.borrow_mut() = Some((f.step, feat)));
        let r = run_once(spec, &spec.ops, true, false);
        NEUTRAL.with(|n| *n.borrow_mut() = None);
        let same = match r {
            Ok(tr) => tr.failure.map(|g| g.kind == f.kind && g.culprit == f.culprit).unwrap_or(false),
            Err(_) => false,
        };
        if !same {
            keep.push(*feat);
        }
    }
    if keep.is_empty() {
        f.features.clone()
    } else {
        keep
    }
}

fn check(spec: &Spec) -> Option<Failure> {
    let (_, tr, _) = run_history(spec, false);
    tr.failure
}

/// shortest history / simplest document that still fails with the same (culprit, kind)
fn minimise(spec: &Spec, f: &Failure) -> (Spec, Failure) {
    let kind = f.kind.clone();
    let mut best = spec.clone();
    let mut bestf = f.clone();
    // keep only the ops that survive sanitising
    let (ops, _, _) = run_history(&best, false);
    best.ops = ops;
    let mut budget = 600;
    let mut try_spec = |cand: &Spec, best: &mut Spec, bestf: &mut Failure, budget: &mut i32| -> bool {
        if *budget <= 0 {
            return false;
        }
        *budget -= 1;
        if let Some(nf) = check(cand) {
            let sub = nf.culprit.split('+').all(|c| bestf.culprit.split('+').any(|d| d == c));
            if nf.kind == kind && sub {
                let (ops, _, _) = run_history(cand, false);
                *best = cand.clone();
                best.ops = ops;
                *bestf = nf;
                return true;
            }
        }
        false
    };
    let mut changed = true;
    while changed && budget > 0 {
        changed = false;
        let mut i = best.ops.len();
        while i > 0 {
            i -= 1;
            if i >= best.ops.len() {
                continue;
            }
            let mut cand = best.clone();
            cand.ops.remove(i);
            if try_spec(&cand, &mut best, &mut bestf, &mut budget) {
                changed = true;
            }
        }
    }
    // an atomic group hides which record is responsible: try the same ops ungrouped (the kind may change)
    if best.ops.iter().any(|o| o.name == "ga") {
        let mut cand = best.clone();
        cand.ops.retain(|o| o.name != "ga" && o.name != "ge");
        if let Some(nf) = check(&cand) {
            if nf.culprit.split('+').all(|c| bestf.culprit.split('+').any(|d| d == c)) {
                let (ops, _, _) = run_history(&cand, false);
                cand.ops = ops;
                return minimise(&cand, &nf);
            }
        }
    }
    // the document: fewer layers, no flags, no hidden/unmaterialised storage, no offset, no font mode
    let mut li = best.layers.len();
    while li > 0 {
        li -= 1;
        if best.layers.len() > 1 {
            let mut cand = best.clone();
            cand.layers.remove(li);
            if try_spec(&cand, &mut best, &mut bestf, &mut budget) {
                continue;
            }
        }
        if li >= best.layers.len() {
            continue;
        }
        let variants: Vec<Box<dyn Fn(&mut LayerSpec)>> = vec![
            Box::new(|l| l.flags = 0),
            Box::new(|l| l.flags &= !1),
            Box::new(|l| l.flags &= !2),
            Box::new(|l| l.flags &= !4),
            Box::new(|l| l.flags &= !16),
            Box::new(|l| l.flags &= !8),
            Box::new(|l| {
                l.rw = l.w;
                l.rh = l.h
            }),
            Box::new(|l| l.rh = l.h),
            Box::new(|l| l.rw = l.w),
            Box::new(|l| {
                l.ox = 0;
                l.oy = 0
            }),
        ];
        for v in variants {
            let mut cand = best.clone();
            v(&mut cand.layers[li]);
            if cand != best {
                try_spec(&cand, &mut best, &mut bestf, &mut budget);
            }
        }
    }
    if best.fm != 0 {
        let mut cand = best.clone();
        cand.fm = 0;
        try_spec(&cand, &mut best, &mut bestf, &mut budget);
    }
    // one more pass over the ops with the simplified document
    let mut i = best.ops.len();
    while i > 0 {
        i -= 1;
        if i >= best.ops.len() {
            continue;
        }
        let mut cand = best.clone();
        cand.ops.remove(i);
        try_spec(&cand, &mut best, &mut bestf, &mut budget);
    }
    (best, bestf)
}

// ---------------------------------------------------------------------------------------------- generators

const MODELLED: &[&str] = &[
    "cl", "clp", "cp", "ca", "mm", "sc", "sci", "sw", "al", "rl", "ra", "lo", "du", "cll", "mg", "an", "tv", "mv", "sls", "ulp", "rot", "mt", "st", "pa", "afl", "rb", "rbl",
    "cr", "crr", "ss", "ssa", "cs", "ds", "asm", "inv", "er", "erow", "erows", "erowe", "ecol", "ecols", "ecole", "dr", "ir", "dc", "ic", "fx", "fy", "jl",
    "jr", "ce", "jll", "jlr", "cel", "su", "sd", "sl", "sr", "sfp", "saf", "ssf", "sf", "aaf", "af", "rfu", "cfs", "rmf", "ice", "spal", "usd", "ucp", "prv",
    "es", "pm", "psx", "cpd", "u", "r", "ga", "ge",
];

fn modelled(spec: &Spec) -> bool {
    spec.ops.iter().all(|o| MODELLED.contains(&o.name.as_str()))
}

fn gen_doc(rng: &mut Rng, plain: bool) -> Spec {
    let bw = rng.range(2, 7) as i32;
    let bh = rng.range(2, 5) as i32;
    let n = if plain { 1 } else { rng.range(1, 3) };
    let mut layers = Vec::new();
    for i in 0..n {
        let full = i == 0 && rng.chance(2, 3);
        let w = if full { bw } else if rng.chance(1, 12) { 0 } else { rng.range(1, 6) as i32 };
        let h = if full { bh } else if rng.chance(1, 12) { 0 } else { rng.range(1, 5) as i32 };
        let mut l = LayerSpec { w, h, ox: 0, oy: 0, flags: 0, rw: w, rh: h, seed: rng.range(0, 40) as u32 };
        if !plain {
            if !full && rng.chance(1, 2) {
                // negative offsets, partly or wholly outside the buffer
                l.ox = rng.range(-3, bw as i64 + 1) as i32;
                l.oy = rng.range(-3, bh as i64 + 1) as i32;
            }
            if i > 0 || rng.chance(1, 3) {
                l.flags |= 8;
            }
            if rng.chance(1, 6) {
                l.flags |= 1;
            }
            if rng.chance(1, 6) {
                l.flags |= 2;
            }
            if rng.chance(1, 8) {
                l.flags |= 4;
            }
            if l.flags & 8 != 0 && rng.chance(1, 6) {
                l.flags |= 16;
            }
            match rng.below(8) {
                0 => l.rh = h + rng.range(1, 2) as i32,
                1 => l.rw = w + rng.range(1, 2) as i32,
                2 => l.rh = (h - 1).max(0),
                3 => {
                    l.rw = (w - 1).max(0);
                }
                _ => {}
            }
        }
        layers.push(l);
    }
    Spec { bw, bh, fm: if plain || rng.chance(3, 4) { 0 } else { rng.range(1, 3) as u32 }, ff: rng.chance(1, 10) as u32, layers, ops: vec![] }
}

fn pick_i(rng: &mut Rng, hi: i32) -> i64 {
    // in-range and boundary values for a coordinate in 0..hi
    *rng.pick(&[-1, 0, 0, 1, 1, (hi - 1).max(0) as i64, (hi - 1).max(0) as i64, hi as i64, (hi / 2) as i64, (hi + 1) as i64])
}

fn gen_op(rng: &mut Rng, spec: &Spec, names: &[&str]) -> Op {
    let name = *rng.pick(names);
    let nl = spec.layers.len() as i64 + 1;
    let li = rng.range(0, nl);
    let (w, h) = (spec.bw.max(6), spec.bh.max(5));
    let a: Vec<i64> = match name {
        "cl" => vec![li],
        "cp" => vec![pick_i(rng, w), pick_i(rng, h)],
        "mm" => vec![rng.range(0, 1)],
        "sc" => {
            // now and then the characters and colours set_ice_mode / rotate_layer treat specially, other font pages, blink
            let ch = if rng.chance(1, 4) { *rng.pick(&[0, 32, 176, 177, 178, 179, 191, 196, 219, 220, 221, 222, 223, 255]) } else { rng.range(65, 84) };
            let bg = if rng.chance(1, 3) { rng.range(8, 15) } else { rng.range(0, 7) };
            let page = if rng.chance(1, 5) { *rng.pick(&[1, 2, 100]) } else { 0 };
            vec![pick_i(rng, w), pick_i(rng, h), ch, rng.range(0, 15), bg, page, if rng.chance(1, 5) { 8 } else { 0 }]
        }
        "sci" => vec![pick_i(rng, w), pick_i(rng, h)],
        "sw" => vec![pick_i(rng, w), pick_i(rng, h), pick_i(rng, w), pick_i(rng, h)],
        "al" | "rl" | "ra" | "lo" | "du" | "cll" | "mg" | "tv" => vec![li],
        "mv" => vec![rng.range(-2, 4), rng.range(-2, 4)],
        "sls" => vec![li, rng.range(0, 8), rng.range(0, 7)],
        "rb" | "rbl" => vec![rng.range(1, 9), rng.range(1, 7)],
        "crr" => vec![rng.range(-1, 3), rng.range(-1, 3), rng.range(1, 6), rng.range(1, 5)],
        "ss" => vec![rng.range(-1, 4), rng.range(-1, 3), rng.range(0, 6), rng.range(0, 5)],
        "ssa" => vec![rng.range(-1, 4), rng.range(-1, 3), rng.range(0, 6), rng.range(0, 5), rng.range(0, 2), rng.range(0, 1)],
        "pa" => vec![rng.range(1, 4), rng.range(1, 3), rng.range(-1, 3), rng.range(-1, 3), rng.range(0, 40)],
        "ice" => vec![rng.range(0, 2)],
        "pm" => vec![rng.range(0, 3)],
        "spal" | "usd" => vec![rng.range(0, 3)],
        "sfp" => vec![*rng.pick(&[0, 1, 2, 100])],
        "saf" | "aaf" | "af" | "sf" => vec![*rng.pick(&[0, 1, 2, 5, 42, 100])],
        "ssf" => vec![rng.range(0, 3)],
        "rfu" | "cfs" => vec![*rng.pick(&[0, 1, 2, 100]), *rng.pick(&[0, 1, 2, 100, 101])],
        "rmf" => vec![*rng.pick(&[0, 1, 2, 100])],
        "ulp" => vec![li, rng.range(0, 63)],
        "es" => vec![rng.range(0, 1)],
        "ca" => vec![rng.range(0, 15), rng.range(0, 15), rng.range(0, 1)],
        "psx" => vec![rng.range(1, 20), rng.range(1, 40)],
        "prv" => vec![rng.range(0, 9), rng.range(0, 7)],
        _ => vec![],
    };
    Op::new(name, &a)
}

const ALL_OPS: &[&str] = &[
    "cl", "cl", "cp", "cp", "mm", "sc", "sc", "sc", "sci", "sw", "al", "rl", "ra", "lo", "du", "cll", "mg", "tv", "mv", "sls", "sls", "rb", "rbl", "cr", "crr", "ss", "ss", "ssa", "cs",
    "ds", "asm", "inv", "er", "fx", "fy", "jl", "jr", "ce", "jll", "jlr", "cel", "dr", "ir", "dc", "ic", "erow", "erows", "erowe", "ecol", "ecols", "ecole", "su", "sd", "sl", "sr",
    "rot", "mt", "st", "pa", "an", "afl", "ice", "pm", "spal", "usd", "sfp", "saf", "aaf", "ssf", "af", "sf", "rfu", "cfs", "rmf", "ulp", "ucp", "u", "u", "r", "ga", "ge",
    "es", "cpd", "prv", "u", "r", "ga", "ge", "sc", "sls", "ca",
];

const MODEL_OPS: &[&str] = &[
    "cl", "cl", "cp", "cp", "sc", "sc", "sc", "sci", "sw", "al", "rl", "ra", "lo", "du", "tv", "mv", "sls", "sls", "rb", "dr", "ir", "dc", "ic", "cll", "ss", "ss", "cs", "ds", "fx",
    "fy", "su", "sd", "rbl", "cr", "crr", "mt", "u", "u", "r", "ga", "ge", "mm",
];

/// the full operation alphabet with boundary parameters for the exhaustive short histories
fn exhaustive_alphabet() -> Vec<Op> {
    let mut v = Vec::new();
    let o = |n: &str, a: &[i64]| Op::new(n, a);
    // cells
    v.push(o("sc", &[0, 0, 70, 3, 1]));
    v.push(o("sc", &[2, 2, 219, 4, 10, 1, 8]));
    v.push(o("sci", &[1, 1]));
    v.push(o("sw", &[0, 0, 2, 1]));
    v.push(o("mm", &[1]));
    // layers
    v.push(o("al", &[0]));
    v.push(o("rl", &[0]));
    v.push(o("ra", &[0]));
    v.push(o("lo", &[1]));
    v.push(o("du", &[0]));
    v.push(o("cll", &[0]));
    v.push(o("mg", &[1]));
    v.push(o("tv", &[0]));
    v.push(o("mv", &[1, -1]));
    v.push(o("sls", &[0, 2, 1]));
    v.push(o("sls", &[0, 5, 5]));
    v.push(o("ulp", &[0, 18]));
    v.push(o("ulp", &[0, 35]));
    v.push(o("rot", &[]));
    v.push(o("mt", &[]));
    v.push(o("st", &[]));
    v.push(o("cl", &[1]));
    v.push(o("cl", &[0]));
    // buffer
    v.push(o("rb", &[2, 2]));
    v.push(o("rbl", &[2, 2]));
    v.push(o("cr", &[]));
    v.push(o("crr", &[1, 0, 2, 2]));
    v.push(o("prv", &[5, 1]));
    // selection
    v.push(o("ss", &[1, 0, 2, 2]));
    v.push(o("ss", &[0, 0, 9, 9]));
    v.push(o("ssa", &[0, 1, 2, 1, 2, 0]));
    v.push(o("ssa", &[0, 0, 3, 1, 1, 1]));
    v.push(o("cs", &[]));
    v.push(o("ds", &[]));
    v.push(o("asm", &[]));
    v.push(o("inv", &[]));
    v.push(o("es", &[0]));
    v.push(o("es", &[1]));
    // area operations
    v.push(o("er", &[]));
    v.push(o("fx", &[]));
    v.push(o("fy", &[]));
    v.push(o("jl", &[]));
    v.push(o("jr", &[]));
    v.push(o("ce", &[]));
    v.push(o("jll", &[]));
    v.push(o("jlr", &[]));
    v.push(o("cel", &[]));
    v.push(o("su", &[]));
    v.push(o("sd", &[]));
    v.push(o("sl", &[]));
    v.push(o("sr", &[]));
    v.push(o("erow", &[]));
    v.push(o("erows", &[]));
    v.push(o("erowe", &[]));
    v.push(o("ecol", &[]));
    v.push(o("ecols", &[]));
    v.push(o("ecole", &[]));
    // caret, rows and columns
    v.push(o("cp", &[1, 1]));
    v.push(o("cp", &[3, 3]));
    v.push(o("ucp", &[]));
    v.push(o("dr", &[]));
    v.push(o("ir", &[]));
    v.push(o("dc", &[]));
    v.push(o("ic", &[]));
    // paste
    v.push(o("pa", &[2, 2, 1, 0, 5]));
    v.push(o("clp", &[]));
    v.push(o("an", &[]));
    v.push(o("afl", &[]));
    v.push(o("cpd", &[]));
    // modes, palette, fonts, SAUCE
    v.push(o("ice", &[1]));
    v.push(o("ice", &[2]));
    v.push(o("pm", &[2]));
    v.push(o("spal", &[3]));
    v.push(o("usd", &[2]));
    v.push(o("sfp", &[1]));
    v.push(o("saf", &[5]));
    v.push(o("aaf", &[1]));
    v.push(o("ssf", &[1]));
    v.push(o("af", &[2]));
    v.push(o("sf", &[2]));
    v.push(o("rfu", &[1, 2]));
    v.push(o("cfs", &[1, 0]));
    v.push(o("rmf", &[1]));
    // stacks
    v.push(o("ga", &[]));
    v.push(o("ge", &[]));
    v.push(o("u", &[]));
    v.push(o("r", &[]));
    v
}

// ---------------------------------------------------------------------------------------------- driver

struct Stats {
    minimised: std::collections::BTreeMap<String, u32>,
    reported: std::collections::BTreeSet<String>,
    failing_histories: u64,
}

fn one(run: &mut Run, stats: &mut Stats, spec: &Spec, tie: bool) {
    let want = tie && modelled(spec);
    let (ops, tr, failed_prefixes) = run_history(spec, want);
    run.count(&format!("len{}", match ops.len() { 0..=3 => "0-3", 4..=10 => "4-10", 11..=20 => "11-20", _ => "21-40" }));
    run.count(&format!("layers{}", spec.layers.len()));
    for o in &ops {
        run.count(&format!("op:{}", o.name));
    }
    run.count(&format!("stack{}", tr.max_stack.min(9)));
    let done = Spec { ops: ops.clone(), ..spec.clone() };
    run.nontrivial(fnv(done.fmt().bytes().map(|b| b as u64)));
    if want && !tr.unmodelled {
        // the model runs the same steps (history + oracle tail) and must produce the same per-step hashes
        let full = Spec { ops: tr.steps.clone(), ..spec.clone() };
        run.case(&format!("undo run {}", full.fmt_model()), &tr.hashes.join(" "));
        for p in failed_prefixes {
            // an edit that did not succeed must not succeed in the model either
            let ps = Spec { ops: p, ..spec.clone() };
            run.case(&format!("undo fails {}", ps.fmt_model()), "F");
        }
    } else {
        run.evaluations += 1;
    }
    if let Some(f) = tr.failure {
        stats.failing_histories += 1;
        let n = stats.minimised.entry(f.prekey()).or_insert(0);
        *n += 1;
        // short histories are cheap to minimise (a handful of replays): always do it; cap the long ones per class
        if *n > 25 && done.ops.len() > 6 {
            run.count("unminimised-failure");
            return;
        }
        let (ms, mut mf) = minimise(&done, &f);
        mf.features = relevant_features(&ms, &mf);
        let key = mf.key();
        let input = ms.fmt();
        if stats.reported.insert(format!("{}|{}", key, input)) {
            run.oracle_fail(&key, &input, &mf.what);
        }
    }
}

pub fn run(run: &mut Run, seed: u64, thorough: bool, replay: Option<&str>, corpus: &[String]) {
    let mut stats = Stats { minimised: Default::default(), reported: Default::default(), failing_histories: 0 };
    if let Some(r) = replay {
        if let Some(spec) = Spec::parse(r) {
            if std::env::var("VERIF_C08_VERBOSE").is_ok() {
                verbose(&spec);
            }
            one(run, &mut stats, &spec, true);
        }
        return;
    }
    for c in corpus {
        if let Some(spec) = Spec::parse(c) {
            one(run, &mut stats, &spec, true);
        }
    }
    let mut rng = Rng::new(seed);
    let t0 = std::time::Instant::now();
    // 1. exhaustive short histories over the reduced alphabet, on three fixed documents
    let alpha = exhaustive_alphabet();
    let docs = [
        "D,4,3,0;L,4,3,0,0,0,4,3,1",
        "D,4,3,3;L,4,3,0,0,0,4,3,1;L,3,2,1,1,8,3,2,2",
        "D,4,3,2;L,3,3,0,0,0,4,4,3;L,3,2,-1,0,24,3,2,4;L,2,2,1,1,10,2,2,5",
    ];
    let depth = if thorough { 3 } else { 2 };
    for (di, d) in docs.iter().enumerate() {
        let base = Spec::parse(d).unwrap();
        let n = alpha.len();
        let total = (0..depth).fold(1usize, |a, _| a * n);
        // depth 3 on all three documents is 3 x 88^3 = 2M histories: thorough runs every triple on the first document and
        // a seeded ninth of the triples on the others
        for code in 0..total {
            if depth == 3 && di > 0 && rng.below(9) != 0 {
                continue;
            }
            let mut c = code;
            let mut ops = Vec::new();
            for _ in 0..depth {
                ops.push(alpha[c % n].clone());
                c /= n;
            }
            let spec = Spec { ops, ..base.clone() };
            one(run, &mut stats, &spec, depth < 3 || code % 7 == 0);
        }
    }
    let t1 = t0.elapsed().as_secs_f32();
    // 2. seeded histories over the modelled alphabet (correspondence + oracle)
    let n_model = if thorough { 6000 } else { 600 };
    for i in 0..n_model {
        let mut spec = gen_doc(&mut rng, i % 5 == 0);
        spec.fm = 0;
        let len = if i % 3 == 0 { rng.range(1, 6) } else { rng.range(4, 40) };
        for _ in 0..len {
            let op = gen_op(&mut rng, &spec, MODEL_OPS);
            spec.ops.push(op);
        }
        one(run, &mut stats, &spec, true);
    }
    let t2 = t0.elapsed().as_secs_f32();
    // 3. seeded histories over all public operations (oracle)
    let n_all = if thorough { 12000 } else { 1000 };
    for i in 0..n_all {
        let mut spec = gen_doc(&mut rng, i % 7 == 0);
        let len = if i % 3 == 0 { rng.range(1, 8) } else { rng.range(4, 40) };
        for _ in 0..len {
            let op = gen_op(&mut rng, &spec, ALL_OPS);
            let pasted = matches!(op.name.as_str(), "pa" | "psx" | "cpd");
            spec.ops.push(op);
            if pasted && rng.chance(2, 3) {
                // the usual continuation of a paste: select the floating layer, then anchor / float / move / stamp it
                spec.ops.push(Op::new("clp", &[]));
                let next = *rng.pick(&["afl", "an", "mv", "st", "afl", "an"]);
                let op2 = gen_op(&mut rng, &spec, &[next]);
                spec.ops.push(op2);
            }
        }
        one(run, &mut stats, &spec, true);
    }
    if std::env::var("VERIF_C08_TIMING").is_ok() {
        eprintln!("run_once calls {}", RUNS.with(|r| r.get()));
        eprintln!("timing: exhaustive {:.1}s, modelled {:.1}s, all {:.1}s", t1, t2 - t1, t0.elapsed().as_secs_f32() - t2);
    }
    run.extra.push(("failing_histories".into(), stats.failing_histories.to_string()));
    run.extra.push(("exhaustive_depth".into(), depth.to_string()));
    run.extra.push(("failure_classes".into(), format!("{:?}", stats.minimised)));
}

fn verbose(spec: &Spec) {
    let (ops, _, _) = run_history(spec, false);
    let mut st = build(spec);
    let mut guards = Vec::new();
    eprintln!("--- initial\n{}", doc_snap(&st).join("\n"));
    eprintln!("model ints {:?}", model_snap(&st));
    for op in &ops {
        let r = exec_op(&mut st, &mut guards, op);
        eprintln!("--- after {} => {:?}  (undo stack {}, can_redo {})\n{}", op.fmt(), r, st.undo_stack_len(), st.can_redo(), doc_snap(&st).join("\n"));
        eprintln!("model ints {:?}", model_snap(&st));
    }
    while let Some(g) = guards.pop() {
        drop(g);
    }
}
