//! C14: sixel images are complete rectangles and appear in arrival order.
//!
//! (a) `Sixel::parse_from` sizes vs `icydrv sixel parse`, oracle `picture_data.len() == w*h*4` and
//!     consistency with a leading raster attribute.
//! (b) k <= 4 DCS sixel sequences fed to a real `Buffer` through the ANSI parser; the decode threads are
//!     held at the `cfg(icy_engine_verif)` gate and released in a chosen order; `update_sixel_threads`
//!     is called at chosen places; `layers[0].sixels` after each poll vs `icydrv sixelqueue run`.
//!     A poll that blocks is detected by a watchdog.
//!
//! (c) files with 0..=5 sixel sequences loaded through `Buffer::from_bytes` under the stream-parsed extensions
//!     (`parse_with_parser`): the image layers (number, offset, size in cells, pixel size, scales) vs
//!     `icydrv sixelload load`; oracle: one image layer per delivered image (arrival-order placement with the
//!     covering rule, computed by the harness), newest first, each a full rectangle; and single DCS strings fed to
//!     a terminal buffer (`execute_dcs` hand-off) vs `icydrv sixelload dcs`.
//!
//! Replay inputs: `<hex payload>` (code points 0..255, one byte each), `q:<fw>|<fh>|<n>|<spec>…|<ev>…`,
//! `l:<ext>|<fw>|<fh>|<sched>|<hex file>|<px,py,hex dcs>…` or `d:<px>|<py>|<hex dcs>`.
use crate::util::*;
use icy_engine::{ansi, Buffer, BufferParser, Caret, ParserError, Position, Sixel, TextPane};
use std::collections::HashSet;
use std::sync::atomic::{AtomicBool, AtomicU64, Ordering};
use std::sync::{Condvar, Mutex, Once};
use std::time::{Duration, Instant};

// ------------------------------------------------------------------------------------------------ (a)

fn to_string(bytes: &[u8]) -> String {
    bytes.iter().map(|b| *b as char).collect()
}

fn variant_name(pe: Option<&ParserError>) -> String {
    match pe {
        Some(pe) => {
            let d = format!("{:?}", pe);
            d.split(|c: char| !c.is_ascii_alphanumeric()).next().unwrap_or("?").to_string()
        }
        None => "other".to_string(),
    }
}

thread_local! {
    static LAST_MSG: std::cell::RefCell<String> = const { std::cell::RefCell::new(String::new()) };
}

/// like `util::install_panic_hook`, but also keeps the panic message so that the oracle key can tell an
/// arithmetic overflow from an index panic in the same function
fn install_hook() {
    std::panic::set_hook(Box::new(|info| {
        let loc = info.location().map(|l| format!("{}:{}", l.file(), l.line())).unwrap_or_else(|| "?".to_string());
        LAST_PANIC.with(|l| *l.borrow_mut() = Some(loc));
        let msg = if let Some(s) = info.payload().downcast_ref::<&str>() {
            s.to_string()
        } else if let Some(s) = info.payload().downcast_ref::<String>() {
            s.clone()
        } else {
            String::new()
        };
        LAST_MSG.with(|m| *m.borrow_mut() = msg);
    }));
}

/// `<file>::<fn>:<class>` of the panic that `catch` just reported
fn panic_key(loc: &str) -> String {
    let msg = LAST_MSG.with(|m| m.borrow().clone());
    let class = if msg.contains("with overflow") {
        "overflow"
    } else if msg.contains("divisor of zero") {
        "rem-zero"
    } else if msg.contains("out of bounds") || msg.contains("out of range") || msg.contains("index") {
        "index"
    } else {
        "other"
    };
    format!("{}:{}", panic_site(loc), class)
}

/// what `Sixel::parse_from` answered: `ok w h len` | `err Kind` | `panic site:class`
fn observe_parse(payload: &[u8]) -> (String, Option<Sixel>) {
    let s = to_string(payload);
    match catch(move || Sixel::parse_from(Position::default(), 1, 1, [0, 0, 0, 0], &s)) {
        Ok(Ok(sx)) => (format!("ok {} {} {}", sx.get_width(), sx.get_height(), sx.picture_data.len()), Some(sx)),
        Ok(Err(e)) => (format!("err {}", variant_name(e.downcast_ref::<ParserError>())), None),
        Err(loc) => (format!("panic {}", panic_key(&loc)), None),
    }
}

/// largest decimal number written in the payload (saturating)
fn max_number(payload: &[u8]) -> u64 {
    let mut best = 0u64;
    let mut cur = 0u64;
    for &b in payload {
        if b.is_ascii_digit() {
            cur = cur.saturating_mul(10).saturating_add((b - b'0') as u64);
            best = best.max(cur);
        } else {
            cur = 0;
        }
    }
    best
}

/// one raster attribute as the decoder reads it: where its `"` stands, the numbers collected up to the character that
/// ends it (or up to the end of the payload: `parse_from` flushes with a final `#`)
#[derive(Clone, Debug, PartialEq)]
struct RasterAttr {
    quote_at: usize,
    nums: Vec<u64>,
}

/// The raster attributes of a payload, found LEXICALLY: only the reading state of the decoder is followed (which
/// characters are numbers of a colour select, of a repeat count, of a raster attribute), no pixel is touched.
/// `#` … numbers … stays a colour introducer until the next control character (data characters do not end it: the
/// decoder keeps its ReadColor state), `!<n><c>` consumes `<c>` — a `"` after a repeat count starts NO attribute —,
/// `"` anywhere else starts one, a non-digit other than `;` ends it and is then read as an ordinary character.
fn raster_attrs(payload: &[u8]) -> Vec<RasterAttr> {
    #[derive(PartialEq)]
    enum S {
        Read,
        Color,
        Size,
        Repeat,
    }
    let mut out: Vec<RasterAttr> = vec![];
    let mut st = S::Read;
    let mut cur: Option<RasterAttr> = None;
    for (i, &b) in payload.iter().enumerate() {
        let numeric = b.is_ascii_digit() || b == b';';
        match st {
            S::Repeat => {
                if !b.is_ascii_digit() {
                    st = S::Read; // the repeated character is consumed by the repeat, whatever it is
                }
                continue;
            }
            S::Color if numeric => continue,
            S::Size if numeric => {
                let a = cur.as_mut().unwrap();
                if b == b';' {
                    a.nums.push(0);
                } else {
                    let d = a.nums.pop().unwrap_or(0);
                    a.nums.push(d.saturating_mul(10).saturating_add((b - b'0') as u64));
                }
                continue;
            }
            S::Size => {
                out.push(cur.take().unwrap());
                st = S::Read;
            }
            _ => {}
        }
        // `b` is read as an ordinary character (parse_sixel_data)
        match b {
            b'#' => st = S::Color,
            b'!' => st = S::Repeat,
            b'"' => {
                st = S::Size;
                cur = Some(RasterAttr { quote_at: i, nums: vec![] });
            }
            _ => {}
        }
    }
    if let Some(a) = cur {
        out.push(a); // flushed by the final `#` of parse_from
    }
    out
}

/// the size a raster attribute declares: `"Pan;Pad;Ph;Pv` → (Ph, Pv), `"Pan;Pad;Pv` → (0, Pv); two numbers declare none
fn declared_size(a: &RasterAttr) -> Option<(u64, u64)> {
    match a.nums.len() {
        3 => Some((0, a.nums[2])),
        4 => Some((a.nums[2], a.nums[3])),
        _ => None,
    }
}

/// the property sentence "consistent with any declared raster size" on one successfully decoded payload: the LAST
/// attribute that declares a size fixes the height (taller data is cut — also data that was decoded BEFORE the
/// attribute arrived —, shorter data is padded); rows the attribute adds are at least as wide as declared
fn check_raster(run: &mut Run, payload: &[u8], h: &str, w: i64, hh: i64) {
    let attrs = raster_attrs(payload);
    if attrs.is_empty() {
        return;
    }
    run.count(&format!("raster:attributes={}", attrs.len().min(4)));
    let Some((idx, a)) = attrs.iter().enumerate().rev().find(|(_, a)| declared_size(a).is_some()) else {
        run.count("raster:scales-only");
        return;
    };
    let (rw, rh) = declared_size(a).unwrap();
    // what had been decoded when the attribute arrived (the real decoder on the prefix; `None`: nothing to compare with)
    let prefix = to_string(&payload[..a.quote_at]);
    let before = if a.quote_at == 0 {
        Some((0i64, 0i64))
    } else {
        match catch(move || Sixel::parse_from(Position::default(), 1, 1, [0, 0, 0, 0], &prefix)) {
            Ok(Ok(sx)) => Some((sx.get_width() as i64, sx.get_height() as i64)),
            _ => None,
        }
    };
    let place = if a.quote_at == 0 {
        "leading"
    } else if before.map_or(true, |b| b.1 == 0) {
        "before-data"
    } else {
        match payload[..a.quote_at].iter().rev().find(|b| !(b.is_ascii_digit() || **b == b';')) {
            Some(b'-') => "late:after-newline",
            Some(b'$') => "late:after-cr",
            _ => "late:in-band",
        }
    };
    let rel = match before {
        Some((_, bh)) if bh > rh as i64 => "cuts-rows",
        Some((_, bh)) if bh == rh as i64 => "same-height",
        Some(_) => "adds-rows",
        None => "prefix-fails",
    };
    run.count(&format!("raster:{}:{}-numbers:{}", place, a.nums.len(), rel));
    if idx + 1 < attrs.len() {
        run.count("raster:followed-by-scales-only");
    }
    if attrs[..idx].iter().any(|b| declared_size(b).is_some()) {
        run.count("raster:redeclared");
    }
    run.count(if rh as i64 == hh && rw as i64 == w { "raster:equal" } else if (rw as i64) < w { "raster:narrower-than-data" } else { "raster:other" });
    if hh != rh as i64 {
        run.oracle_fail(
            "raster",
            h,
            &format!("the raster attribute at byte {} declares {}x{} but the image is {}x{} ({} rows were decoded before it)", a.quote_at, rw, rh, w, hh, before.map_or(-1, |b| b.1)),
        );
    } else if let Some((_, bh)) = before {
        if bh < rh as i64 && w < rw as i64 {
            run.oracle_fail(
                "raster",
                h,
                &format!("the raster attribute at byte {} adds rows {}..{} of declared width {} but the image is only {} wide", a.quote_at, bh, rh, rw, w),
            );
        }
    }
}

const BIG: u64 = 1_000_000;

fn one_payload(run: &mut Run, payload: &[u8]) {
    let h = hex(payload);
    let obs = if max_number(payload) > BIG {
        run.count("payload:child-process");
        observe_in_child(&h)
    } else {
        let (obs, sx) = observe_parse(payload);
        if let Some(sx) = sx {
            let (w, hh, len) = (sx.get_width() as i64, sx.get_height() as i64, sx.picture_data.len() as i64);
            if len != w * hh * 4 {
                run.oracle_fail("rect", &h, &format!("picture_data.len()={} but width={} height={} (w*h*4={})", len, w, hh, w * hh * 4));
            }
            check_raster(run, payload, &h, w, hh);
            if w > 0 && hh > 0 {
                run.nontrivial(fnv(payload.iter().map(|b| *b as u64)));
            }
        }
        obs
    };
    if let Some(site) = obs.strip_prefix("panic ") {
        run.oracle_fail(site, &h, "panic while decoding a sixel payload");
    }
    if obs == "huge" {
        run.oracle_fail("alloc", &h, "decode aborted/killed under a 3 GB address-space limit: allocation proportional to a number in the payload");
    }
    let mut toks = obs.split(' ');
    let class = toks.next().unwrap_or("?");
    run.count(&if class == "ok" { "payload:ok".to_string() } else { format!("payload:{}:{}", class, toks.next().unwrap_or("")) });
    run.case(&format!("sixel parse {}", h), &obs);
}

/// payloads with huge numbers may abort the process (allocation failure): run them in a child with an
/// address-space limit; abort / kill / timeout => `huge`
fn observe_in_child(h: &str) -> String {
    let exe = std::env::current_exe().unwrap();
    let dir = std::env::temp_dir().join(format!("c14child{}", std::process::id()));
    let mut child = match std::process::Command::new("sh")
        .arg("-c")
        .arg("ulimit -v 3000000; exec \"$0\" \"$@\"")
        .arg(&exe)
        .args(["c14", "--replay", &format!("child:{}", h), "--out"])
        .arg(&dir)
        .stdout(std::process::Stdio::piped())
        .stderr(std::process::Stdio::null())
        .spawn()
    {
        Ok(c) => c,
        Err(_) => return "child-spawn-failed".to_string(),
    };
    let t0 = Instant::now();
    let status = loop {
        match child.try_wait() {
            Ok(Some(st)) => break Some(st),
            Ok(None) => {
                if t0.elapsed() > Duration::from_secs(120) {
                    let _ = child.kill();
                    let _ = child.wait();
                    break None;
                }
                std::thread::sleep(Duration::from_millis(10));
            }
            Err(_) => break None,
        }
    };
    let mut out = String::new();
    if let Some(mut so) = child.stdout.take() {
        use std::io::Read;
        let _ = so.read_to_string(&mut out);
    }
    let _ = std::fs::remove_dir_all(&dir);
    match status {
        Some(st) if st.success() => out.lines().find_map(|l| l.strip_prefix("RESULT ")).unwrap_or("huge").to_string(),
        _ => "huge".to_string(),
    }
}

// ---- generators

const DATA: &[u8] = b"?@ABCFGNO^_`bn}~\x7f";

fn gen_number(rng: &mut Rng, max: i64) -> String {
    rng.range(0, max).to_string()
}

/// a structured, mostly valid picture: optional raster attribute (smaller / equal / larger than the data),
/// colour definitions, bands of unequal length built from data chars, repeats, `$` overprints
fn gen_structured(rng: &mut Rng) -> Vec<u8> {
    let mut body: Vec<u8> = vec![];
    let bands = rng.range(1, 4);
    let mut widest = 0i64;
    for b in 0..bands {
        let passes = rng.range(1, 2);
        for p in 0..passes {
            if rng.chance(1, 2) {
                body.extend(format!("#{}", rng.range(0, 20)).bytes());
            }
            let mut x = 0i64;
            let segs = rng.range(0, 5);
            for _ in 0..segs {
                let ch = *rng.pick(DATA);
                if rng.chance(1, 3) {
                    let n = if rng.chance(1, 8) { rng.range(100, 500) } else { rng.range(0, 12) };
                    body.extend(format!("!{}", n).bytes());
                    body.push(ch);
                    x += n;
                } else {
                    body.push(ch);
                    x += 1;
                }
            }
            widest = widest.max(x);
            if p + 1 < passes {
                body.push(b'$');
            }
        }
        if b + 1 < bands || rng.chance(1, 4) {
            body.push(b'-');
        }
    }
    let mut out: Vec<u8> = vec![];
    if rng.chance(1, 2) {
        // declared size relative to the data: smaller, equal, larger
        let hgt = bands * 6;
        let adj = |rng: &mut Rng, v: i64| match rng.below(4) {
            0 => (v - rng.range(1, 7)).max(0),
            1 => v,
            2 => v + rng.range(1, 9),
            _ => rng.range(0, 40),
        };
        let (dw, dh) = (adj(rng, widest), adj(rng, hgt));
        if rng.chance(1, 5) {
            out.extend(format!("\"{};{};{}", rng.range(0, 3), rng.range(0, 3), dh).bytes());
        } else {
            out.extend(format!("\"{};{};{};{}", rng.range(0, 3), rng.range(0, 3), dw, dh).bytes());
        }
    }
    for _ in 0..rng.range(0, 3) {
        let reg = if rng.chance(1, 6) { rng.range(16, 300) } else { rng.range(0, 15) };
        let kind = if rng.chance(1, 10) { rng.range(0, 4) } else { rng.range(1, 2) };
        out.extend(format!("#{};{};{};{};{}", reg, kind, gen_number(rng, 100), gen_number(rng, 100), gen_number(rng, 120)).bytes());
    }
    out.extend(body);
    out
}

/// random stream over the sixel alphabet plus junk
fn gen_stream(rng: &mut Rng, max_len: i64) -> Vec<u8> {
    let n = rng.range(0, max_len);
    let mut v = vec![];
    for _ in 0..n {
        let b = match rng.below(20) {
            0..=7 => *rng.pick(DATA),
            8 => b'!',
            9 => b'-',
            10 => b'$',
            11 => b'#',
            12 => b';',
            13 => b'"',
            14..=16 => b'0' + rng.below(10) as u8,
            17 => *rng.pick(b" \n\r>*+,./:<=" as &[u8]),
            18 => rng.range(0x80, 0xFF) as u8,
            _ => rng.next() as u8,
        };
        // keep numbers small enough to stay in-process and inside the property's quantifier
        v.push(b);
        if max_number(&v) > 3000 {
            v.pop();
            v.push(b'~');
        }
    }
    v
}

/// token-level stream: mostly well-formed sixel tokens in random order (raster attributes and colour
/// definitions in the middle of data, repeats of control characters, rows of unequal length), rare junk
fn gen_tokens(rng: &mut Rng, max_tokens: i64) -> Vec<u8> {
    let n = rng.range(0, max_tokens);
    let mut v: Vec<u8> = vec![];
    for _ in 0..n {
        match rng.below(24) {
            0..=9 => v.push(*rng.pick(DATA)),
            10..=12 => {
                let cnt = match rng.below(6) {
                    0 => rng.range(100, 500),
                    1 => 0,
                    _ => rng.range(1, 20),
                };
                v.extend(format!("!{}", cnt).bytes());
                v.push(if rng.chance(1, 8) { *rng.pick(b"-$#!\"\x80" as &[u8]) } else { *rng.pick(DATA) });
            }
            13 | 14 => v.push(b'-'),
            15 => v.push(b'$'),
            16 | 17 => v.extend(format!("#{}", rng.range(0, 40)).bytes()),
            18 | 19 => {
                let kind = if rng.chance(1, 8) { rng.range(0, 5) } else { rng.range(1, 2) };
                v.extend(format!("#{};{};{};{};{}", rng.range(0, 300), kind, rng.range(0, 360), rng.range(0, 100), rng.range(0, 100)).bytes());
                v.push(*rng.pick(DATA));
            }
            20 | 21 => {
                let k = if rng.chance(1, 6) { rng.range(1, 5) } else { 4 };
                let nums: Vec<String> = (0..k).map(|_| rng.range(0, 30).to_string()).collect();
                v.push(b'"');
                v.extend(nums.join(";").bytes());
                v.push(if rng.chance(1, 6) { b'-' } else { *rng.pick(DATA) });
            }
            22 => v.push(rng.range(0x80, 0xFF) as u8),
            _ => v.push(*rng.pick(b" \n;0123456789>" as &[u8])),
        }
    }
    v
}

/// one band of data characters, `w` pixels wide (plain characters and repeats), optionally overprinted after `$`
fn gen_band(rng: &mut Rng, w: i64) -> Vec<u8> {
    let mut v: Vec<u8> = vec![];
    if rng.chance(1, 3) {
        v.extend(format!("#{}", rng.range(0, 15)).bytes());
        // a data character does not end the colour introducer, a following digit would extend the number: end it
        // with a `$` (carriage return at column 0: no effect on the picture)
        v.push(b'$');
    }
    let mut x = 0;
    while x < w {
        let ch = *rng.pick(DATA);
        if rng.chance(1, 3) && w - x >= 2 {
            let n = rng.range(2, (w - x).min(9));
            v.extend(format!("!{}", n).bytes());
            v.push(ch);
            x += n;
        } else {
            v.push(ch);
            x += 1;
        }
    }
    v
}

fn gen_raster_attr(rng: &mut Rng, w: i64, h: i64) -> Vec<u8> {
    match rng.below(8) {
        0 => format!("\"{};{}", rng.range(0, 3), rng.range(0, 3)).into_bytes(), // scales only: declares no size
        1 | 2 => format!("\"{};{};{}", rng.range(0, 3), rng.range(0, 3), h).into_bytes(),
        _ => format!("\"{};{};{};{}", rng.range(0, 3), rng.range(0, 3), w, h).into_bytes(),
    }
}

/// raster attributes that arrive AFTER picture data: in the middle of a band, right after `-` or `$`, at the very end
/// (flushed by the end of the payload), several of them; each declares a height below / at / above the rows decoded
/// so far and a width below / at / above the widest row so far; more data follows (inside and beyond the new height)
fn gen_late_raster(rng: &mut Rng) -> Vec<u8> {
    let mut v: Vec<u8> = vec![];
    let mut bands_done = 0i64; // completed bands (cursor row)
    let mut widest = 0i64;
    let n_attr = rng.range(1, 3);
    if rng.chance(1, 4) {
        let (lw, lh) = (rng.range(0, 12), rng.range(0, 30));
        v.extend(gen_raster_attr(rng, lw, lh)); // a leading one that the late one overrides
    }
    for a in 0..n_attr {
        // data before the attribute
        let bands = if a == 0 { rng.range(1, 4) } else { rng.range(0, 2) };
        let mut in_band = false;
        for b in 0..bands {
            let w = rng.range(1, 10);
            v.extend(gen_band(rng, w));
            widest = widest.max(w);
            in_band = true;
            if b + 1 < bands || rng.chance(1, 2) {
                v.push(b'-');
                bands_done += 1;
                in_band = false;
            } else if rng.chance(1, 4) {
                v.push(b'$');
            }
        }
        let rows = (bands_done + in_band as i64) * 6; // pixel rows decoded so far (if no earlier attribute clipped them)
        let dh = match rng.below(6) {
            0 => 0,
            1 => rng.range(0, rows.max(1) - 1),                    // cuts decoded rows
            2 => (rows - rng.range(1, 6)).max(0),                  // cuts inside the last band
            3 => rows,
            4 => rows + rng.range(1, 8),                           // adds rows
            _ => rng.range(0, 40),
        };
        let dw = match rng.below(4) {
            0 => (widest - rng.range(1, 4)).max(0),
            1 => widest,
            2 => widest + rng.range(1, 6),
            _ => rng.range(0, 20),
        };
        v.extend(gen_raster_attr(rng, dw, dh));
        // what ends the attribute: data, a control character, another attribute, the end of the payload
        match rng.below(8) {
            0 => v.push(b'-'),
            1 => v.push(b'$'),
            2 => {}
            3 => v.extend(b"#2"),
            _ => v.push(*rng.pick(DATA)),
        }
    }
    // data after the last attribute, often running below the declared height
    for _ in 0..rng.range(0, 3) {
        let w = rng.range(1, 12);
        v.extend(gen_band(rng, w));
        if rng.chance(2, 3) {
            v.push(b'-');
        }
    }
    v
}

/// small-scope exhaustive family of late raster attributes: every data prefix x every declared size around the band
/// boundaries x 3/4 numbers x every continuation
fn late_raster_grid() -> Vec<Vec<u8>> {
    let prefixes: &[&[u8]] = &[b"~", b"~-", b"~~~~-~~~~", b"~-~~~-", b"!3~-!2~-~$", b"A-~~-?", b"\"1;1;2;7~~~-~", b"\"1;1;9~-~-~", b"#1~~-#2~", b"~-~-~-"];
    let heights: &[i64] = &[0, 1, 5, 6, 7, 8, 11, 12, 13, 18, 20];
    let widths: &[i64] = &[0, 1, 4, 7];
    let suffixes: &[&[u8]] = &[b"", b"~", b"-~", b"~-~-~-~", b"$!6~", b"\"2;2~", b"#3!5~-~~"];
    let mut out = vec![];
    for p in prefixes {
        for &h in heights {
            for sfx in suffixes {
                let mut v = p.to_vec();
                v.extend(format!("\"1;1;{}", h).bytes());
                v.extend(*sfx);
                out.push(v);
                for &w in widths {
                    let mut v = p.to_vec();
                    v.extend(format!("\"1;1;{};{}", w, h).bytes());
                    v.extend(*sfx);
                    out.push(v);
                }
            }
        }
    }
    out
}

fn boundary_payloads() -> Vec<Vec<u8>> {
    let mut v: Vec<&[u8]> = vec![
        b"", b"-", b"$", b"!", b"#", b"\"", b"~", b"?", b"\x7f", b"A", b"~-~~~", b"~~~-~", b"A-~", b"?~", b"-~", b"---~",
        b"!0~", b"!1~", b"!500~", b"!500~-~", b"!3#~", b"!3!~", b"!3\"~", b"!3-~", b"!3$~", b"!~", b"!;", b"!5", b"!5;",
        b"#1~5~", b"#1", b"#1;", b"#1;2", b"#1;2;3;4;5~", b"#1;2;100;100;100~", b"#1;1;360;50;100~", b"#1;3;0;0;0~",
        b"#1;0;0;0;0~", b"#1;2;0;0~", b"#1;2;0;0;0;0~", b"#255;2;1;2;3~", b"#256;2;1;2;3~", b"#3000;2;1;2;3~#2999~",
        b"#1~;;;;~", b"#;;;;~", b"#1;2;999;999;999~", b"#1;2;99999;99999;99999~", b"#1;2;99999999;1;1~", b"#1;1;99999999;99999999;99999999~",
        b"\"1~", b"\"1;1~", b"\"1;1;0~", b"\"1;1;3~", b"\"1;1;3;2~", b"\"1;1;3;2;1~", b"\"1;1;0;0~", b"\"1;1;5;0~~", b"\"1;1;0;5~",
        b"\"1;1;3;2~~~~~-~-~", b"~-~\"1;1;5;1~", b"~-~\"1;1;5;30~", b"~~\"1;1;1;6~-~", b"\"1;1;4;12~\"1;1;2;3~", b"\"1;1;2;3", b"\"1;1;2",
        b"\"1;1;10;7!12~-!3~-~", b"\";;;~", b"\"1;1;3;12#1!3~-!3~", b"$43#2??", b"1", b" ", b"~ ~", b"~\n~", b"\x80~\xff", b"!2\xe9~",
        b"#0;2;0;0;0#1;2;100;100;0#2;2;0;100;0#1~~@@vv@@~~@@~~$43#2??}}GG}}??}}??-#1!14@",
    ];
    v.dedup();
    v.into_iter().map(|s| s.to_vec()).collect()
}

fn exhaustive(run: &mut Run, alphabet: &[u8], max_len: usize) {
    // all strings of length 0..=max_len
    for len in 0..=max_len {
        let total = alphabet.len().pow(len as u32);
        for mut n in 0..total {
            let mut p = Vec::with_capacity(len);
            for _ in 0..len {
                p.push(alphabet[n % alphabet.len()]);
                n /= alphabet.len();
            }
            one_payload(run, &p);
        }
    }
}

// ------------------------------------------------------------------------------------------------ (b)

struct GateState {
    released: HashSet<usize>,
    release_all: bool,
    /// decodes that panic once they are let through (exercises `let Ok(result) = handle.join() else { continue }`)
    panic: HashSet<usize>,
}

/// payload marker: the decode thread of this sequence panics (the text sent is an ordinary small sixel)
const PANIC_MARKER: &[u8] = b"\xffPANIC\xff";
static GATE: Mutex<Option<GateState>> = Mutex::new(None);
static GATE_CV: Condvar = Condvar::new();
/// watchdog: deadline (ms since START) of the poll in progress, 0 = none
static DEADLINE: AtomicU64 = AtomicU64::new(0);
static FIRED: AtomicBool = AtomicBool::new(false);
static INIT: Once = Once::new();
static START: Mutex<Option<Instant>> = Mutex::new(None);
const POLL_TIMEOUT_MS: u64 = 3000;

fn now_ms() -> u64 {
    START.lock().unwrap().unwrap().elapsed().as_millis() as u64 + 1
}

fn gate(seq: usize) {
    let mut g = GATE.lock().unwrap();
    loop {
        let st = g.as_ref().unwrap();
        if st.release_all || st.released.contains(&seq) {
            let boom = st.panic.contains(&seq);
            drop(g); // never panic while holding the lock
            if boom {
                panic!("verif: simulated panic of a sixel decode thread");
            }
            return;
        }
        g = GATE_CV.wait(g).unwrap();
    }
}

fn init_gate() {
    INIT.call_once(|| {
        *START.lock().unwrap() = Some(Instant::now());
        *GATE.lock().unwrap() = Some(GateState { released: HashSet::new(), release_all: false, panic: HashSet::new() });
        *icy_engine::VERIF_SIXEL_GATE.write().unwrap() = Some(gate);
        std::thread::spawn(|| loop {
            std::thread::sleep(Duration::from_millis(20));
            let d = DEADLINE.load(Ordering::SeqCst);
            if d != 0 && now_ms() > d {
                FIRED.store(true, Ordering::SeqCst);
                GATE.lock().unwrap().as_mut().unwrap().release_all = true;
                GATE_CV.notify_all();
            }
        });
    });
}

fn release(seq: usize) {
    GATE.lock().unwrap().as_mut().unwrap().released.insert(seq);
    GATE_CV.notify_all();
}
fn release_all(on: bool) {
    let mut g = GATE.lock().unwrap();
    let st = g.as_mut().unwrap();
    st.release_all = on;
    if !on {
        st.released.clear();
        st.panic.clear();
    }
    drop(g);
    GATE_CV.notify_all();
}

#[derive(Clone, Debug)]
struct Spec {
    px: i32,
    py: i32,
    payload: Vec<u8>,
}
#[derive(Clone, Copy, Debug, PartialEq)]
enum Ev {
    Arrive(usize),
    Finish(usize),
    Poll,
    /// a clear-screen sequence (`ESC[2J`, `ESC[3J` or form feed, chosen by the number)
    Clear(u8),
}

const CLEAR_SEQS: &[&str] = &["\x1b[2J", "\x1b[3J", "\x0c"];

fn ev_str(e: &Ev) -> String {
    match e {
        Ev::Arrive(i) => format!("a{}", i),
        Ev::Finish(i) => format!("f{}", i),
        Ev::Poll => "p".to_string(),
        Ev::Clear(_) => "c".to_string(),
    }
}

/// reference result of each decode, computed synchronously through the public API
enum Dec {
    Ok(Sixel),
    Err,
    Panicked,
}

fn covers(a: (i64, i64, i64, i64), b: (i64, i64, i64, i64)) -> bool {
    // a fully covers b (borders included)
    let inside = |x: i64, y: i64| a.0 <= x && x <= a.0 + a.2 && a.1 <= y && y <= a.1 + a.3;
    inside(b.0, b.1) && inside(b.0 + b.2, b.1 + b.3)
}

/// the property's reference picture: ok images of the first `n` arrivals placed one after the other
fn reference(n: usize, order: &[usize], decs: &[Dec], fw: i64, fh: i64) -> Vec<usize> {
    let rect = |i: usize| match &decs[i] {
        Dec::Ok(s) => (s.position.x as i64 * fw, s.position.y as i64 * fh, s.get_width() as i64, s.get_height() as i64),
        _ => (0, 0, 0, 0),
    };
    let mut layer: Vec<usize> = vec![];
    for &i in &order[..n] {
        if let Dec::Ok(_) = decs[i] {
            layer.retain(|&o| !covers(rect(i), rect(o)));
            layer.push(i);
        }
    }
    layer
}

static BLOCKED_SCENARIOS: AtomicU64 = AtomicU64::new(0);

fn scenario(run: &mut Run, specs: &[Spec], events: &[Ev]) {
    init_gate();
    if BLOCKED_SCENARIOS.load(Ordering::SeqCst) >= 3 {
        run.count("queue:skipped-after-3-blocked-polls");
        return;
    }
    release_all(false);
    FIRED.store(false, Ordering::SeqCst);
    let mut buf = Buffer::new((80, 25));
    buf.is_terminal_buffer = true;
    let mut caret = Caret::default();
    let mut parser = ansi::Parser::default();
    let fd = buf.get_font_dimensions();
    let (fw, fh) = (fd.width as i64, fd.height as i64);
    // what each decode returns (same arguments as execute_dcs passes)
    let decs: Vec<Dec> = specs
        .iter()
        .map(|sp| {
            if sp.payload == PANIC_MARKER {
                return Dec::Panicked;
            }
            let s = to_string(&sp.payload);
            let pos = Position::new(sp.px, sp.py);
            match catch(move || Sixel::parse_from(pos, 1, 2, [0xff, 0, 0, 0], &s)) {
                Ok(Ok(sx)) => Dec::Ok(sx),
                Ok(Err(_)) => Dec::Err,
                Err(_) => Dec::Panicked,
            }
        })
        .collect();
    let replay = format!(
        "q:{}|{}|{}|{}|{}",
        fw,
        fh,
        specs.len(),
        specs.iter().map(|s| format!("{},{},{}", s.px, s.py, hex(&s.payload))).collect::<Vec<_>>().join("|"),
        events.iter().map(|e| if let Ev::Clear(k) = e { format!("c{}", k) } else { ev_str(e) }).collect::<Vec<_>>().join("|")
    );
    let op = format!(
        "sixelqueue run {} {} {} {} {}",
        fw,
        fh,
        specs.len(),
        specs.iter().map(|s| format!("{},{},{}", s.px, s.py, hex(&s.payload))).collect::<Vec<_>>().join(" "),
        events.iter().map(ev_str).collect::<Vec<_>>().join(" ")
    );
    let mut seq_of: Vec<Option<usize>> = vec![None; specs.len()];
    let mut order: Vec<usize> = vec![]; // arrival order
    let mut finished: HashSet<usize> = HashSet::new();
    let mut obs: Vec<String> = vec![];
    let mut prev_n = 0usize;
    let mut failed = false;
    for ev in events {
        match *ev {
            Ev::Arrive(i) => {
                let sp = &specs[i];
                let seq = icy_engine::VERIF_SIXEL_SEQ.load(Ordering::SeqCst);
                let before = buf.sixel_threads.len();
                let boom = sp.payload == PANIC_MARKER;
                if boom {
                    GATE.lock().unwrap().as_mut().unwrap().panic.insert(seq);
                }
                let text = format!("\x1b[{};{}H\x1bPq{}\x1b\\", sp.py + 1, sp.px + 1, if boom { "~".to_string() } else { to_string(&sp.payload) });
                for ch in text.chars() {
                    let _ = parser.print_char(&mut buf, 0, &mut caret, ch);
                }
                if buf.sixel_threads.len() != before + 1 || icy_engine::VERIF_SIXEL_SEQ.load(Ordering::SeqCst) != seq + 1 {
                    run.oracle_fail("sixel_spawn", &replay, "a DCS q sequence did not queue exactly one decode");
                    failed = true;
                    break;
                }
                seq_of[i] = Some(seq);
                order.push(i);
            }
            Ev::Clear(k) => {
                for ch in CLEAR_SEQS[k as usize % CLEAR_SEQS.len()].chars() {
                    let _ = parser.print_char(&mut buf, 0, &mut caret, ch);
                }
                if !buf.sixel_threads.is_empty() || !buf.layers[0].sixels.is_empty() {
                    run.oracle_fail(
                        "clear_keeps_images",
                        &replay,
                        &format!("after a clear-screen {} decodes are still queued and {} images still shown", buf.sixel_threads.len(), buf.layers[0].sixels.len()),
                    );
                    failed = true;
                    break;
                }
                order.clear();
                finished.clear();
                prev_n = 0;
            }
            Ev::Finish(i) => {
                let Some(seq) = seq_of[i] else { continue };
                release(seq);
                // wait until the handle reports finished, so that the completion has really happened
                let popped = order.len() - buf.sixel_threads.len();
                let Some(idx) = order.iter().position(|&o| o == i) else { continue }; // its handle was dropped by a clear
                if idx >= popped {
                    let t0 = Instant::now();
                    while !buf.sixel_threads[idx - popped].is_finished() {
                        if t0.elapsed() > Duration::from_secs(20) {
                            run.oracle_fail("sixel_decode_stuck", &replay, "released decode thread did not finish in 20 s");
                            failed = true;
                            break;
                        }
                        std::thread::yield_now();
                    }
                }
                finished.insert(i);
            }
            Ev::Poll => {
                DEADLINE.store(now_ms() + POLL_TIMEOUT_MS, Ordering::SeqCst);
                let r = {
                    let b = std::panic::AssertUnwindSafe(&mut buf);
                    catch(move || {
                        let b = b;
                        b.0.update_sixel_threads()
                    })
                };
                DEADLINE.store(0, Ordering::SeqCst);
                let blocked = FIRED.load(Ordering::SeqCst);
                let ret = if blocked {
                    "B".to_string()
                } else {
                    match &r {
                        Ok(Ok(true)) => "T".to_string(),
                        Ok(Ok(false)) => "F".to_string(),
                        Ok(Err(_)) => "E".to_string(),
                        Err(loc) => format!("P({})", panic_key(loc)),
                    }
                };
                // identify the images on the layer
                let layer_ids: Vec<usize> = buf.layers[0]
                    .sixels
                    .iter()
                    .map(|sx| {
                        decs.iter()
                            .position(|d| matches!(d, Dec::Ok(e) if e.position == sx.position && e.get_size() == sx.get_size() && e.picture_data == sx.picture_data))
                            .unwrap_or(99)
                    })
                    .collect();
                let layer_s: Vec<String> = buf.layers[0]
                    .sixels
                    .iter()
                    .zip(&layer_ids)
                    .map(|(sx, id)| format!("{}/{}/{}/{}/{}", id, sx.position.x, sx.position.y, sx.get_width(), sx.get_height()))
                    .collect();
                obs.push(format!("{}:[{}]", ret, layer_s.join(";")));
                // ---- oracle: the property itself, independent of the Lean model
                if blocked {
                    run.oracle_fail("poll_blocked", &replay, &format!("update_sixel_threads did not return within {} ms while a decode was held", POLL_TIMEOUT_MS));
                    BLOCKED_SCENARIOS.fetch_add(1, Ordering::SeqCst);
                    failed = true;
                    break;
                }
                if let Err(loc) = &r {
                    run.oracle_fail(&panic_key(loc), &replay, "update_sixel_threads panicked");
                    failed = true;
                    break;
                }
                // ---- "never loses an image, never delivers one twice, arrival order": what left the queue vs what is shown
                // popped = handles this and all earlier polls took from the queue (since the last clear-screen)
                let popped = order.len().saturating_sub(buf.sixel_threads.len());
                // m = number of leading arrivals whose decode has finished: the most a poll may have taken
                let m = order.iter().take_while(|i| finished.contains(i)).count();
                let is_err = matches!(r, Ok(Err(_)));
                let taken = &order[prev_n.min(popped)..popped];
                let n_ok = taken.iter().filter(|&&i| matches!(decs[i], Dec::Ok(_))).count();
                let n_bad = taken.len() - n_ok;
                if taken.len() >= 2 {
                    run.count(&format!("poll:batch>=2:ok={}:failing={}{}", n_ok.min(3), n_bad.min(2), if is_err { ":Err" } else { "" }));
                    if let Some(pos) = taken.iter().position(|&i| matches!(decs[i], Dec::Err)) {
                        run.count(&format!("poll:batch>=2:first-Err-at={}", pos.min(3)));
                    }
                }
                let shown = reference(popped, &order, &decs, fw, fh);
                // every image whose handle left the queue and whose decode succeeded must be shown unless a LATER such image covers it
                let lost: Vec<usize> = shown.iter().cloned().filter(|i| !layer_ids.contains(i)).collect();
                let mut sorted = layer_ids.clone();
                sorted.sort();
                let dup = sorted.windows(2).any(|w| w[0] == w[1]);
                let ok_total = order[..popped].iter().filter(|&&i| matches!(decs[i], Dec::Ok(_))).count();
                let picture = format!(
                    "after poll #{} (returned {}) {} handles have left the queue, {} of them decoded fine; the arrival-order placement of those shows {:?} but the layer shows {:?}{} (arrival order {:?}, finished {:?})",
                    obs.len(), ret, popped, ok_total, shown, layer_ids,
                    if lost.is_empty() { String::new() } else { format!(": image(s) {:?} lost", lost) },
                    order, { let mut f: Vec<_> = finished.iter().collect(); f.sort(); f }
                );
                let mut bad: Option<(&str, String)> = None;
                if !lost.is_empty() {
                    bad = Some(("sixel_lost", picture));
                } else if dup {
                    bad = Some(("sixel_dup", picture));
                } else if popped < prev_n || popped > m {
                    bad = Some(("sixel_order", format!("{} handles have left the queue, but {} had left it before and only the first {} decodes have finished", popped, prev_n, m)));
                } else if !is_err && popped != m {
                    bad = Some(("sixel_order", format!("the poll reported no error but took only {} of the {} leading finished decodes", popped, m)));
                } else if is_err && !(popped > prev_n && matches!(decs[order[popped - 1]], Dec::Err) && !taken[..taken.len() - 1].iter().any(|&i| matches!(decs[i], Dec::Err))) {
                    bad = Some(("sixel_order", format!("the poll reported an error but the handles it took ({:?}) do not end at the first failing decode", taken)));
                } else if shown != layer_ids {
                    bad = Some(("sixel_order", picture));
                }
                match bad {
                    None => prev_n = popped,
                    Some((key, what)) => {
                        run.oracle_fail(key, &replay, &what);
                        failed = true;
                        break;
                    }
                }
            }
        }
    }
    // let every held thread go before the buffer (and its handles) is dropped
    release_all(true);
    while let Some(h) = buf.sixel_threads.pop_front() {
        let _ = h.join();
    }
    release_all(false);
    run.count(&format!("queue:k={}", specs.len()));
    if failed {
        run.count("queue:oracle-failed");
        // the observation is incomplete; do not compare it with the model
        return;
    }
    run.nontrivial(fnv(op.bytes().map(|b| b as u64)));
    run.case(&op, &if obs.is_empty() { "-".to_string() } else { obs.join(" ") });
}

fn block_payload(color: usize, w: i64, bands: i64) -> Vec<u8> {
    let mut v = format!("#{}", color).into_bytes();
    for b in 0..bands {
        v.extend(format!("!{}~", w).bytes());
        if b + 1 < bands {
            v.push(b'-');
        }
    }
    v
}

/// geometry sets with covering / equal / overlapping / disjoint rectangles and failed decodes
fn spec_sets(rng: &mut Rng, k: usize, n_sets: usize) -> Vec<Vec<Spec>> {
    let mut sets = vec![];
    // hand-made: small, covering, inside-the-cover, equal rect (different colour), error, raster, ragged rows
    let menu: Vec<Spec> = vec![
        Spec { px: 0, py: 0, payload: block_payload(1, 8, 2) },
        Spec { px: 0, py: 0, payload: block_payload(2, 16, 3) },
        Spec { px: 1, py: 0, payload: block_payload(3, 8, 1) },
        Spec { px: 0, py: 0, payload: block_payload(4, 8, 2) },
        Spec { px: 5, py: 5, payload: b"#5~-~~~".to_vec() },
        Spec { px: 0, py: 0, payload: b" ".to_vec() },
        Spec { px: 2, py: 1, payload: b"\"1;1;12;9#6!20~-!5~".to_vec() },
        Spec { px: 0, py: 0, payload: block_payload(7, 100, 6) },
    ];
    sets.push((0..k).map(|i| menu[i].clone()).collect());
    sets.push((0..k).map(|i| menu[(k - 1 - i) % menu.len()].clone()).collect());
    sets.push((0..k).map(|i| menu[[5, 1, 0, 7][i]].clone()).collect());
    // decode threads that panic between images that must still be delivered by the same poll
    let boom = Spec { px: 0, py: 0, payload: PANIC_MARKER.to_vec() };
    sets.push((0..k).map(|i| if i % 2 == 0 { boom.clone() } else { menu[[0, 0, 0, 1][i]].clone() }).collect());
    // decodes that FAIL (Err result) behind / between good images: with every completion order and poll placement,
    // among them the ones where two or more finished decodes meet one poll
    let bad = |n: usize| Spec { px: 0, py: 0, payload: FAILING_PAYLOADS[n % FAILING_PAYLOADS.len()].to_vec() };
    sets.push((0..k).map(|i| if i % 2 == 1 { bad(i + k) } else { menu[[0, 0, 2, 0][i]].clone() }).collect());
    while sets.len() < n_sets {
        let mut s = vec![];
        for i in 0..k {
            if rng.chance(1, 8) {
                s.push(Spec { px: 0, py: 0, payload: rng.pick(&[b" ".to_vec(), b"#1;2;3~".to_vec(), b"!~".to_vec(), b"\"1~".to_vec(), PANIC_MARKER.to_vec()]).clone() });
            } else if rng.chance(1, 6) {
                s.push(Spec { px: rng.range(0, 2) as i32, py: rng.range(0, 1) as i32, payload: gen_structured(rng) });
            } else {
                let w = *rng.pick(&[4i64, 8, 16, 24]);
                let bands = rng.range(1, 3);
                s.push(Spec { px: rng.range(0, 2) as i32, py: rng.range(0, 1) as i32, payload: block_payload(i + 1, w, bands) });
            }
        }
        sets.push(s);
    }
    sets.truncate(n_sets);
    sets
}

/// payloads over the sixel alphabet that the decoder rejects (one per error kind)
const FAILING_PAYLOADS: &[&[u8]] = &[b" ", b"#1;2;100;0", b"!~", b"\"1~", b"#1;3;0;0;0~"];

/// an image of exactly `w` x `h` pixels (declared by a raster attribute, painted in colour `color`)
fn sized_payload(color: usize, w: i64, h: i64) -> Vec<u8> {
    let mut v = format!("\"1;1;{};{}#{}", w, h, color).into_bytes();
    let bands = (h + 5) / 6;
    for b in 0..bands {
        v.extend(format!("!{}~", w).bytes());
        if b + 1 < bands {
            v.push(b'-');
        }
    }
    v
}

/// "never loses an image", systematically: EVERY assignment of {decodes fine, decode fails, decode thread panics,
/// still running} to k arrivals.  All that are not running complete (no poll in between), then ONE poll meets the whole
/// batch — a failing decode at every position of the batch, in front of / between / behind good images —, closing polls
/// take the rest, then the running ones complete and are polled.  Three geometries: disjoint images, each image
/// covering all earlier ones, all at one place with nobody covered.
fn batch_family(run: &mut Run, k: usize, geometries: &[usize]) {
    let n = 4usize.pow(k as u32);
    for a in 0..n {
        let kind = |j: usize| (a / 4usize.pow(j as u32)) % 4;
        for &g in geometries {
            let specs: Vec<Spec> = (0..k)
                .map(|j| match kind(j) {
                    1 => Spec { px: 0, py: 0, payload: FAILING_PAYLOADS[(a + j) % FAILING_PAYLOADS.len()].to_vec() },
                    2 => Spec { px: 0, py: 0, payload: PANIC_MARKER.to_vec() },
                    _ => match g {
                        0 => Spec { px: 3 * j as i32, py: 0, payload: block_payload(j + 1, 8, 1 + (j as i64 % 2)) },
                        1 => Spec { px: 0, py: 0, payload: block_payload(j + 1, 8 * (j as i64 + 1), j as i64 + 1) },
                        _ => Spec { px: 0, py: 0, payload: block_payload(j + 1, 8 * (k - j) as i64, j as i64 + 1) },
                    },
                })
                .collect();
            let mut ev: Vec<Ev> = (0..k).map(Ev::Arrive).collect();
            let mut done: Vec<usize> = (0..k).filter(|&j| kind(j) != 3).collect();
            if a % 2 == 0 {
                done.reverse();
            }
            ev.extend(done.iter().map(|&j| Ev::Finish(j)));
            ev.extend(std::iter::repeat(Ev::Poll).take(k + 1));
            ev.extend((0..k).filter(|&j| kind(j) == 3).map(Ev::Finish));
            ev.extend(std::iter::repeat(Ev::Poll).take(k + 1));
            run.count("queue:family=batch-at-one-poll");
            scenario(run, &specs, &ev);
        }
    }
}

/// "a newer image replaces older images it FULLY covers": an older image that sticks out of the newer one on each of
/// the four sides (by a cell, by one pixel), shares its borders / a corner, is identical, lies strictly inside, is
/// disjoint; both arrival orders, both completion orders, with and without a poll between the completions
fn cover_family(run: &mut Run) {
    // (old: px, py, w, h), (new: px, py, w, h) in cells / pixels; the font is 8 x 16
    let pairs: &[((i32, i32, i64, i64), (i32, i32, i64, i64))] = &[
        ((0, 0, 8, 12), (0, 0, 8, 6)),    // sticks out below
        ((0, 0, 8, 7), (0, 0, 8, 6)),     // … by one pixel row
        ((0, 0, 16, 6), (0, 0, 8, 6)),    // sticks out to the right
        ((1, 0, 9, 6), (0, 0, 16, 6)),    // … by one pixel
        ((0, 0, 16, 6), (1, 0, 8, 6)),    // sticks out to the left
        ((0, 0, 8, 32), (0, 1, 8, 16)),   // sticks out above
        ((0, 0, 8, 6), (0, 0, 8, 6)),     // identical
        ((1, 0, 8, 6), (0, 0, 24, 12)),   // strictly inside
        ((1, 0, 8, 6), (0, 0, 16, 6)),    // shares the right and the bottom border
        ((0, 1, 8, 16), (0, 0, 8, 32)),   // shares the bottom border, starts lower
        ((0, 0, 8, 6), (2, 0, 8, 6)),     // disjoint
        ((0, 0, 24, 12), (1, 0, 8, 6)),   // the older one is the bigger one
    ];
    // one big image removes SEVERAL older ones in one placement (two adjacent entries of the vector, then one that
    // sticks out below and must stay, then another covered one)
    let pile = vec![
        Spec { px: 0, py: 0, payload: sized_payload(1, 8, 6) },
        Spec { px: 2, py: 0, payload: sized_payload(2, 8, 6) },
        Spec { px: 4, py: 0, payload: sized_payload(3, 8, 40) },
        Spec { px: 0, py: 0, payload: sized_payload(4, 64, 32) },
    ];
    for perm in [[0usize, 1, 2, 3], [3, 2, 1, 0], [3, 0, 2, 1]] {
        for mask in [0b1000u32, 0b1111, 0b0101] {
            run.count("queue:family=partial-cover");
            scenario(run, &pile, &canonical(4, &perm, mask, false, 1));
        }
    }
    for (old, new) in pairs {
        let a = Spec { px: old.0, py: old.1, payload: sized_payload(1, old.2, old.3) };
        let b = Spec { px: new.0, py: new.1, payload: sized_payload(2, new.2, new.3) };
        for specs in [vec![a.clone(), b.clone()], vec![b.clone(), a.clone()]] {
            for perm in [[0usize, 1], [1, 0]] {
                for mask in [0b10u32, 0b11] {
                    run.count("queue:family=partial-cover");
                    scenario(run, &specs, &canonical(2, &perm, mask, false, 1));
                }
            }
        }
    }
}

fn permutations(k: usize) -> Vec<Vec<usize>> {
    fn go(cur: &mut Vec<usize>, used: &mut Vec<bool>, k: usize, out: &mut Vec<Vec<usize>>) {
        if cur.len() == k {
            out.push(cur.clone());
            return;
        }
        for i in 0..k {
            if !used[i] {
                used[i] = true;
                cur.push(i);
                go(cur, used, k, out);
                cur.pop();
                used[i] = false;
            }
        }
    }
    let mut out = vec![];
    go(&mut vec![], &mut vec![false; k], k, &mut out);
    out
}

/// all arrive, then completions in `perm` order with a poll after the j-th completion iff bit j of `mask`;
/// `lead` = poll before any completion; closing polls drain the queue
fn canonical(k: usize, perm: &[usize], mask: u32, lead: bool, closing: usize) -> Vec<Ev> {
    let mut ev: Vec<Ev> = (0..k).map(Ev::Arrive).collect();
    if lead {
        ev.push(Ev::Poll);
    }
    for (j, &i) in perm.iter().enumerate() {
        ev.push(Ev::Finish(i));
        if mask & (1 << j) != 0 {
            ev.push(Ev::Poll);
        }
    }
    for _ in 0..closing {
        ev.push(Ev::Poll);
    }
    ev
}

/// random well-formed interleaving: arrivals in order, each finish after its arrival, polls anywhere
fn random_events(rng: &mut Rng, k: usize) -> Vec<Ev> {
    let mut ev = vec![];
    let mut arrived = 0usize;
    let mut unfinished: Vec<usize> = vec![];
    let mut done = 0usize;
    let leave = if rng.chance(1, 5) { rng.below(k as u64 + 1) as usize } else { 0 }; // decodes never finishing
    let with_clear = rng.chance(1, 4);
    while arrived < k || done + leave < k {
        match rng.below(3) {
            0 if arrived < k => {
                ev.push(Ev::Arrive(arrived));
                unfinished.push(arrived);
                arrived += 1;
            }
            1 if !unfinished.is_empty() && done + leave < k => {
                let j = rng.below(unfinished.len() as u64) as usize;
                ev.push(Ev::Finish(unfinished.remove(j)));
                done += 1;
            }
            2 => {
                if with_clear && rng.chance(1, 5) {
                    ev.push(Ev::Clear(rng.below(3) as u8));
                    done += unfinished.len(); // their handles are gone
                    unfinished.clear();
                } else {
                    ev.push(Ev::Poll)
                }
            }
            _ => {
                if arrived >= k && unfinished.is_empty() {
                    break;
                }
            }
        }
    }
    for _ in 0..rng.range(1, 3) {
        ev.push(Ev::Poll);
    }
    ev
}

fn replay_scenario(run: &mut Run, s: &str) {
    let parts: Vec<&str> = s.split('|').collect();
    if parts.len() < 3 {
        return;
    }
    let n: usize = parts[2].parse().unwrap_or(0);
    let mut specs = vec![];
    for p in parts.iter().skip(3).take(n) {
        let f: Vec<&str> = p.split(',').collect();
        if f.len() != 3 {
            return;
        }
        specs.push(Spec { px: f[0].parse().unwrap_or(0), py: f[1].parse().unwrap_or(0), payload: unhex(f[2]) });
    }
    let mut evs = vec![];
    for p in parts.iter().skip(3 + n) {
        let e = match p.as_bytes().first() {
            Some(b'p') => Ev::Poll,
            Some(b'c') => Ev::Clear(p[1..].parse().unwrap_or(0)),
            Some(b'a') => Ev::Arrive(p[1..].parse().unwrap_or(0)),
            Some(b'f') => Ev::Finish(p[1..].parse().unwrap_or(0)),
            _ => continue,
        };
        match e {
            Ev::Arrive(i) | Ev::Finish(i) if i >= specs.len() => return,
            _ => {}
        }
        evs.push(e);
    }
    scenario(run, &specs, &evs);
}


// ------------------------------------------------------------------------------------------------ (c)

fn b64(data: &[u8]) -> String {
    const T: &[u8] = b"ABCDEFGHIJKLMNOPQRSTUVWXYZabcdefghijklmnopqrstuvwxyz0123456789+/";
    let mut s = String::new();
    for c in data.chunks(3) {
        let n = (c[0] as u32) << 16 | (*c.get(1).unwrap_or(&0) as u32) << 8 | *c.get(2).unwrap_or(&0) as u32;
        s.push(T[(n >> 18) as usize & 63] as char);
        s.push(T[(n >> 12) as usize & 63] as char);
        s.push(if c.len() > 1 { T[(n >> 6) as usize & 63] as char } else { '=' });
        s.push(if c.len() > 2 { T[n as usize & 63] as char } else { '=' });
    }
    s
}

/// the gate (if an earlier replay installed it) must let the decodes of a load run
fn gate_open(on: bool) {
    if GATE.lock().unwrap().is_some() {
        release_all(on);
    }
}

/// the sixel payload of a DCS string as `execute_dcs` finds it: digits and `;`, then `q`
fn dcs_payload(dcs: &[u8]) -> Option<&[u8]> {
    if dcs.starts_with(b"CTerm:Font:") {
        return None;
    }
    let i = dcs.iter().position(|b| !(b.is_ascii_digit() || *b == b';')).unwrap_or(dcs.len());
    if dcs.get(i) == Some(&b'q') {
        Some(&dcs[i + 1..])
    } else {
        None
    }
}

/// marker in `LoadCase::specs`: a clear-screen sequence at this place of the file
fn clear_marker() -> Spec {
    Spec { px: -1, py: -1, payload: vec![] }
}
fn is_clear(sp: &Spec) -> bool {
    sp.px < 0
}
/// the sequences that are sixels and arrive after the last clear-screen
fn live_sixels(specs: &[Spec]) -> Vec<usize> {
    let start = specs.iter().rposition(is_clear).map(|i| i + 1).unwrap_or(0);
    (start..specs.len()).filter(|&i| dcs_payload(&specs[i].payload).is_some()).collect()
}

#[derive(Clone, Debug)]
struct LoadCase {
    ext: String,
    fw: i64,
    fh: i64,
    sched: String,
    file: Vec<u8>,
    /// every DCS string of the file with the caret position the generator expects it to arrive at
    specs: Vec<Spec>,
}

impl LoadCase {
    fn replay(&self) -> String {
        let mut s = format!("l:{}|{}|{}|{}|{}", self.ext, self.fw, self.fh, self.sched, hex(&self.file));
        for sp in &self.specs {
            if is_clear(sp) {
                s.push_str("|c");
            } else {
                s.push_str(&format!("|{},{},{}", sp.px, sp.py, hex(&sp.payload)));
            }
        }
        s
    }
    fn op(&self) -> String {
        let mut s = format!("sixelload load {} {} {} {}", self.fw, self.fh, self.sched, self.specs.len());
        for sp in &self.specs {
            if is_clear(sp) {
                s.push_str(" c");
            } else {
                s.push_str(&format!(" {},{},{}", sp.px, sp.py, hex(&sp.payload)));
            }
        }
        s
    }
}

struct LoadObs {
    obs: String,
    fails: Vec<(String, String)>,
    counts: Vec<String>,
    n_layers: usize,
}

fn ceil_div(a: i64, b: i64) -> i64 {
    if b <= 0 {
        return -1;
    }
    (a + b - 1).div_euclid(b)
}

/// load the file through the real crate and evaluate the property on the result
fn observe_load(c: &LoadCase) -> LoadObs {
    let mut fails: Vec<(String, String)> = vec![];
    let mut counts: Vec<String> = vec![];
    // reference decodes (synchronous, public API) of the sequences that are sixels
    let decs: Vec<Dec> = c
        .specs
        .iter()
        .map(|sp| match if is_clear(sp) { None } else { dcs_payload(&sp.payload) } {
            None => Dec::Panicked, // not a sixel: never arrives
            Some(pl) => {
                let s = to_string(pl);
                let pos = Position::new(sp.px, sp.py);
                match catch(move || Sixel::parse_from(pos, 1, 1, [0, 0, 0, 0], &s)) {
                    Ok(Ok(sx)) => Dec::Ok(sx),
                    Ok(Err(_)) => Dec::Err,
                    Err(_) => Dec::Panicked,
                }
            }
        })
        .collect();
    let order: Vec<usize> = live_sixels(&c.specs);
    if c.specs.iter().any(is_clear) {
        counts.push("load:with-clear-screen".into());
    }
    let any_err = order.iter().any(|&i| matches!(decs[i], Dec::Err));
    let expect: Vec<usize> = reference(order.len(), &order, &decs, c.fw, c.fh);
    counts.push(format!("load:ext={}", c.ext));
    counts.push(format!("load:sequences={}", order.len()));
    if expect.len() < order.iter().filter(|&&i| matches!(decs[i], Dec::Ok(_))).count() {
        counts.push("load:some-image-covered".into());
    }
    if order.iter().any(|&i| matches!(&decs[i], Dec::Ok(s) if s.get_width() == 0 || s.get_height() == 0)) {
        counts.push("load:zero-size-image".into());
    }
    if (c.fw, c.fh) != (8, 16) {
        counts.push("load:custom-font".into());
    }
    let name = format!("x.{}", c.ext);
    let file = c.file.clone();
    let r = catch(move || Buffer::from_bytes(std::path::Path::new(&name), true, &file));
    let obs = match r {
        Err(loc) => {
            let k = panic_key(&loc);
            fails.push((k.clone(), "loading a file with sixel sequences panicked".into()));
            LoadObs { obs: format!("panic {}", k), fails, counts, n_layers: 0 }
        }
        Ok(Err(_)) => {
            if !any_err {
                fails.push(("load_err".into(), "Buffer::from_bytes failed although every sixel decode succeeds".into()));
            }
            counts.push("load:err".into());
            LoadObs { obs: "err".into(), fails, counts, n_layers: 0 }
        }
        Ok(Ok(buf)) => {
            let fd = buf.get_font_dimensions();
            if (fd.width as i64, fd.height as i64) != (c.fw, c.fh) {
                fails.push(("load_font".into(), format!("font dimensions {}x{}, the case expects {}x{}", fd.width, fd.height, c.fw, c.fh)));
            }
            if !buf.layers[0].sixels.is_empty() || !buf.sixel_threads.is_empty() {
                fails.push((
                    "load_leftover".into(),
                    format!("{} sixels left on layer 0, {} decodes still queued after the load", buf.layers[0].sixels.len(), buf.sixel_threads.len()),
                ));
            }
            let mut out: Vec<String> = vec![];
            let mut ids: Vec<usize> = vec![];
            for l in buf.layers.iter().skip(1) {
                let num: String = l.properties.title.chars().filter(|ch| ch.is_ascii_digit()).collect();
                if l.sixels.len() != 1 || !matches!(l.role, icy_engine::Role::Image) {
                    fails.push(("load_layer_shape".into(), format!("layer '{}' has role {:?} and {} sixels", num, l.role, l.sixels.len())));
                    out.push(format!("{}:?", num));
                    continue;
                }
                let sx = &l.sixels[0];
                let off = l.get_offset();
                let sz = l.get_size();
                let (w, h) = (sx.get_width() as i64, sx.get_height() as i64);
                if sx.picture_data.len() as i64 != w * h * 4 {
                    fails.push(("load_rect".into(), format!("image layer {}: picture_data.len()={} but {}x{}", num, sx.picture_data.len(), w, h)));
                }
                if (sz.width as i64, sz.height as i64) != (ceil_div(w, c.fw), ceil_div(h, c.fh)) {
                    fails.push((
                        "load_cells".into(),
                        format!("image layer {}: {}x{} cells for {}x{} pixels with a {}x{} font", num, sz.width, sz.height, w, h, c.fw, c.fh),
                    ));
                }
                if sx.position != Position::default() {
                    fails.push(("load_sixel_pos".into(), format!("image layer {}: inner sixel at {:?}", num, sx.position)));
                }
                // which sequence is it? (identical images: the newest one, the only one that can survive)
                let id = (0..decs.len())
                    .rev()
                    .find(|&i| matches!(&decs[i], Dec::Ok(e) if e.position == off && e.get_size() == sx.get_size() && e.picture_data == sx.picture_data))
                    .unwrap_or(99);
                ids.push(id);
                out.push(format!(
                    "{}:{}@{},{}:{}x{}:{}x{}:{},{}",
                    num, id, off.x, off.y, sz.width, sz.height, w, h, sx.vertical_scale, sx.horizontal_scale
                ));
            }
            let want: Vec<usize> = expect.iter().rev().cloned().collect();
            if any_err {
                fails.push(("load_err_ignored".into(), "a sixel decode returns an error but the load succeeded".into()));
            } else if ids != want {
                fails.push((
                    "load_images".into(),
                    format!(
                        "{} sixel sequences arrived, the covering rule leaves {:?} (newest first) but the image layers hold {:?}",
                        order.len(), want, ids
                    ),
                ));
            }
            let n = out.len();
            LoadObs { obs: format!("ok {}{}", n, out.iter().map(|s| format!(" {}", s)).collect::<String>()), fails, counts, n_layers: n }
        }
    };
    obs
}

fn run_loads(run: &mut Run, cases: &[LoadCase]) {
    if cases.is_empty() {
        return;
    }
    gate_open(true);
    // every load sleeps >= 50 ms per poll: overlap the waiting
    let n_threads = 16usize.min(cases.len());
    let results: Vec<Mutex<Option<LoadObs>>> = cases.iter().map(|_| Mutex::new(None)).collect();
    let next = std::sync::atomic::AtomicUsize::new(0);
    std::thread::scope(|s| {
        for _ in 0..n_threads {
            s.spawn(|| loop {
                let i = next.fetch_add(1, Ordering::SeqCst);
                if i >= cases.len() {
                    break;
                }
                let o = observe_load(&cases[i]);
                *results[i].lock().unwrap() = Some(o);
            });
        }
    });
    gate_open(false);
    for (c, r) in cases.iter().zip(results) {
        let o = r.into_inner().unwrap().unwrap();
        let replay = c.replay();
        for (k, what) in &o.fails {
            run.oracle_fail(k, &replay, what);
        }
        for k in &o.counts {
            run.count(k);
        }
        run.count(&format!("load:layers={}", o.n_layers));
        if o.n_layers > 0 {
            run.nontrivial(fnv(replay.bytes().map(|b| b as u64)));
        }
        run.case(&c.op(), &o.obs);
    }
}

const LOAD_EXTS: &[&str] = &["ans", "ans", "ans", "ice", "diz", "avt", "pcb", "msg", "an1", "xyz", "asc"];

fn load_payload(rng: &mut Rng, i: usize) -> Vec<u8> {
    match rng.below(16) {
        0 => b"??-??".to_vec(),
        1 => vec![],
        2 => b"\"1;1;0;0".to_vec(),
        3 => format!("\"1;1;{};{}#{}!{}~", rng.range(0, 20), rng.range(0, 20), i + 1, rng.range(1, 20)).into_bytes(),
        4 => format!("\"1;1;{};0!8~-!8~", rng.range(0, 12)).into_bytes(),
        5 => format!("\"{};{}??", rng.range(0, 9), rng.range(0, 9)).into_bytes(),
        6 => b"?".to_vec(),
        7 | 8 => gen_structured(rng),
        9 => format!("#{}!{}?-~", i + 1, rng.range(0, 9)).into_bytes(),
        _ => block_payload(i + 1, *rng.pick(&[4i64, 8, 16, 24, 9]), rng.range(1, 3)),
    }
}

const DCS_PARAMS: &[&str] = &["", "", "", "0", "1", "2", "3", "4", "5", "6", "7", "9;1", "0;1;0", ";1", "2;0", "1;1;1;1", "10", "2147483647", ";;"];

/// a file: text / cursor moves / colour changes, 0..=5 sixel sequences, other DCS strings, optionally a custom font
fn gen_load_case(rng: &mut Rng) -> LoadCase {
    let ext = rng.pick(LOAD_EXTS).to_string();
    let mut file: Vec<u8> = vec![];
    let mut specs: Vec<Spec> = vec![];
    let (mut x, mut y) = (0i64, 0i64);
    let (mut fw, mut fh) = (8i64, 16i64);
    let n = match rng.below(10) {
        0 => 0,
        1 | 2 => 1,
        3 | 4 => 2,
        5 | 6 => 3,
        7 | 8 => 4,
        _ => 5,
    } as usize;
    let font_at = if rng.chance(1, 5) { Some(rng.below(n as u64 + 1) as usize) } else { None };
    let with_err = rng.chance(1, 14);
    let with_clear = rng.chance(1, 8);
    let err_at = rng.below(n.max(1) as u64) as usize;
    let bom = ext != "asc" && rng.chance(1, 25);
    if bom {
        file.extend([0xEF, 0xBB, 0xBF]);
    }
    let cluster = rng.chance(1, 2); // positions from a small menu so that images cover each other
    let push_dcs = |file: &mut Vec<u8>, specs: &mut Vec<Spec>, x: i64, y: i64, dcs: Vec<u8>| {
        file.extend(b"\x1bP");
        file.extend(&dcs);
        file.extend(b"\x1b\\");
        specs.push(Spec { px: x as i32, py: y as i32, payload: dcs });
    };
    for i in 0..=n {
        if font_at == Some(i) {
            let (w, h) = *rng.pick(&[(8i64, 8i64), (8, 14), (8, 1), (5, 7), (12, 10), (16, 20), (9, 16), (8, 16)]);
            let data = if w == 8 && rng.chance(1, 2) {
                vec![0u8; 256 * h as usize]
            } else {
                let cs = (h * ((w + 7) / 8)) as u32;
                let mut d = crate::fontgen::psf2_header(0, 32, 1, cs, h as u32, w as u32);
                d.extend(vec![0u8; cs as usize]);
                d
            };
            let dcs = format!("CTerm:Font:0:{}", b64(&data)).into_bytes();
            push_dcs(&mut file, &mut specs, x, y, dcs);
            fw = w;
            fh = h;
        }
        if i == n {
            break;
        }
        // what separates this sequence from the previous one
        let sep = if i == 0 && bom { 1 } else if with_clear && rng.chance(1, 4) { 8 } else { rng.below(8) };
        match sep {
            0 => {}
            1 | 2 => {
                let (r, c) = if cluster { (rng.range(1, 3), rng.range(1, 4)) } else { (rng.range(1, 30), rng.range(1, 80)) };
                file.extend(format!("\x1b[{};{}H", r, c).bytes());
                x = c - 1;
                y = r - 1;
            }
            3 => {
                let k = rng.range(1, 6).min(79 - x).max(0);
                for _ in 0..k {
                    file.push(*rng.pick(b"abcXYZ .#" as &[u8]));
                }
                x += k;
            }
            4 => {
                file.extend(b"\r\n");
                x = 0;
                y += 1;
            }
            5 => {
                file.extend(format!("\x1b[{};{}m", rng.range(30, 37), rng.range(40, 47)).bytes());
                let k = rng.range(0, 3).min(79 - x).max(0);
                for _ in 0..k {
                    file.push(b'x');
                }
                x += k;
            }
            8 => {
                // clear-screen: the decodes queued so far are dropped
                let seq: &[u8] = match ext.as_str() {
                    "msg" => *rng.pick(&[&b"\x01L"[..], b"\x1b[2J", b"\x0c"]),
                    _ => *rng.pick(&[&b"\x1b[2J"[..], b"\x1b[3J", b"\x0c"]),
                };
                file.extend(seq);
                specs.push(clear_marker());
                x = 0;
                y = 0;
            }
            6 => {
                // a DCS string that is not a sixel
                let dcs: &[u8] = *rng.pick(&[&b"xq~~"[..], b"1;0;0!z414243", b"$q\"p", b"CTerm:Font:0:AAAA", b"12", b""]);
                push_dcs(&mut file, &mut specs, x, y, dcs.to_vec());
            }
            _ => {
                if ext == "pcb" {
                    file.extend(b"@X1F");
                } else {
                    file.extend(b"\x1b[0m");
                }
            }
        }
        let mut pl = if with_err && i == err_at { rng.pick(&[b" ".to_vec(), b"#1;2;3~".to_vec(), b"!~".to_vec(), b"~\n~".to_vec()]).clone() } else { load_payload(rng, i) };
        if ext == "pcb" {
            for b in pl.iter_mut() {
                if *b == b'@' {
                    *b = b'A';
                }
            }
        }
        let mut dcs = rng.pick(DCS_PARAMS).as_bytes().to_vec();
        dcs.push(b'q');
        dcs.extend(pl);
        push_dcs(&mut file, &mut specs, x, y, dcs);
    }
    match rng.below(4) {
        0 => file.extend(b"\r\n"),
        1 => file.extend(b"end"),
        2 => file.extend(b"\x1b[5;5Hz\r\n\r\n"),
        _ => {}
    }
    if ext == "asc" {
        // the ASCII parser knows no escape sequences: nothing arrives
        specs.clear();
        fw = 8;
        fh = 16;
    }
    // completion schedule for the model (the real one is the OS scheduler's): a random ordered partition of the arrivals
    let mut ids: Vec<usize> = live_sixels(&specs);
    for i in (1..ids.len()).rev() {
        ids.swap(i, rng.below(i as u64 + 1) as usize);
    }
    let mut groups: Vec<Vec<String>> = vec![];
    for id in ids {
        if groups.is_empty() || rng.chance(1, 2) {
            groups.push(vec![]);
        }
        if rng.chance(1, 6) {
            groups.push(vec![]); // a sleep during which nothing finishes
        }
        groups.last_mut().unwrap().push(id.to_string());
    }
    let sched = if groups.is_empty() { "-".to_string() } else { groups.iter().map(|g| g.join(".")).collect::<Vec<_>>().join("/") };
    LoadCase { ext, fw, fh, sched, file, specs }
}

/// hand-made files: the zero-size shapes, a covering pile, many in a row
fn boundary_loads() -> Vec<LoadCase> {
    let mk = |ext: &str, seqs: &[(i64, i64, &[u8])]| {
        let mut file = vec![];
        let mut specs = vec![];
        for (x, y, dcs) in seqs {
            file.extend(format!("\x1b[{};{}H\x1bP", y + 1, x + 1).bytes());
            file.extend(*dcs);
            file.extend(b"\x1b\\");
            specs.push(Spec { px: *x as i32, py: *y as i32, payload: dcs.to_vec() });
        }
        let ids: Vec<String> = (0..specs.len()).map(|i| i.to_string()).collect();
        LoadCase { ext: ext.to_string(), fw: 8, fh: 16, sched: if ids.is_empty() { "-".into() } else { ids.join(".") }, file, specs }
    };
    let mut v = vec![
        mk("ans", &[]),
        mk("ans", &[(0, 0, b"q#1!4~")]),
        mk("ans", &[(0, 0, b"q??-??")]),
        mk("ans", &[(0, 0, b"q")]),
        mk("ans", &[(0, 0, b"q\"1;1;0;0")]),
        mk("ans", &[(0, 0, b"q?")]),
        mk("ans", &[(0, 0, b"q#1!4~"), (2, 1, b"q??-??"), (4, 2, b"q"), (6, 3, b"q\"1;1;0;0"), (8, 4, b"0;1q#2!20~-!20~")]),
        mk("pcb", &[(3, 3, b"q??-??"), (3, 3, b"q"), (0, 0, b"q#1!8~")]),
        mk("avt", &[(0, 0, b"q#1!8~-!8~"), (0, 0, b"q#2!16~-!16~-!16~"), (1, 0, b"q#3!8~")]),
        mk("ans", &[(0, 0, b"q#2!16~-!16~-!16~"), (0, 0, b"q#1!8~-!8~"), (1, 0, b"q#3!8~"), (0, 0, b"2q#4!100~-!100~-!100~-!100~")]),
        mk("ans", &[(0, 0, b"q#1!8~"), (0, 0, b"q "), (5, 5, b"q#1!8~")]),
        mk("msg", &[(79, 40, b"q~"), (0, 0, b"q\"1;1;9;17~")]),
        mk("an1", &[(1, 1, b"q\"1;1;8;16!8~-!8~-!8N"), (1, 1, b"q\"1;1;9;16!8~"), (1, 1, b"q\"1;1;8;17!8~")]),
    ];
    // no cursor moves at all: every sequence at (0,0)
    let mut c = mk("ans", &[]);
    for (i, dcs) in [&b"q~~"[..], b"q??", b"q-", b"q$"].iter().enumerate() {
        c.file.extend(b"\x1bP");
        c.file.extend(*dcs);
        c.file.extend(b"\x1b\\");
        c.specs.push(Spec { px: 0, py: 0, payload: dcs.to_vec() });
        c.sched = (0..=i).rev().map(|k| k.to_string()).collect::<Vec<_>>().join("/");
    }
    v.push(c);
    v
}

fn replay_load(s: &str) -> Option<LoadCase> {
    let parts: Vec<&str> = s.split('|').collect();
    if parts.len() < 5 {
        return None;
    }
    let mut specs = vec![];
    for p in &parts[5..] {
        if *p == "c" {
            specs.push(clear_marker());
            continue;
        }
        let f: Vec<&str> = p.split(',').collect();
        if f.len() != 3 {
            return None;
        }
        specs.push(Spec { px: f[0].parse().ok()?, py: f[1].parse().ok()?, payload: unhex(f[2]) });
    }
    Some(LoadCase { ext: parts[0].to_string(), fw: parts[1].parse().ok()?, fh: parts[2].parse().ok()?, sched: parts[3].to_string(), file: unhex(parts[4]), specs })
}

/// one DCS string at caret (px,py) on the terminal path: what `execute_dcs` hands to the decode thread
fn one_dcs(run: &mut Run, px: i32, py: i32, dcs: &[u8]) {
    gate_open(true);
    let replay = format!("d:{}|{}|{}", px, py, hex(dcs));
    let mut buf = Buffer::new((80, 25));
    buf.is_terminal_buffer = true;
    let mut caret = Caret::default();
    let mut parser = ansi::Parser::default();
    let text = format!("\x1b[{};{}H\x1bP{}\x1b\\", py + 1, px + 1, to_string(dcs));
    let dcs_owned = dcs.to_vec();
    let r = {
        let b = std::panic::AssertUnwindSafe((&mut buf, &mut caret, &mut parser));
        catch(move || {
            let b = b;
            let (buf, caret, parser) = b.0;
            let mut before = Position::default();
            let n = text.chars().count();
            for (k, ch) in text.chars().enumerate() {
                if k + dcs_owned.len() + 4 == n {
                    before = caret.get_position(); // just before ESC P
                }
                let _ = parser.print_char(buf, 0, caret, ch);
            }
            before
        })
    };
    let obs = match r {
        Err(loc) => {
            let k = panic_key(&loc);
            run.oracle_fail(&k, &replay, "the ANSI parser panicked on a DCS string");
            format!("panic {}", k)
        }
        Ok(before) => {
            let after = caret.get_position();
            match buf.sixel_threads.len() {
                0 => "nosixel".to_string(),
                1 => {
                    if before != after {
                        run.oracle_fail("dcs_caret", &replay, &format!("the caret moved from {:?} to {:?} while a sixel sequence was read", before, after));
                    }
                    match buf.sixel_threads.pop_front().unwrap().join() {
                        Err(_) => "sixel panic".to_string(),
                        Ok(Err(e)) => format!("sixel err {}", variant_name(e.downcast_ref::<ParserError>())),
                        Ok(Ok(sx)) => {
                            let (w, h, len) = (sx.get_width() as i64, sx.get_height() as i64, sx.picture_data.len() as i64);
                            if len != w * h * 4 {
                                run.oracle_fail("rect", &replay, &format!("picture_data.len()={} but width={} height={}", len, w, h));
                            }
                            if w > 0 && h > 0 {
                                run.nontrivial(fnv(replay.bytes().map(|b| b as u64)));
                            }
                            format!(
                                "sixel ok {} {} {} scale={},{} at={},{} caret={},{}",
                                w, h, len, sx.vertical_scale, sx.horizontal_scale, sx.position.x, sx.position.y, after.x, after.y
                            )
                        }
                    }
                }
                k => {
                    run.oracle_fail("sixel_spawn", &replay, &format!("one DCS string queued {} decodes", k));
                    format!("spawned {}", k)
                }
            }
        }
    };
    gate_open(false);
    run.count(&format!("dcs:{}", obs.split(' ').take(2).collect::<Vec<_>>().join("-")));
    run.case(&format!("sixelload dcs {} {} {}", px, py, hex(dcs)), &obs);
}

/// the `Sixel` struct as the terminal and the loader use it: pixel rectangle, cell rectangle, the covering test
fn geometry_cases(run: &mut Run, rng: &mut Rng, n: usize) {
    use icy_engine::Size;
    let mk = |k: usize, px: i32, py: i32, w: i32, h: i32| -> Sixel {
        if k % 2 == 0 {
            let mut s = Sixel::from_data((w, h), 1, 1, vec![]);
            s.position = Position::new(px, py);
            s
        } else {
            let mut s = Sixel::new(Position::new(px, py));
            if k % 4 == 1 {
                s.set_width(w);
                s.set_height(h);
            } else {
                s.set_size(Size::new(w, h));
            }
            s
        }
    };
    for k in 0..n {
        let (fw, fh) = *rng.pick(&[(8i32, 16i32), (8, 8), (8, 14), (9, 16), (5, 7), (12, 10), (16, 32), (1, 1)]);
        let dim = |rng: &mut Rng| match rng.below(6) {
            0 => 0,
            1 => rng.range(1, 9) as i32,
            2 => (rng.range(0, 6) as i32) * fw.max(fh) + rng.range(-1, 1).max(0) as i32,
            3 => rng.range(0, 1_000_000) as i32,
            _ => rng.range(0, 64) as i32,
        };
        let (px, py, w, h) = (rng.range(0, 79) as i32, rng.range(0, 60) as i32, dim(rng), dim(rng));
        let a = mk(k, px, py, w, h);
        let fd = Size::new(fw, fh);
        let sr = a.get_screen_rect(fd);
        let cr = a.as_rectangle(fd);
        if (a.get_width(), a.get_height()) != (w, h) || a.get_size() != Size::new(w, h) {
            run.oracle_fail("sixel_size_accessors", &format!("{} {}", w, h), "Sixel size accessors disagree");
        }
        run.case(
            &format!("sixelload geom {} {} {} {} {} {}", fw, fh, px, py, w, h),
            &format!(
                "screen={},{},{},{} cells={},{},{},{}",
                sr.start.x, sr.start.y, sr.size.width, sr.size.height, cr.start.x, cr.start.y, cr.size.width, cr.size.height
            ),
        );
        // the covering test on a nearby second rectangle (shared borders, one pixel more / less)
        let near = |rng: &mut Rng, v: i32| (v + rng.range(-2, 2) as i32).max(0);
        let (bx, by) = (near(rng, px), near(rng, py));
        let (bw, bh) = match rng.below(4) {
            0 => (w, h),
            1 => (near(rng, w), near(rng, h)),
            2 => ((w - (bx - px) * fw).max(0), (h - (by - py) * fh).max(0)), // same bottom-right corner
            _ => (dim(rng), dim(rng)),
        };
        let b = mk(k + 1, bx, by, bw, bh);
        let cov = sr.contains_rect(&b.get_screen_rect(fd));
        run.count(if cov { "geom:covers" } else { "geom:does-not-cover" });
        run.case(&format!("sixelload covers {} {} {} {} {} {} {} {} {} {}", fw, fh, px, py, w, h, bx, by, bw, bh), if cov { "T" } else { "F" });
    }
}

fn gen_dcs(rng: &mut Rng) -> Vec<u8> {
    let mut v: Vec<u8> = vec![];
    match rng.below(12) {
        0 => v.extend(rng.pick(&[&b"CTerm:Font:"[..], b"CTerm:Font:9:AAAA", b"1;0;0!z4142", b"!z", b"1!zq", b"q", b"", b";", b"1;", b"x", b"Q~", b"1;1p", b" q~"]).iter()),
        1 => {
            // random parameter characters
            for _ in 0..rng.range(0, 6) {
                v.push(*rng.pick(b"0123456789;;" as &[u8]));
            }
            v.push(*rng.pick(b"qqqq!z" as &[u8]));
            v.extend(gen_tokens(rng, 6));
        }
        _ => {
            v.extend(rng.pick(DCS_PARAMS).bytes());
            v.push(b'q');
            let pl = match rng.below(4) {
                0 => gen_tokens(rng, 12),
                1 => gen_structured(rng),
                2 => load_payload(rng, 1),
                _ => rng.pick(&boundary_payloads()).clone(),
            };
            v.extend(pl);
        }
    }
    // the DCS recorder ends at ESC: keep the string free of it (and of code points the byte protocol cannot carry)
    v.retain(|b| *b != 0x1b);
    v
}

fn one_input(run: &mut Run, input: &str) {
    let input = input.trim();
    if let Some(q) = input.strip_prefix("q:") {
        replay_scenario(run, q);
    } else if let Some(l) = input.strip_prefix("l:") {
        if let Some(c) = replay_load(l) {
            run_loads(run, &[c]);
        }
    } else if let Some(d) = input.strip_prefix("d:") {
        let f: Vec<&str> = d.split('|').collect();
        if f.len() == 3 {
            one_dcs(run, f[0].parse().unwrap_or(0), f[1].parse().unwrap_or(0), &unhex(f[2]));
        }
    } else {
        one_payload(run, &unhex(input));
    }
}

pub fn run(run: &mut Run, seed: u64, thorough: bool, replay: Option<&str>, corpus: &[String]) {
    install_hook();
    if let Some(r) = replay {
        if let Some(h) = r.trim().strip_prefix("child:") {
            // child mode: decode one payload under the parent's address-space limit, print the observation
            let (obs, _) = observe_parse(&unhex(h));
            println!("RESULT {}", obs);
            return;
        }
        one_input(run, r);
        return;
    }
    for c in corpus {
        one_input(run, c);
    }
    let mut rng = Rng::new(seed);

    // ---------------- (a) payloads
    for p in boundary_payloads() {
        one_payload(run, &p);
    }
    for _ in 0..(if thorough { 60_000 } else { 3000 }) {
        let p = gen_structured(&mut rng);
        one_payload(run, &p);
    }
    for _ in 0..(if thorough { 80_000 } else { 4000 }) {
        let max_tokens = if rng.chance(1, 10) { 80 } else { 16 };
        let p = gen_tokens(&mut rng, max_tokens);
        one_payload(run, &p);
    }
    for _ in 0..(if thorough { 40_000 } else { 1500 }) {
        let max_len = if rng.chance(1, 10) { 120 } else { 24 };
        let p = gen_stream(&mut rng, max_len);
        one_payload(run, &p);
    }
    // raster attributes after picture data (the decoded rows above the declared height must go)
    for p in late_raster_grid() {
        one_payload(run, &p);
    }
    for _ in 0..(if thorough { 40_000 } else { 2000 }) {
        let p = gen_late_raster(&mut rng);
        one_payload(run, &p);
    }
    // exhaustive small scope over a reduced alphabet (every control char, two data chars, digits, ';')
    let alphabet: &[u8] = b"~A?-$!#\";12";
    exhaustive(run, alphabet, if thorough { 5 } else { 3 });
    run.extra.push(("exhaustive_payload_len".into(), (if thorough { 5 } else { 3 }).to_string()));
    if thorough {
        // a few payloads whose numbers leave the modelled range (child process, address-space limit)
        for p in [&b"#2147483599;2;0;0;0~"[..], b"\"1;1;2147483599;1~", b"!2147483599~", b"!2000000~"] {
            one_payload(run, p);
        }
    }

    // ---------------- (c) file loading and the DCS hand-off
    let t_l = Instant::now();
    let mut loads = boundary_loads();
    for _ in 0..(if thorough { 12_000 } else { 700 }) {
        loads.push(gen_load_case(&mut rng));
    }
    run_loads(run, &loads);
    run.extra.push(("load_phase_ms".into(), t_l.elapsed().as_millis().to_string()));
    for _ in 0..(if thorough { 20_000 } else { 1200 }) {
        let d = gen_dcs(&mut rng);
        let (px, py) = (rng.range(0, 79) as i32, rng.range(0, 24) as i32);
        one_dcs(run, px, py, &d);
    }

    geometry_cases(run, &mut rng, if thorough { 20_000 } else { 1500 });

    // ---------------- (b) schedules
    let t_q = Instant::now();
    for k in 1..=4usize {
        let n_sets = if thorough { 13 } else { 5 };
        let sets = spec_sets(&mut rng, k, n_sets);
        let perms = permutations(k);
        for specs in sets.iter() {
            let n_err = specs.len(); // enough closing polls even if every decode fails
            for perm in &perms {
                for mask in 0..(1u32 << k) {
                    let lead = (mask as usize + perm[0]) % 3 == 0;
                    scenario(run, specs, &canonical(k, perm, mask, lead, 1 + n_err));
                }
            }
        }
        // every ok / failing / panicking / running assignment meeting ONE poll
        batch_family(run, k, &[0, 1, 2]);
        // a clear-screen while decodes are in flight / after some were shown: nothing that arrived before it may appear
        for (j, perm) in perms.iter().enumerate() {
            let specs = &sets[j % sets.len()];
            for cut in 0..=k {
                // `cut` completions (each followed by a poll), clear, the remaining completions, polls, then one more arrival
                let mut ev: Vec<Ev> = (0..k).map(Ev::Arrive).collect();
                for &i in &perm[..cut] {
                    ev.push(Ev::Finish(i));
                    ev.push(Ev::Poll);
                }
                ev.push(Ev::Clear((j + cut) as u8 % 3));
                ev.push(Ev::Poll);
                for &i in &perm[cut..] {
                    ev.push(Ev::Finish(i));
                    ev.push(Ev::Poll);
                }
                ev.push(Ev::Arrive(perm[0]));
                ev.push(Ev::Poll);
                ev.push(Ev::Finish(perm[0]));
                ev.push(Ev::Poll);
                scenario(run, specs, &ev);
            }
        }
        // arrivals interleaved with completions and polls
        for _ in 0..(if thorough { 2500 } else { 300 }) {
            let sets = spec_sets(&mut rng, k, 9);
            let specs = rng.pick(&sets).clone();
            let ev = random_events(&mut rng, k);
            scenario(run, &specs, &ev);
        }
    }
    cover_family(run);
    if thorough {
        // a decode that runs for ~1 s and then FAILS (`result?`): the cursor overflow payload, an overflow panic
        // before the three cursor fixes (no payload is known to panic any more: theorem `sixel_total`)
        let specs = vec![
            Spec { px: 0, py: 0, payload: block_payload(1, 8, 2) },
            Spec { px: 0, py: 0, payload: b"!357913942-~".to_vec() },
            Spec { px: 1, py: 0, payload: block_payload(3, 8, 1) },
        ];
        scenario(run, &specs, &canonical(3, &[2, 1, 0], 0b111, true, 2));
        scenario(run, &specs, &canonical(3, &[1, 0, 2], 0b101, false, 2));
    }
    run.extra.push(("queue_phase_ms".into(), t_q.elapsed().as_millis().to_string()));
    run.extra.push(("exhaustive_orders_and_poll_placements".into(), format!("k<=4: all k! completion orders x all 2^k poll placements ({} geometry sets per k)", if thorough { 13 } else { 5 })));
    run.extra.push(("blocked_polls".into(), BLOCKED_SCENARIOS.load(Ordering::SeqCst).to_string()));
}
