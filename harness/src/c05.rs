//! C05: binary art formats (XBin, BIN, ArtWorx ADF, iCE Draw IDF, Tundra) reproduce what was saved.
//!
//! A case is a whole picture: format, ice mode, width, options (SAUCE on/off, compression on/off), palette,
//! font table and the cells (character, fg, bg, attribute flags, font page).  The REAL crate saves it
//! (`Buffer::to_bytes(ext, lossless options)`) and loads the file back (`Buffer::from_bytes`).
//!
//! correspondence (ops/impl):
//!   `binformats save <case> <date>`            bytes of the file vs the Lean model writer (byte exact)
//!   `binformats load <fmt> <hex>`              what `from_bytes` made of a file (engine-written and mutated) vs the model loader:
//!                                          buffer size, layer size, allocated rows, ice mode, every cell, palette, fonts
//!   `binformats rt <case> <date>`              the model's verdict (Representable? save? load? same picture?) vs the harness's
//!   `binformats resave <fmt> <opts> <date> <hex>`  load -> save -> load on the model vs on the implementation
//! oracle (the property itself, on the implementation only):
//!   * `to_bytes -> from_bytes` of every representable picture: width, height, every cell's character, displayed fg/bg RGB
//!     (through the palettes), blink, font page, ice mode, embedded font glyphs and palette; no allocated rows outside the picture;
//!   * independent decoders written from doc/FileFormats (x_bin.htm, ArtworxDataFormat.txt, idv_103.pas; BIN = raw pairs)
//!     read the engine-written bytes and must see the saved picture;
//!   * re-save stability: `from_bytes -> to_bytes -> from_bytes` equals the first load, on engine-written files and on mutated
//!     engine-written files the loader still accepts.
use crate::doc::{join, parse_ints, CellSpec, LayerSpec};
use crate::util::*;
use icy_engine::{AttributedChar, BitFont, Buffer, Color, IceMode, Palette, SauceData, SauceString, SaveOptions, TextAttribute, TextPane, SAUCE_FONT_NAMES};
use std::collections::{BTreeMap, BTreeSet};
use std::path::Path;

#[derive(Clone, Copy, PartialEq, Eq, Debug, Hash, PartialOrd, Ord)]
pub enum Fmt {
    Xb,
    Bin,
    Adf,
    Idf,
    Tnd,
}

impl Fmt {
    fn ext(self) -> &'static str {
        match self {
            Fmt::Xb => "xb",
            Fmt::Bin => "bin",
            Fmt::Adf => "adf",
            Fmt::Idf => "idf",
            Fmt::Tnd => "tnd",
        }
    }
    fn parse(s: &str) -> Option<Fmt> {
        Some(match s {
            "xb" => Fmt::Xb,
            "bin" => Fmt::Bin,
            "adf" => Fmt::Adf,
            "idf" => Fmt::Idf,
            "tnd" => Fmt::Tnd,
            _ => return None,
        })
    }
    /// does the format carry its own font and palette?
    fn embeds(self) -> bool {
        matches!(self, Fmt::Xb | Fmt::Adf | Fmt::Idf)
    }
}

const ALL: [Fmt; 5] = [Fmt::Xb, Fmt::Bin, Fmt::Adf, Fmt::Idf, Fmt::Tnd];

#[derive(Clone, Copy, PartialEq, Eq, Hash, Debug, PartialOrd, Ord)]
pub struct Cell {
    ch: u32,
    fg: u32,
    bg: u32,
    flags: u16,
    page: usize,
}

#[derive(Clone, Copy, PartialEq, Eq, Debug, Hash)]
pub enum FontSpec {
    Default,
    Gen(u8, u32), // height, seed
    Sauce(usize), // index into SAUCE_FONT_NAMES
}

/// the buffer's own SAUCE data as `write_sauce_info` writes it: the three text fields padded to their length, the comment
/// lines padded to 64 bytes, the two display flags
#[derive(Clone, Debug, PartialEq, Eq, Hash)]
pub struct Meta {
    title: Vec<u8>,
    author: Vec<u8>,
    group: Vec<u8>,
    comments: Vec<Vec<u8>>,
    ar: bool,
    ls: bool,
}

pub type Rgb = (u8, u8, u8);

#[derive(Clone, Debug)]
pub struct Case {
    fmt: Fmt,
    ice: u8,   // 0 Unlimited, 1 Blink, 2 Ice
    w: usize,
    opts: u8,  // bit0: save SAUCE, bit1: compress
    pal: Option<Vec<Rgb>>, // None = the DOS default palette
    fonts: Vec<(usize, FontSpec)>,
    cells: Vec<Cell>,
    meta: Option<Meta>,
}

const BOLD: u16 = 1;
const BLINK: u16 = 8;
const INVISIBLE: u16 = 0x8000;
const B36: &[u8] = b"0123456789abcdefghijklmnopqrstuvwxyz";
const DEFAULT_FONT_NAME: &str = "Codepage 437 English";

// ------------------------------------------------------------------ tokens

fn cell_str(c: &Cell) -> String {
    format!("{}.{}.{}.{}.{}", c.ch, c.fg, c.bg, c.flags, c.page)
}

fn pal_str(p: &Option<Vec<Rgb>>) -> String {
    match p {
        None => "d".to_string(),
        Some(v) => {
            let mut s = String::from("p");
            for (r, g, b) in v {
                s.push_str(&format!("{:02x}{:02x}{:02x}", r, g, b));
            }
            s
        }
    }
}

fn fonts_str(f: &[(usize, FontSpec)]) -> String {
    if f.is_empty() {
        return "-".to_string();
    }
    f.iter()
        .map(|(s, f)| match f {
            FontSpec::Default => format!("{}.d", s),
            FontSpec::Gen(h, seed) => format!("{}.g{}.{}", s, h, seed),
            FontSpec::Sauce(i) => format!("{}.s{}", s, i),
        })
        .collect::<Vec<_>>()
        .join(",")
}

/// `<fmt>:<ice>:<w>:<opts>:<palette>:<fonts>:<alphabet>:<symbols>`
pub fn token(c: &Case) -> String {
    let mut alpha: Vec<Cell> = Vec::new();
    let mut idx = Vec::with_capacity(c.cells.len());
    let mut small = true;
    for cell in &c.cells {
        match alpha.iter().position(|a| a == cell) {
            Some(i) => idx.push(i),
            None => {
                if alpha.len() == 36 {
                    small = false;
                    break;
                }
                alpha.push(*cell);
                idx.push(alpha.len() - 1);
            }
        }
    }
    let head = format!("{}:{}:{}:{}:{}:{}", c.fmt.ext(), c.ice, c.w, c.opts, pal_str(&c.pal), fonts_str(&c.fonts));
    let tail = match &c.meta {
        None => String::new(),
        Some(m) => format!(
            ":{}/{}/{}/{}/{}{}",
            hex(&m.title),
            hex(&m.author),
            hex(&m.group),
            if m.comments.is_empty() { "-".to_string() } else { m.comments.iter().map(|c| hex(c)).collect::<Vec<_>>().join(",") },
            m.ar as u8,
            m.ls as u8
        ),
    };
    if small {
        let a: Vec<String> = alpha.iter().map(cell_str).collect();
        let s: String = idx.iter().map(|i| B36[*i] as char).collect();
        format!("{}:{}:{}{}", head, a.join(","), s, tail)
    } else {
        let a: Vec<String> = c.cells.iter().map(cell_str).collect();
        format!("{}:{}:*{}", head, a.join(","), tail)
    }
}

fn parse_meta(s: &str) -> Option<Meta> {
    let p: Vec<&str> = s.split('/').collect();
    if p.len() != 5 || p[4].len() != 2 {
        return None;
    }
    let comments = if p[3] == "-" { Vec::new() } else { p[3].split(',').map(unhex).collect() };
    Some(Meta { title: unhex(p[0]), author: unhex(p[1]), group: unhex(p[2]), comments, ar: &p[4][0..1] == "1", ls: &p[4][1..2] == "1" })
}

pub fn parse_token(t: &str) -> Option<Case> {
    let p: Vec<&str> = t.trim().split(':').collect();
    if p.len() != 8 && p.len() != 9 {
        return None;
    }
    let meta = if p.len() == 9 { Some(parse_meta(p[8])?) } else { None };
    let fmt = Fmt::parse(p[0])?;
    let ice: u8 = p[1].parse().ok()?;
    let w: usize = p[2].parse().ok()?;
    let opts: u8 = p[3].parse().ok()?;
    let pal = if p[4] == "d" {
        None
    } else {
        let hx = p[4].strip_prefix('p')?;
        if hx.len() % 6 != 0 {
            return None;
        }
        let b = unhex(if hx.is_empty() { "-" } else { hx });
        Some(b.chunks(3).map(|c| (c[0], c[1], c[2])).collect())
    };
    let mut fonts = Vec::new();
    if p[5] != "-" {
        for f in p[5].split(',') {
            let q: Vec<&str> = f.split('.').collect();
            let slot: usize = q.first()?.parse().ok()?;
            if q.len() == 2 && q[1] == "d" {
                fonts.push((slot, FontSpec::Default));
            } else if q.len() == 2 && q[1].starts_with('s') {
                let i: usize = q[1][1..].parse().ok()?;
                if i >= SAUCE_FONT_NAMES.len() {
                    return None;
                }
                fonts.push((slot, FontSpec::Sauce(i)));
            } else if q.len() == 3 && q[1].starts_with('g') {
                fonts.push((slot, FontSpec::Gen(q[1][1..].parse().ok()?, q[2].parse().ok()?)));
            } else {
                return None;
            }
        }
    }
    let mut alpha = Vec::new();
    for c in p[6].split(',') {
        let f: Vec<&str> = c.split('.').collect();
        if f.len() != 5 {
            return None;
        }
        alpha.push(Cell { ch: f[0].parse().ok()?, fg: f[1].parse().ok()?, bg: f[2].parse().ok()?, flags: f[3].parse().ok()?, page: f[4].parse().ok()? });
    }
    let cells: Vec<Cell> = if p[7] == "*" {
        alpha
    } else {
        let mut v = Vec::new();
        for b in p[7].bytes() {
            let i = B36.iter().position(|x| *x == b)?;
            v.push(*alpha.get(i)?);
        }
        v
    };
    if w == 0 || cells.is_empty() || cells.len() % w != 0 || ice > 2 {
        return None;
    }
    Some(Case { fmt, ice, w, opts, pal, fonts, cells, meta })
}

// ------------------------------------------------------------------ building the buffer

fn ice_of(i: u8) -> IceMode {
    match i {
        0 => IceMode::Unlimited,
        1 => IceMode::Blink,
        _ => IceMode::Ice,
    }
}

fn ice_num(m: IceMode) -> u8 {
    match m {
        IceMode::Unlimited => 0,
        IceMode::Blink => 1,
        IceMode::Ice => 2,
    }
}

/// synthetic font glyph data, the same formula as `genFontData` in Drv/BinFormats.lean
pub fn gen_font_data(h: u8, seed: u32) -> Vec<u8> {
    let h = h as usize;
    (0..256 * h).map(|i| ((i * 7 + (i / h.max(1)) * 31 + (seed as usize) * 13 + (i % 5) * (seed as usize)) % 256) as u8).collect()
}

fn gen_font_name(h: u8, seed: u32) -> String {
    format!("G{}x{}", h, seed)
}

fn make_font(f: &FontSpec) -> BitFont {
    match f {
        FontSpec::Default => BitFont::default(),
        FontSpec::Gen(h, seed) => BitFont::create_8(gen_font_name(*h, *seed), 8, *h, &gen_font_data(*h, *seed)),
        FontSpec::Sauce(i) => BitFont::from_sauce_name(SAUCE_FONT_NAMES[*i]).unwrap(),
    }
}

/// a `SauceString` holding what `read` makes of a padded field
fn sauce_str<const LEN: usize, const EMPTY: u8>(bytes: &[u8]) -> SauceString<LEN, EMPTY> {
    let mut d = bytes.to_vec();
    d.resize(LEN, EMPTY);
    let mut s = SauceString::<LEN, EMPTY>::new();
    s.read(&d);
    s
}

/// the bytes `append_to` writes for a `SauceString`
fn sauce_bytes<const LEN: usize, const EMPTY: u8>(s: &SauceString<LEN, EMPTY>) -> Vec<u8> {
    let mut v = Vec::new();
    s.append_to(&mut v);
    v
}

fn make_sauce(m: &Meta) -> SauceData {
    let mut d = SauceData::default();
    d.title = sauce_str(&m.title);
    d.author = sauce_str(&m.author);
    d.group = sauce_str(&m.group);
    d.comments = m.comments.iter().map(|c| sauce_str(c)).collect();
    d.use_aspect_ratio = m.ar;
    d.use_letter_spacing = m.ls;
    d
}

fn meta_of(d: &SauceData) -> Meta {
    Meta {
        title: sauce_bytes(&d.title),
        author: sauce_bytes(&d.author),
        group: sauce_bytes(&d.group),
        comments: d.comments.iter().map(sauce_bytes).collect(),
        ar: d.use_aspect_ratio,
        ls: d.use_letter_spacing,
    }
}

/// a font name as SAUCE bytes (`SauceString::from`: CP437, `?` for anything else), without a length cut
fn name_bytes(name: &str) -> Vec<u8> {
    let mut out = Vec::new();
    let chars: Vec<char> = name.chars().collect();
    for ch in chars.chunks(60) {
        let s: SauceString<64, 0> = SauceString::from(ch.iter().collect::<String>());
        let mut v = sauce_bytes(&s);
        v.truncate(ch.len());
        out.extend(v);
    }
    out
}

fn dos_palette() -> Vec<Rgb> {
    let p = Palette::dos_default();
    (0..p.len() as u32).map(|i| p.get_rgb(i)).collect()
}

fn build(case: &Case) -> Buffer {
    let h = case.cells.len() / case.w;
    let mut buf = Buffer::new((case.w as i32, h as i32));
    buf.is_terminal_buffer = false;
    buf.ice_mode = ice_of(case.ice);
    if let Some(p) = &case.pal {
        let cols: Vec<Color> = p.iter().map(|(r, g, b)| Color::new(*r, *g, *b)).collect();
        buf.palette = Palette::from_slice(&cols);
    }
    buf.clear_font_table();
    for (slot, f) in &case.fonts {
        buf.set_font(*slot, make_font(f));
    }
    for (i, c) in case.cells.iter().enumerate() {
        let mut a = TextAttribute::new(c.fg, c.bg);
        a.attr = c.flags;
        a.set_font_page(c.page);
        let ch = char::from_u32(c.ch).unwrap_or('?');
        buf.layers[0].set_char(((i % case.w) as i32, (i / case.w) as i32), AttributedChar::new(ch, a));
    }
    if let Some(m) = &case.meta {
        buf.set_sauce(Some(make_sauce(m)), false);
    }
    buf
}

// ------------------------------------------------------------------ observing a buffer

#[derive(Clone, Debug, PartialEq)]
pub struct Pic {
    w: i32,
    h: i32,
    lw: i32,
    lh: i32,
    lc: i32,
    ice: u8,
    cells: Vec<Cell>, // w*h cells through Buffer::get_char, row-major (empty when the area is unreasonable)
    big: bool,
    pal: Vec<Rgb>,
    fonts: BTreeMap<usize, (i32, Vec<u8>)>, // slot -> (height, glyph bytes of codes 0..length)
    names: BTreeMap<usize, Vec<u8>>,        // slot -> font name as SAUCE bytes
    meta: Option<Meta>,                     // the SAUCE data the buffer keeps
}

const MAX_AREA: i64 = 60_000;
const MAX_ROWS: i32 = 4000;

fn get_cell(b: &Buffer, x: i32, y: i32) -> Cell {
    let c = b.get_char((x, y));
    Cell { ch: c.ch as u32, fg: c.attribute.get_foreground(), bg: c.attribute.get_background(), flags: c.attribute.attr, page: c.get_font_page() }
}

pub(crate) fn observe(b: &Buffer) -> Pic {
    let (w, h) = (b.get_width(), b.get_height());
    let area = w as i64 * h as i64;
    // (tall pictures too: the model's row access is linear in the row number)
    let big = w < 0 || h < 0 || area > MAX_AREA || h > MAX_ROWS;
    let mut cells = Vec::new();
    if !big {
        cells.reserve(area as usize);
        for y in 0..h {
            for x in 0..w {
                cells.push(get_cell(b, x, y));
            }
        }
    }
    let pal = (0..b.palette.len() as u32).map(|i| b.palette.get_rgb(i)).collect();
    let mut fonts = BTreeMap::new();
    let mut names = BTreeMap::new();
    for (slot, f) in b.font_iter() {
        fonts.insert(*slot, (f.size.height, f.convert_to_u8_data()));
        names.insert(*slot, name_bytes(&f.name));
    }
    let meta = b.get_sauce().as_ref().map(meta_of);
    Pic { w, h, lw: b.layers[0].get_width(), lh: b.layers[0].get_height(), lc: b.get_line_count(), ice: ice_num(b.ice_mode), cells, big, pal, fonts, names, meta }
}

fn cells_hash(cells: &[Cell]) -> u64 {
    let mut h = 14695981039346656037u64;
    for c in cells {
        for v in [c.ch as u64, c.fg as u64, c.bg as u64, c.flags as u64, c.page as u64] {
            h = fnv_step(h, v);
        }
    }
    h
}

/// the line the model must reproduce for a loaded buffer
pub(crate) fn digest(p: &Pic) -> String {
    let pal = fnv(p.pal.iter().flat_map(|(r, g, b)| [*r as u64, *g as u64, *b as u64]));
    let fonts: Vec<String> = p
        .fonts
        .iter()
        .map(|(s, (h, d))| format!("{}.{}.{}.{}", s, h, fnv(d.iter().map(|b| *b as u64)), fnv(p.names[s].iter().map(|b| *b as u64))))
        .collect();
    let sauce = match &p.meta {
        None => "-".to_string(),
        Some(m) => {
            let mut v: Vec<u64> = Vec::new();
            v.extend(m.title.iter().map(|b| *b as u64));
            v.extend(m.author.iter().map(|b| *b as u64));
            v.extend(m.group.iter().map(|b| *b as u64));
            v.push(m.comments.len() as u64);
            for c in &m.comments {
                v.extend(c.iter().map(|b| *b as u64));
            }
            v.push(m.ar as u64);
            v.push(m.ls as u64);
            fnv(v).to_string()
        }
    };
    format!(
        "ok {} {} {} {} {} {} {} {} {} {} {}",
        p.w,
        p.h,
        p.lw,
        p.lh,
        p.lc,
        p.ice,
        if p.big { "big".to_string() } else { cells_hash(&p.cells).to_string() },
        p.pal.len(),
        pal,
        if fonts.is_empty() { "-".to_string() } else { fonts.join(",") },
        sauce
    )
}

// ------------------------------------------------------------------ the real crate: save / load

fn save_opts(opts: u8) -> SaveOptions {
    let mut o = SaveOptions::new();
    o.compress = opts & 2 != 0;
    o.save_sauce = opts & 1 != 0;
    o.lossles_output = true;
    o
}

fn save(buf: &Buffer, fmt: Fmt, opts: u8) -> Result<Vec<u8>, String> {
    let o = save_opts(opts);
    match catch(std::panic::AssertUnwindSafe(|| buf.to_bytes(fmt.ext(), &o))) {
        Ok(Ok(v)) => Ok(v),
        Ok(Err(e)) => Err(format!("err:{}", e)),
        Err(loc) => Err(format!("panic:{}", panic_site(&loc))),
    }
}

fn load(fmt: Fmt, bytes: &[u8]) -> Result<Buffer, String> {
    let name = format!("a.{}", fmt.ext());
    match catch(std::panic::AssertUnwindSafe(|| Buffer::from_bytes(Path::new(&name), false, bytes))) {
        Ok(Ok(b)) => Ok(b),
        Ok(Err(e)) => Err(format!("err:{}", e)),
        Err(loc) => Err(format!("panic:{}", panic_site(&loc))),
    }
}

/// the 8 date bytes of the SAUCE record at the end of an engine-written file ("19700101" if there is none)
fn sauce_date(bytes: &[u8]) -> String {
    if bytes.len() >= 128 && &bytes[bytes.len() - 128..bytes.len() - 123] == b"SAUCE" {
        let d = &bytes[bytes.len() - 128 + 82..bytes.len() - 128 + 90];
        if d.iter().all(|b| b.is_ascii_digit()) {
            return String::from_utf8_lossy(d).to_string();
        }
    }
    "19700101".to_string()
}

// ------------------------------------------------------------------ the property's predicate on two pictures

fn rgb(pal: &[Rgb], c: u32) -> Rgb {
    if c & (1 << 31) != 0 {
        ((c >> 16) as u8, (c >> 8) as u8, c as u8)
    } else if (c as usize) < pal.len() {
        pal[c as usize]
    } else {
        (0, 0, 0)
    }
}

/// the colour `render_to_rgba` paints foreground pixels with
fn disp_fg(pal: &[Rgb], c: &Cell) -> Rgb {
    rgb(pal, if c.flags & BOLD != 0 && c.fg < 8 { c.fg + 8 } else { c.fg })
}

fn disp_bg(pal: &[Rgb], c: &Cell) -> Rgb {
    rgb(pal, c.bg)
}

/// "the same picture": (key suffix, text) of the first difference of every kind.  `strict` (save -> load of a picture the
/// harness built): font page NUMBERS are kept.  Not strict (re-save of a loaded file): every cell is drawn from the same
/// glyphs — a 512-character XBin that only uses its second font comes back as a one-font file with that font in slot 0.
fn compare(fmt: Fmt, a: &Pic, b: &Pic, strict: bool) -> Vec<(String, String)> {
    let mut f: Vec<(String, String)> = Vec::new();
    if a.w != b.w {
        f.push(("width".into(), format!("width {} became {}", a.w, b.w)));
    }
    if a.h != b.h {
        f.push(("height".into(), format!("height {} became {}", a.h, b.h)));
    }
    if b.lc > b.h {
        f.push(("line-count".into(), format!("{} rows are allocated in a buffer of height {}", b.lc, b.h)));
    }
    if (a.ice == 2) != (b.ice == 2) {
        f.push(("mode".into(), format!("ice mode {} became {}", a.ice, b.ice)));
    }
    if a.w == b.w && a.h == b.h && !a.big && !b.big {
        let mut seen: BTreeSet<&'static str> = BTreeSet::new();
        for (i, (p, q)) in a.cells.iter().zip(b.cells.iter()).enumerate() {
            let (x, y) = (i as i32 % a.w, i as i32 / a.w);
            let mut d: Vec<(&'static str, String)> = Vec::new();
            if p.ch != q.ch {
                d.push(("cell-char", format!("character {} became {}", p.ch, q.ch)));
            }
            if disp_fg(&a.pal, p) != disp_fg(&b.pal, q) {
                d.push(("cell-fg", format!("foreground {:?} became {:?}", disp_fg(&a.pal, p), disp_fg(&b.pal, q))));
            }
            if disp_bg(&a.pal, p) != disp_bg(&b.pal, q) {
                d.push(("cell-bg", format!("background {:?} became {:?}", disp_bg(&a.pal, p), disp_bg(&b.pal, q))));
            }
            if (p.flags & BLINK != 0) != (q.flags & BLINK != 0) {
                d.push(("cell-blink", format!("blink {} became {}", p.flags & BLINK != 0, q.flags & BLINK != 0)));
            }
            if strict || !fmt.embeds() {
                if p.page != q.page {
                    d.push(("cell-page", format!("font page {} became {}", p.page, q.page)));
                }
            } else if let Some(fa) = a.fonts.get(&p.page) {
                if b.fonts.get(&q.page) != Some(fa) {
                    d.push(("cell-font", format!("the glyphs of font page {} are not those of font page {} after the round trip", p.page, q.page)));
                }
            }
            for (k, t) in d {
                if seen.insert(k) {
                    f.push((k.to_string(), format!("cell ({},{}) [{}] -> [{}]: {}", x, y, cell_str(p), cell_str(q), t)));
                }
            }
        }
    }
    if fmt.embeds() {
        let pages: BTreeSet<usize> = if strict { a.cells.iter().map(|c| c.page).collect() } else { BTreeSet::new() };
        for p in pages {
            match (a.fonts.get(&p), b.fonts.get(&p)) {
                (Some(x), Some(y)) if x == y => {}
                (Some(x), Some(y)) => {
                    f.push(("font".into(), format!("font {} (height {}, {} bytes) differs after the round trip (height {}, {} bytes)", p, x.0, x.1.len(), y.0, y.1.len())));
                    break;
                }
                (Some(_), None) => {
                    f.push(("font".into(), format!("font {} is missing after the round trip", p)));
                    break;
                }
                _ => {}
            }
        }
        if a.pal.len() != b.pal.len() || (0..16).any(|i| rgb(&a.pal, i) != rgb(&b.pal, i)) {
            f.push(("palette".into(), format!("palette {:?} became {:?}", a.pal, b.pal)));
        }
    }
    f
}

// ------------------------------------------------------------------ Representable: the property's quantifier, per format

fn six_bit(v: u8) -> bool {
    let s = v >> 2;
    (s << 2 | s >> 4) == v
}

fn font_ok(f: &FontSpec) -> bool {
    match f {
        FontSpec::Default | FontSpec::Sauce(_) => true,
        FontSpec::Gen(h, _) => (1..=32).contains(h),
    }
}

fn font_height(f: &FontSpec) -> u8 {
    match f {
        FontSpec::Default => 16,
        FontSpec::Gen(h, _) => *h,
        FontSpec::Sauce(i) => BitFont::from_sauce_name(SAUCE_FONT_NAMES[*i]).unwrap().size.height as u8,
    }
}

/// `cells` = what `Buffer::get_char` answers for the case's buffer (an invisible layer cell shows as the default cell)
pub fn representable(c: &Case, cells: &[Cell]) -> bool {
    let c = &Case { cells: cells.to_vec(), ..c.clone() };
    let h = c.cells.len() / c.w;
    let font = |slot: usize| c.fonts.iter().rev().find(|(s, _)| *s == slot).map(|(_, f)| *f);
    let pages: BTreeSet<usize> = c.cells.iter().map(|x| x.page).collect();
    let pal16 = match &c.pal {
        None => true,
        Some(p) => p.len() == 16 && p.iter().all(|(r, g, b)| six_bit(*r) && six_bit(*g) && six_bit(*b)),
    };
    let is_dos = match &c.pal {
        None => true,
        Some(p) => *p == dos_palette(),
    };
    // (cells are what Buffer::get_char answers: an invisible one lies outside every layer; the attribute-byte formats write it
    // like any other cell, Tundra skips it)
    let common = c.cells.iter().all(|x| x.ch <= 255 && (c.fmt != Fmt::Tnd || x.flags & INVISIBLE == 0)) && c.meta.as_ref().map(|m| m.comments.len() <= 255).unwrap_or(true);
    // attribute byte formats: 16 colours, bit 7 = blink or bright background
    let attr_ok = |ice: u8| {
        c.cells.iter().all(|x| x.fg < 16 && if ice == 2 { x.bg < 16 && x.flags & BLINK == 0 } else { x.bg < 8 })
    };
    if !common || h == 0 {
        return false;
    }
    match c.fmt {
        Fmt::Xb => {
            let two = pages.len() == 2;
            (1..=4096).contains(&c.w)
                && h <= 65535
                && (c.ice == 1 || c.ice == 2)
                && attr_ok(c.ice)
                && pal16
                && (pages == BTreeSet::from([0]) || pages == BTreeSet::from([0, 1]))
                && pages.iter().all(|p| font(*p).map(|f| font_ok(&f)).unwrap_or(false))
                && (!two || (font_height(&font(0).unwrap()) == font_height(&font(1).unwrap()) && c.cells.iter().all(|x| x.fg < 8 && x.flags & BOLD == 0)))
        }
        Fmt::Bin => {
            c.w % 2 == 0 && (2..=510).contains(&c.w) && c.opts & 1 != 0 && attr_ok(c.ice) && is_dos && pages == BTreeSet::from([0]) && font(0).is_some()
        }
        Fmt::Adf => {
            c.w == 80 && c.ice == 2 && attr_ok(2) && pal16 && pages == BTreeSet::from([0]) && font(0).map(|f| font_height(&f) == 16 && font_ok(&f)).unwrap_or(false)
        }
        Fmt::Idf => {
            (1..=80).contains(&c.w)
                && h <= 200
                && c.ice == 2
                && attr_ok(2)
                && pal16
                && pages == BTreeSet::from([0])
                && font(0).map(|f| font_height(&f) == 16 && font_ok(&f)).unwrap_or(false)
        }
        Fmt::Tnd => {
            (c.w == 80 || (c.opts & 1 != 0 && c.w <= 65535))
                && c.cells.len() < (1 << 30) // palette indices of the loaded cells stay below the direct-colour bit
                && c.ice == 2
                && pages == BTreeSet::from([0])
                && (c.opts & 1 == 0 || font(0).is_some())
                && c.cells.iter().all(|x| x.flags & BLINK == 0 && x.fg < (1 << 31) && x.bg < (1 << 31))
        }
    }
}

// ------------------------------------------------------------------ independent decoders written from the format documents

/// what a format document says a file shows: size, (character, fg index, bg index, blink, font) per cell, 16 palette
/// entries as 6-bit VGA values, font bytes per font
struct Spec {
    w: usize,
    h: usize,
    cells: Vec<(u8, u8, u8, bool, u8)>,
    pal6: Option<Vec<u8>>,
    fonts: Vec<Vec<u8>>,
    ice: Option<bool>,
}

/// strip `EOF [+ COMNT block] + SAUCE00 record` (sauce.txt: the comment block, if the record counts any lines, sits right
/// in front of the record, the EOF character in front of that)
fn strip_sauce(d: &[u8]) -> (&[u8], Option<&[u8]>) {
    if d.len() >= 129 && &d[d.len() - 128..d.len() - 121] == b"SAUCE00" {
        let n = d[d.len() - 128 + 104] as usize;
        let extra = if n > 0 { 5 + 64 * n } else { 0 };
        if d.len() >= 129 + extra && d[d.len() - 129 - extra] == 0x1A && (n == 0 || &d[d.len() - 128 - extra..d.len() - 123 - extra] == b"COMNT") {
            return (&d[..d.len() - 129 - extra], Some(&d[d.len() - 128..]));
        }
    }
    (d, None)
}

fn strip_pad(v: &[u8]) -> &[u8] {
    let mut n = v.len();
    while n > 0 && (v[n - 1] == 0 || v[n - 1] == b' ') {
        n -= 1;
    }
    &v[..n]
}

/// title / author / group / comments as `SauceString`'s own equality compares them (trailing blanks and NULs never count)
fn meta_same(a: &Meta, b: &Meta) -> bool {
    strip_pad(&a.title) == strip_pad(&b.title)
        && strip_pad(&a.author) == strip_pad(&b.author)
        && strip_pad(&a.group) == strip_pad(&b.group)
        && a.comments.len() == b.comments.len()
        && a.comments.iter().zip(b.comments.iter()).all(|(x, y)| strip_pad(x) == strip_pad(y))
}

fn default_meta() -> Meta {
    meta_of(&SauceData::default())
}

/// `SauceData::extract` finds a record at the end of the file
fn tail_reads_as_sauce(b: &[u8]) -> bool {
    matches!(catch(std::panic::AssertUnwindSafe(|| SauceData::extract(b))), Ok(Ok(Some(_))))
}

fn attr_cell(ch: u8, attr: u8, ice: bool) -> (u8, u8, u8, bool, u8) {
    if ice {
        (ch, attr & 15, attr >> 4, false, 0)
    } else {
        (ch, attr & 15, (attr >> 4) & 7, attr & 0x80 != 0, 0)
    }
}

/// doc/FileFormats/x_bin.htm
fn spec_xbin(d: &[u8]) -> Result<Spec, String> {
    let (d, _) = strip_sauce(d);
    if d.len() < 11 || &d[0..4] != b"XBIN" || d[4] != 0x1A {
        return Err("bad header".into());
    }
    let w = d[5] as usize + ((d[6] as usize) << 8);
    let h = d[7] as usize + ((d[8] as usize) << 8);
    let fs = if d[9] == 0 { 16 } else { d[9] as usize };
    let flags = d[10];
    if flags & 0xE0 != 0 {
        return Err("unused flag bits set".into());
    }
    let (has_pal, has_font, comp, nonblink, c512) = (flags & 1 != 0, flags & 2 != 0, flags & 4 != 0, flags & 8 != 0, flags & 16 != 0);
    if c512 && !has_font {
        return Err("512Chars without Font bit".into());
    }
    let mut o = 11;
    let mut pal6 = None;
    if has_pal {
        if o + 48 > d.len() {
            return Err("palette beyond EOF".into());
        }
        pal6 = Some(d[o..o + 48].to_vec());
        o += 48;
    }
    let mut fonts = Vec::new();
    if has_font {
        for _ in 0..if c512 { 2 } else { 1 } {
            if o + fs * 256 > d.len() {
                return Err("font beyond EOF".into());
            }
            fonts.push(d[o..o + fs * 256].to_vec());
            o += fs * 256;
        }
    }
    let img = &d[o..];
    let mut pairs: Vec<(u8, u8)> = Vec::with_capacity(w * h);
    if comp {
        let mut o = 0usize;
        for y in 0..h {
            let mut x = 0usize;
            while x < w {
                if o >= img.len() {
                    return Err(format!("data ends inside row {}", y));
                }
                let b = img[o];
                o += 1;
                let n = (b & 0x3F) as usize + 1;
                if x + n > w {
                    return Err(format!("run of {} cells at row {} column {} crosses the row end", n, y, x));
                }
                let need = match b >> 6 {
                    0 => 2 * n,
                    1 | 2 => 1 + n,
                    _ => 2,
                };
                if o + need > img.len() {
                    return Err("run payload beyond end of data".into());
                }
                for i in 0..n {
                    pairs.push(match b >> 6 {
                        0 => (img[o + 2 * i], img[o + 2 * i + 1]),
                        1 => (img[o], img[o + 1 + i]),
                        2 => (img[o + 1 + i], img[o]),
                        _ => (img[o], img[o + 1]),
                    });
                }
                o += need;
                x += n;
            }
        }
        if o != img.len() {
            return Err(format!("{} bytes follow the last row", img.len() - o));
        }
    } else {
        if img.len() != 2 * w * h {
            return Err(format!("image data has {} bytes, {} expected", img.len(), 2 * w * h));
        }
        for i in 0..w * h {
            pairs.push((img[2 * i], img[2 * i + 1]));
        }
    }
    let cells = pairs
        .iter()
        .map(|(c, a)| {
            let (ch, fg, bg, bl, _) = attr_cell(*c, *a, nonblink);
            if c512 {
                (ch, fg & 7, bg, bl, (fg >> 3) & 1)
            } else {
                (ch, fg, bg, bl, 0)
            }
        })
        .collect();
    Ok(Spec { w, h, cells, pal6, fonts, ice: Some(nonblink) })
}

/// the VGA attribute controller's default palette registers: colour i of a text attribute shows DAC register EGA[i]
const EGA_REGS: [usize; 16] = [0, 1, 2, 3, 4, 5, 20, 7, 56, 57, 58, 59, 60, 61, 62, 63];

/// doc/FileFormats/Adf/ArtworxDataFormat.txt: version byte, 64 RGB registers, 4096 font bytes, char/attribute pairs of 80 columns
fn spec_adf(d: &[u8]) -> Result<Spec, String> {
    let (d, _) = strip_sauce(d);
    if d.len() < 1 + 192 + 4096 {
        return Err("shorter than the control structure".into());
    }
    if d[0] != 1 {
        return Err("version".into());
    }
    let regs = &d[1..193];
    let mut pal6 = Vec::new();
    for r in EGA_REGS {
        pal6.extend_from_slice(&regs[3 * r..3 * r + 3]);
    }
    let font = d[193..193 + 4096].to_vec();
    let img = &d[193 + 4096..];
    if img.len() % 160 != 0 {
        return Err(format!("{} bytes of screen data are not a whole number of 80-column lines", img.len()));
    }
    let cells = img.chunks(2).map(|p| attr_cell(p[0], p[1], true)).collect();
    Ok(Spec { w: 80, h: img.len() / 160, cells, pal6: Some(pal6), fonts: vec![font], ice: Some(true) })
}

/// doc/FileFormats/IceDraw/idv_103.pas (LoadPic): header, words; word 1 = "do x repeats of y"; then font and palette.
/// The viewer is fixed to 80 columns; the width used here is the header's x2 - x1 + 1.
fn spec_idf(d: &[u8]) -> Result<Spec, String> {
    let (d, _) = strip_sauce(d);
    if d.len() < 12 + 4096 + 48 {
        return Err("too short".into());
    }
    if &d[0..4] != b"\x041.4" && &d[0..4] != b"\x041.3" {
        return Err("version".into());
    }
    let rd = |o: usize| d[o] as usize + ((d[o + 1] as usize) << 8);
    let (x1, y1, x2, y2) = (rd(4), rd(6), rd(8), rd(10));
    if x1 != 0 || y1 != 0 {
        return Err("bounds do not start at 0,0".into());
    }
    let w = x2 + 1;
    let end = d.len() - 4096 - 48;
    let mut o = 12;
    let mut words: Vec<u16> = Vec::new();
    while o < end {
        if o + 2 > end {
            return Err("odd screen data".into());
        }
        let v = rd(o) as u16;
        o += 2;
        if v == 1 {
            if o + 4 > end {
                return Err("repeat cut off".into());
            }
            let n = rd(o);
            let y = rd(o + 2) as u16;
            o += 4;
            for _ in 0..n {
                words.push(y);
            }
        } else {
            words.push(v);
        }
    }
    if words.len() % w != 0 {
        return Err(format!("{} cells are not a whole number of {}-column lines", words.len(), w));
    }
    let h = words.len() / w;
    if h != y2 + 1 {
        return Err(format!("{} lines of data, header says {}", h, y2 + 1));
    }
    let cells = words.iter().map(|v| attr_cell(*v as u8, (*v >> 8) as u8, true)).collect();
    Ok(Spec { w, h, cells, pal6: Some(d[end + 4096..].to_vec()), fonts: vec![d[end..end + 4096].to_vec()], ice: Some(true) })
}

/// BIN: raw character/attribute pairs; SAUCE DataType 5: FileType = width / 2, flag bit 0 = non-blink
fn spec_bin(d: &[u8]) -> Result<Spec, String> {
    let (d, s) = strip_sauce(d);
    let s = s.ok_or("no SAUCE record")?;
    if s[94] != 5 {
        return Err("SAUCE DataType is not BinaryText".into());
    }
    let w = s[95] as usize * 2;
    let ice = s[105] & 1 != 0;
    if w == 0 || d.len() % (2 * w) != 0 {
        return Err(format!("{} bytes are not a whole number of {}-column lines", d.len(), w));
    }
    let cells = d.chunks(2).map(|p| attr_cell(p[0], p[1], ice)).collect();
    Ok(Spec { w, h: d.len() / (2 * w), cells, pal6: None, fonts: vec![], ice: Some(ice) })
}

/// does the document's reading of the file show the saved picture?
fn spec_check(case: &Case, src: &Pic, bytes: &[u8]) -> Vec<(String, String)> {
    let spec = match case.fmt {
        Fmt::Xb => spec_xbin(bytes),
        Fmt::Adf => spec_adf(bytes),
        Fmt::Idf => spec_idf(bytes),
        Fmt::Bin => spec_bin(bytes),
        Fmt::Tnd => return vec![],
    };
    let mut f = Vec::new();
    let s = match spec {
        Ok(s) => s,
        Err(e) => return vec![("spec-invalid".into(), e)],
    };
    if s.w as i32 != src.w || s.h as i32 != src.h {
        f.push(("spec-size".into(), format!("the file describes {}x{}, the picture is {}x{}", s.w, s.h, src.w, src.h)));
        return f;
    }
    if let Some(ice) = s.ice {
        if ice != (case.ice == 2) {
            f.push(("spec-mode".into(), format!("the file says non-blink = {}, the buffer's mode is {}", ice, case.ice)));
        }
    }
    let pal: Vec<Rgb> = match &s.pal6 {
        Some(p) => p.chunks(3).map(|c| (c[0], c[1], c[2])).collect(),
        None => dos_palette().iter().map(|(r, g, b)| (r >> 2, g >> 2, b >> 2)).collect(),
    };
    for (i, (c, q)) in src.cells.iter().zip(s.cells.iter()).enumerate() {
        let fg = disp_fg(&src.pal, c);
        let bg = disp_bg(&src.pal, c);
        let want = (c.ch, (fg.0 >> 2, fg.1 >> 2, fg.2 >> 2), (bg.0 >> 2, bg.1 >> 2, bg.2 >> 2), c.flags & BLINK != 0, c.page);
        let got = (q.0 as u32, rgb(&pal, q.1 as u32), rgb(&pal, q.2 as u32), q.3, q.4 as usize);
        if want != got {
            f.push(("spec-cells".into(), format!("cell ({},{}) [{}] reads as {:?} (char, 6-bit fg, 6-bit bg, blink, font) per the format document, expected {:?}", i as i32 % src.w, i as i32 / src.w, cell_str(c), got, want)));
            break;
        }
    }
    if !s.fonts.is_empty() {
        let pages: BTreeSet<usize> = src.cells.iter().map(|c| c.page).collect();
        for p in pages {
            if let (Some(a), Some(b)) = (src.fonts.get(&p), s.fonts.get(p)) {
                if a.1 != *b {
                    f.push(("spec-font".into(), format!("font {} in the file differs from the buffer's font", p)));
                }
            }
        }
    }
    f
}

// ------------------------------------------------------------------ one case

pub struct Outcome {
    rep: bool,
    bytes: Result<Vec<u8>, String>,
    loaded: Option<Result<Pic, String>>,
    failures: Vec<(String, String)>, // (key, what) — failures of the property on a representable picture
    same: bool,                      // the round trip reproduced the picture (whether representable or not)
}

fn key(fmt: Fmt, suffix: &str) -> String {
    format!("{}:{}", fmt.ext(), suffix)
}

pub fn eval(case: &Case) -> Outcome {
    eval_buf(case, build(case))
}

/// a buffer with a stack of layers: the frame of `base` (format, mode, width, options, palette, fonts, SAUCE data; its cells
/// are not used), `h` rows, the layers bottom first
#[derive(Clone, Debug)]
pub struct LCase {
    base: Case,
    h: usize,
    layers: Vec<LayerSpec>,
}

fn ltoken(c: &LCase) -> String {
    let b = &c.base;
    let meta = match &b.meta {
        None => "-".to_string(),
        Some(_) => {
            let t = token(&Case { cells: vec![Cell { ch: 32, fg: 7, bg: 0, flags: 0, page: 0 }; b.w], ..b.clone() });
            t.rsplit(':').next().unwrap().to_string()
        }
    };
    let mut ints: Vec<i64> = vec![c.layers.len() as i64];
    for l in &c.layers {
        l.encode(&mut ints);
    }
    format!("layers:{}:{}:{}:{}:{}:{}:{}:{}:{}", b.fmt.ext(), b.ice, b.w, c.h, b.opts, pal_str(&b.pal), fonts_str(&b.fonts), meta, join(&ints, ","))
}

fn parse_ltoken(t: &str) -> Option<LCase> {
    let p: Vec<&str> = t.trim().split(':').collect();
    if p.len() != 10 || p[0] != "layers" {
        return None;
    }
    let w: usize = p[3].parse().ok()?;
    let h: usize = p[4].parse().ok()?;
    if w == 0 || h == 0 {
        return None;
    }
    let filler = "32.7.0.0.0";
    let syms: String = std::iter::repeat('0').take(w).collect();
    let mut base_tok = format!("{}:{}:{}:{}:{}:{}:{}:{}", p[1], p[2], p[3], p[5], p[6], p[7], filler, syms);
    if p[8] != "-" {
        base_tok.push(':');
        base_tok.push_str(p[8]);
    }
    let base = parse_token(&base_tok)?;
    let ints = parse_ints(p[9])?;
    let mut it = ints.into_iter();
    let n = it.next()?;
    let mut layers = Vec::new();
    for _ in 0..n {
        layers.push(LayerSpec::decode(&mut it)?);
    }
    Some(LCase { base, h, layers })
}

fn build_layered(c: &LCase) -> Buffer {
    let frame = Case { cells: vec![Cell { ch: 32, fg: 7, bg: 0, flags: 0, page: 0 }; c.base.w * c.h], ..c.base.clone() };
    let mut buf = build(&frame);
    buf.layers.clear();
    for l in &c.layers {
        buf.layers.push(l.build());
    }
    buf
}

/// correspondence (`binlayers save` / `binlayers rt`) and oracle for a buffer with a layer stack: the reference picture is
/// `Buffer::get_char` over the buffer, exactly what the property compares the loaded file with
fn one_layered(run: &mut Run, c: &LCase) {
    let buf = build_layered(c);
    let frame = Case { cells: vec![Cell { ch: 32, fg: 7, bg: 0, flags: 0, page: 0 }; c.base.w * c.h], ..c.base.clone() };
    let out = eval_buf(&frame, buf);
    let tok = ltoken(c);
    let date = match &out.bytes {
        Ok(b) => sauce_date(b),
        Err(_) => "19700101".to_string(),
    };
    run.case(&format!("binlayers save {} {}", tok, date), &show_bytes(&out.bytes, true));
    let verdict = format!(
        "rep={} save={} load={} same={}",
        out.rep as u8,
        match &out.bytes {
            Ok(_) => "ok",
            Err(e) => canon(e),
        },
        match &out.loaded {
            Some(Ok(_)) => "ok",
            Some(Err(_)) => "rej",
            None => "-",
        },
        out.same as u8
    );
    run.case(&format!("binlayers rt {} {}", tok, date), &verdict);
    run.nontrivial(fnv(tok.bytes().map(|b| b as u64)));
    run.count(&format!("layers:{}:{}", c.base.fmt.ext(), if out.rep { "representable" } else { "not-representable" }));
    run.count(&format!("layers:n={}", c.layers.len()));
    if c.layers.iter().any(|l| l.alpha) {
        run.count("layers:alpha");
    }
    if c.layers.iter().any(|l| l.ox != 0 || l.oy != 0) {
        run.count("layers:offset");
    }
    if c.layers.iter().any(|l| l.mode != 0) {
        run.count("layers:chars/attributes-mode");
    }
    for (k, what) in &out.failures {
        run.oracle_fail(k, &tok, what);
    }
}

/// 1..=3 layers: a base layer of about the buffer size, upper layers smaller, shifted (also partly outside the buffer), with an
/// alpha channel (holes of invisible cells), now and then hidden, of `Chars` / `Attributes` mode, or without alpha channel
fn random_layered(rng: &mut Rng, fmt: Fmt) -> LCase {
    let mut base = random_case(rng, fmt, 400);
    let w = base.w;
    let h = (base.cells.len() / w).max(1);
    let pages: Vec<usize> = {
        let mut v: Vec<usize> = base.cells.iter().map(|c| c.page).collect();
        v.sort_unstable();
        v.dedup();
        v
    };
    let ice = base.ice;
    let npal = base.pal.as_ref().map(|p| p.len()).unwrap_or(16) as u64;
    let mut cell = |rng: &mut Rng| -> CellSpec {
        let v = rng.next();
        let fg = ((v >> 8) % if fmt == Fmt::Tnd { npal.max(1) } else { 16 }) as u32;
        let bg = ((v >> 16) % if fmt == Fmt::Tnd { npal.max(1) } else if ice == 2 { 16 } else { 8 }) as u32;
        let mut flags = 0u16;
        if (v >> 24) & 7 == 0 && pages.len() < 2 {
            flags |= BOLD;
        }
        CellSpec { ch: if rng.chance(1, 8) { rng.below(7) as u32 } else { (v & 0xFF) as u32 }, fg: if pages.len() == 2 { fg & 7 } else { fg }, bg, flags, page: *rng.pick(&pages) }
    };
    let n = rng.range(1, 3) as usize;
    let mut layers = Vec::new();
    for i in 0..n {
        let (lw, lh, ox, oy) = if i == 0 && rng.chance(3, 4) {
            (w as i32, h as i32, 0, 0)
        } else {
            (rng.range(1, w as i64 + 2) as i32, rng.range(1, h as i64 + 2) as i32, rng.range(-2, w as i64) as i32, rng.range(-2, h as i64) as i32)
        };
        let alpha = i > 0 && rng.chance(3, 4);
        let hole = if alpha { rng.range(10, 60) as u64 } else if rng.chance(1, 4) { 10 } else { 0 };
        let rows: Vec<Vec<Option<CellSpec>>> = (0..lh).map(|_| (0..lw).map(|_| if rng.below(100) < hole { None } else { Some(cell(rng)) }).collect()).collect();
        layers.push(LayerSpec {
            visible: !rng.chance(1, 10),
            alpha,
            mode: if i > 0 && rng.chance(1, 6) { 1 + rng.below(2) as u8 } else { 0 },
            ox,
            oy,
            w: lw,
            h: lh,
            dflt: 0,
            rows,
        });
    }
    base.cells.truncate(w);
    LCase { base, h, layers }
}

fn eval_buf(case: &Case, buf: Buffer) -> Outcome {
    let src = observe(&buf);
    let rep = representable(case, &src.cells);
    let bytes = save(&buf, case.fmt, case.opts);
    let mut failures = Vec::new();
    let mut loaded = None;
    let mut same = false;
    match &bytes {
        Ok(b) => {
            let l = load(case.fmt, b);
            match &l {
                Ok(lb) => {
                    let dst = observe(lb);
                    let diffs = compare(case.fmt, &src, &dst, true);
                    same = diffs.is_empty();
                    if rep && !same && case.opts & 1 == 0 && tail_reads_as_sauce(b) {
                        // a file written WITHOUT a SAUCE record whose tail (picture content) SauceData::extract takes for one
                        failures.push((key(case.fmt, "content-reads-as-sauce"), format!("the last 128 bytes of the file are picture data that read as a SAUCE record; from_bytes cuts them off ({}x{} loads as {}x{})", src.w, src.h, dst.w, dst.h)));
                    } else if rep && case.fmt == Fmt::Tnd && case.w > 1000 && dst.w == 80 {
                        // Buffer::set_sauce distrusts SAUCE widths above 1000 (one finding, not a width + height + cells cascade)
                        failures.push((key(case.fmt, "sauce-width>1000"), format!("a Tundra picture {} columns wide loads {} columns wide: set_sauce replaces a SAUCE width above 1000 by 80", src.w, dst.w)));
                    } else if rep {
                        for (k, t) in diffs {
                            failures.push((key(case.fmt, &k), t));
                        }
                    }
                    if rep && case.opts & 1 != 0 {
                        // SAUCE-carrying save: title, author, group and the comment lines come back with the buffer
                        let want = case.meta.clone().unwrap_or_else(default_meta);
                        match &dst.meta {
                            Some(got) if meta_same(&want, got) => {}
                            got => failures.push((key(case.fmt, "sauce-meta"), format!("SAUCE data {:?} came back as {:?}", want, got))),
                        }
                        // BIN has no font block: a font that SAUCE can name (TInfoS) comes back by that name
                        if case.fmt == Fmt::Bin {
                            if let Some((_, FontSpec::Default | FontSpec::Sauce(_))) = case.fonts.iter().rev().find(|(s, _)| *s == 0) {
                                if src.fonts.get(&0) != dst.fonts.get(&0) {
                                    failures.push((key(case.fmt, "font-by-name"), format!("font 0 ({:?}) is not the font the loaded buffer has in slot 0", buf.get_font(0).map(|f| f.name.clone()))));
                                }
                            }
                        }
                    }
                    loaded = Some(Ok(dst));
                }
                Err(e) => {
                    if rep {
                        failures.push((key(case.fmt, "load-rejected"), format!("the engine's own file does not load: {}", e)));
                    }
                    loaded = Some(Err(e.clone()));
                }
            }
            if rep {
                for (k, t) in spec_check(case, &src, b) {
                    failures.push((key(case.fmt, &k), t));
                }
            }
        }
        Err(e) => {
            if rep {
                failures.push((key(case.fmt, if e.starts_with("panic") { "save-panic" } else { "save-refused" }), format!("a representable picture is not saved: {}", e)));
            }
        }
    }
    Outcome { rep, bytes, loaded, failures, same }
}

fn canon(e: &str) -> &'static str {
    if e.starts_with("panic") {
        "panic"
    } else {
        "err"
    }
}

/// load -> save -> load on the implementation.  Returns (line for the model tie, failures)
fn resave(fmt: Fmt, opts: u8, bytes: &[u8]) -> (String, String, Vec<(String, String)>) {
    let mut failures = Vec::new();
    let first = match load(fmt, bytes) {
        Ok(b) => b,
        Err(_) => return ("rej".into(), "19700101".into(), failures),
    };
    let p1 = observe(&first);
    if p1.big {
        return ("big".into(), "19700101".into(), failures);
    }
    let second = match save(&first, fmt, opts) {
        Ok(b) => b,
        Err(e) => {
            if e.starts_with("panic") {
                failures.push((key(fmt, "resave-panic"), format!("saving a loaded file panics: {}", e)));
            } else if !refusal_expected(fmt, &p1, opts) {
                failures.push((key(fmt, "resave-refused"), format!("a loaded file ({}x{}) cannot be saved again: {}", p1.w, p1.h, e)));
            }
            return (format!("save-{}", canon(&e)), "19700101".into(), failures);
        }
    };
    let date = sauce_date(&second);
    let head = format!("{} {}", second.len(), fnv(second.iter().map(|b| *b as u64)));
    match load(fmt, &second) {
        Ok(b2) => {
            let p2 = observe(&b2);
            let mut diffs = compare(fmt, &p1, &p2, false);
            // formats without a height field: a picture WITHOUT ROWS comes back as the 25 default rows (one finding per format)
            if p1.h == 0 && p2.h != 0 && !diffs.is_empty() {
                diffs = vec![("height0".into(), format!("a loaded picture without rows ({}x0) is {}x{} after save and load", p1.w, p2.w, p2.h))];
            } else if opts & 1 == 0 && tail_reads_as_sauce(&second) && !diffs.is_empty() {
                diffs = vec![("content-reads-as-sauce".into(), "the re-saved file (written without a SAUCE record) ends in picture data that reads as one".into())];
            } else if fmt == Fmt::Bin && opts & 1 == 0 && p1.w != 160 {
                diffs.clear(); // BIN stores its width in the SAUCE record only (the quantifier: "with SAUCE")
            } else if fmt == Fmt::Tnd && opts & 1 == 0 && p1.w != 80 {
                diffs.clear(); // the same for Tundra
            }
            let line = format!("{} {} same={}", head, digest(&p2), if compare(fmt, &p1, &p2, false).is_empty() { 1 } else { 0 });
            for (k, t) in diffs {
                failures.push((key(fmt, &format!("resave-{}", k)), t));
            }
            if opts & 1 != 0 {
                // the SAUCE data of the first load survives the re-save
                match (&p1.meta, &p2.meta) {
                    (Some(a), Some(b)) if meta_same(a, b) => {}
                    (None, Some(b)) if meta_same(&default_meta(), b) => {}
                    (a, b) => failures.push((key(fmt, "resave-sauce-meta"), format!("SAUCE data {:?} became {:?}", a, b))),
                }
            }
            (line, date, failures)
        }
        Err(e) => {
            failures.push((key(fmt, "resave-rejected"), format!("the re-saved file does not load: {}", e)));
            (format!("{} rej2", head), date, failures)
        }
    }
}

/// loaded pictures the format's writer cannot hold by its own rules: iCE Draw more than 200 rows; BIN an odd width or more than
/// 510 columns (the SAUCE record stores width / 2 in a byte) — and iCE Draw with a SAUCE record above 510 columns too: its writer
/// appends the BIN kind of record (a header that announces such a width is outside the format, which is 80 columns wide)
fn refusal_expected(fmt: Fmt, p: &Pic, opts: u8) -> bool {
    match fmt {
        Fmt::Idf => p.h > 200 || (opts & 1 != 0 && p.w > 510),
        Fmt::Bin => p.w % 2 != 0 || p.w > 510,
        _ => false,
    }
}

/// a compressed XBin whose image data ends right after the header byte of a Char/Attr/Full run: `bytes[o]` panics on
/// the tree as pinned; C02's bounds fix turns that into "stop reading and accept".  Outside C05's model either way.
fn xb_cut_run_header(d: &[u8]) -> bool {
    let (d, _) = strip_sauce(d);
    if d.len() < 11 || &d[0..4] != b"XBIN" || d[10] & 4 == 0 {
        return false;
    }
    let fs = if d[9] == 0 { 16 } else { d[9] as usize };
    let mut o = 11;
    if d[10] & 1 != 0 {
        o += 48;
    }
    if d[10] & 2 != 0 {
        o += fs * 256 * if d[10] & 16 != 0 { 2 } else { 1 };
    }
    if o > d.len() {
        return false;
    }
    let b = &d[o..];
    let mut o = 0usize;
    while o < b.len() {
        let t = b[o] >> 6;
        let n = (b[o] & 63) as usize + 1;
        o += 1;
        match t {
            0 => o += 2 * n,
            1 | 2 => {
                if o >= b.len() {
                    return true;
                }
                o += 1 + n;
            }
            _ => {
                if o >= b.len() {
                    return true;
                }
                o += 2;
            }
        }
    }
    false
}

fn file_token(fmt: Fmt, opts: u8, bytes: &[u8]) -> String {
    format!("file:{}:{}:{}", fmt.ext(), opts, hex(bytes))
}

/// correspondence + oracle for one file (engine-written or mutated)
fn one_file(run: &mut Run, fmt: Fmt, opts: u8, bytes: &[u8], mutated: bool) {
    if fmt == Fmt::Xb && xb_cut_run_header(bytes) {
        run.count("skipped:xb-cut-run-header");
        return;
    }
    let l = load(fmt, bytes);
    let line = match &l {
        Ok(b) => digest(&observe(b)),
        Err(_) => "rej".to_string(),
    };
    run.case(&format!("binformats load {} {}", fmt.ext(), hex(bytes)), &line);
    run.count(&format!("{}:{}", fmt.ext(), if l.is_ok() { if mutated { "mutated-accepted" } else { "file-accepted" } } else { "mutated-rejected" }));
    if let Ok(b) = &l {
        // very wide XBin rows are re-saved raw: the model of compress_backtrack (C06) is quadratic in the row width
        let opts = if fmt == Fmt::Xb && b.get_width() > 600 { opts & !2 } else { opts };
        let (line, date, failures) = resave(fmt, opts, bytes);
        run.case(&format!("binformats resave {} {} {} {}", fmt.ext(), opts, date, hex(bytes)), &line);
        for (k, t) in failures {
            run.oracle_fail(&k, &file_token(fmt, opts, bytes), &t);
        }
    }
}

fn show_bytes(r: &Result<Vec<u8>, String>, hashed: bool) -> String {
    match r {
        Ok(v) if hashed => format!("{} {}", v.len(), fnv(v.iter().map(|b| *b as u64))),
        Ok(v) => hex(v),
        Err(e) => canon(e).to_string(),
    }
}

fn mutate(rng: &mut Rng, src: &[u8]) -> Vec<u8> {
    let mut m = src.to_vec();
    // the SAUCE date field is left alone (chrono's parser is not modelled)
    let date = if m.len() >= 128 && &m[m.len() - 128..m.len() - 123] == b"SAUCE" { Some((m.len() - 128 + 82, m.len() - 128 + 90)) } else { None };
    let pick = |rng: &mut Rng, n: usize| -> usize {
        loop {
            // bias towards the head (headers) and the tail (SAUCE) of the file
            let i = match rng.below(4) {
                0 => rng.below(n.min(16) as u64) as usize,
                1 => n - 1 - rng.below(n.min(129) as u64) as usize,
                _ => rng.below(n as u64) as usize,
            };
            if let Some((a, b)) = date {
                if i >= a && i < b {
                    continue;
                }
            }
            return i;
        }
    };
    if m.is_empty() {
        return m;
    }
    let n = m.len();
    match rng.below(8) {
        0 => {
            let i = pick(rng, n);
            m[i] = rng.next() as u8;
        }
        1 => {
            let i = pick(rng, n);
            m[i] ^= 1 << rng.below(8);
        }
        2 => {
            let i = pick(rng, n);
            m[i] = *rng.pick(&[0u8, 1, 2, 4, 6, 0xFF, 0x1A, 0x80]);
        }
        3 => {
            // truncate (keeps or drops the SAUCE record)
            let k = rng.below(n as u64) as usize;
            m.truncate(k);
        }
        4 => {
            // cut bytes out of the body, keep the tail
            let tail = if date.is_some() { 129 } else { 0 };
            if n > tail + 1 {
                let i = rng.below((n - tail) as u64) as usize;
                let k = 1 + rng.below(((n - tail - i).min(8)) as u64) as usize;
                m.drain(i..(i + k).min(n - tail));
            }
        }
        5 => {
            // insert bytes into the body
            let tail = if date.is_some() { 129 } else { 0 };
            let i = rng.below((n - tail + 1) as u64) as usize;
            let k = 1 + rng.below(4) as usize;
            for _ in 0..k {
                m.insert(i, *rng.pick(&[0u8, 1, 2, 4, 6, 0x41, 0xFF]));
            }
        }
        6 => {
            let i = pick(rng, n);
            let j = pick(rng, n);
            m.swap(i, j);
        }
        _ => {
            // drop the SAUCE record's EOF char / the whole record
            if date.is_some() {
                if rng.chance(1, 2) {
                    m.truncate(n - 129);
                } else {
                    m.remove(n - 129);
                }
            } else {
                m.push(rng.next() as u8);
            }
        }
    }
    m
}

fn one(run: &mut Run, case: &Case, rng: &mut Rng, n_mut: usize) {
    let out = eval(case);
    let tok = token(case);
    let date = match &out.bytes {
        Ok(b) => sauce_date(b),
        Err(_) => "19700101".to_string(),
    };
    let big = case.cells.len() > 200 || case.fmt.embeds();
    run.case(&format!("binformats save{} {} {}", if big { "h" } else { "" }, tok, date), &show_bytes(&out.bytes, big));
    let verdict = format!(
        "rep={} save={} load={} same={}",
        out.rep as u8,
        match &out.bytes {
            Ok(_) => "ok",
            Err(e) => canon(e),
        },
        match &out.loaded {
            Some(Ok(_)) => "ok",
            Some(Err(_)) => "rej",
            None => "-",
        },
        out.same as u8
    );
    run.case(&format!("binformats rt {} {}", tok, date), &verdict);
    run.nontrivial(fnv(tok.bytes().map(|b| b as u64)));
    if let Ok(b) = &out.bytes {
        if b.len() <= 60_000 {
            one_file(run, case.fmt, case.opts, b, false);
            for _ in 0..n_mut {
                let m = mutate(rng, b);
                one_file(run, case.fmt, case.opts, &m, true);
            }
        }
    }
    // histogram
    let h = case.cells.len() / case.w;
    run.count(&format!("{}:cases", case.fmt.ext()));
    run.count(&format!("{}:{}", case.fmt.ext(), if out.rep { "representable" } else { "not-representable" }));
    run.count(&format!("ice={}", case.ice));
    run.count(match h {
        1 => "h=1",
        2..=24 => "h2..24",
        25 => "h=25",
        _ => "h>25",
    });
    run.count(match case.w {
        1..=10 => "w<=10",
        11..=79 => "w11..79",
        80 => "w=80",
        81..=510 => "w81..510",
        _ => "w>510",
    });
    if case.opts & 1 != 0 {
        run.count("sauce");
    }
    if case.opts & 2 != 0 {
        run.count("compress");
    }
    if out.bytes.is_err() {
        run.count(&format!("{}:save-refused", case.fmt.ext()));
    }
    for (k, what) in &out.failures {
        let (inp, what2) = shrink(case, k, what);
        run.oracle_fail(k, &inp, &what2);
    }
}

/// smaller reproduction with the same key: fewer rows, fewer columns (where the format allows), plainer cells
fn shrink(case: &Case, key: &str, what: &str) -> (String, String) {
    let fails = |c: &Case| -> Option<String> { eval(c).failures.iter().find(|(k, _)| k == key).map(|(_, w)| w.clone()) };
    let mut best = case.clone();
    let mut what_best = what.to_string();
    let mut budget = 200;
    // rows: keep one row, or drop rows from the end
    loop {
        let h = best.cells.len() / best.w;
        if h <= 1 || budget == 0 {
            break;
        }
        let mut progressed = false;
        for keep in [1usize, h / 2, h - 1] {
            if keep == 0 || keep >= h {
                continue;
            }
            budget -= 1;
            let mut t = best.clone();
            t.cells.truncate(keep * t.w);
            if let Some(w2) = fails(&t) {
                best = t;
                what_best = w2;
                progressed = true;
                break;
            }
        }
        if !progressed {
            // a single row from the middle
            let mut found = false;
            for y in 0..h.min(30) {
                budget -= 1;
                let mut t = best.clone();
                t.cells = best.cells[y * best.w..(y + 1) * best.w].to_vec();
                if let Some(w2) = fails(&t) {
                    best = t;
                    what_best = w2;
                    found = true;
                    break;
                }
            }
            if !found {
                break;
            }
        }
    }
    // columns (not for the fixed-width formats)
    if !matches!(best.fmt, Fmt::Adf) {
        let step = if best.fmt == Fmt::Bin { 2 } else { 1 };
        while best.w > step && budget > 0 {
            budget -= 1;
            let h = best.cells.len() / best.w;
            let nw = if best.w > 8 { best.w / 2 / step * step } else { best.w - step };
            if nw == 0 {
                break;
            }
            let mut t = best.clone();
            t.w = nw;
            t.cells = (0..h).flat_map(|y| best.cells[y * best.w..y * best.w + nw].to_vec()).collect();
            match fails(&t) {
                Some(w2) => {
                    best = t;
                    what_best = w2;
                }
                None => {
                    if nw == best.w - step {
                        break;
                    }
                    // try the one-step shrink next
                    let nw = best.w - step;
                    let mut t = best.clone();
                    t.w = nw;
                    t.cells = (0..h).flat_map(|y| best.cells[y * best.w..y * best.w + nw].to_vec()).collect();
                    match fails(&t) {
                        Some(w2) => {
                            best = t;
                            what_best = w2;
                        }
                        None => break,
                    }
                }
            }
        }
    }
    // plainer cells
    let plain = Cell { ch: 0x41, fg: 7, bg: 0, flags: 0, page: 0 };
    if best.cells.len() <= 400 {
        for i in 0..best.cells.len() {
            if budget == 0 {
                break;
            }
            if best.cells[i] != plain {
                budget -= 1;
                let mut t = best.clone();
                t.cells[i] = plain;
                if let Some(w2) = fails(&t) {
                    best = t;
                    what_best = w2;
                }
            }
        }
    }
    (token(&best), what_best)
}

// ------------------------------------------------------------------ generators

fn six(v: u64) -> u8 {
    let s = (v % 64) as u8;
    s << 2 | s >> 4
}

fn random_palette(rng: &mut Rng, fmt: Fmt) -> Option<Vec<Rgb>> {
    match rng.below(10) {
        0..=3 => None,
        4..=7 => Some((0..16).map(|_| (six(rng.next()), six(rng.next()), six(rng.next()))).collect()),
        8 => {
            // 8-bit colours (not representable in the 6-bit formats) / odd lengths
            let n = *rng.pick(&[16usize, 16, 8, 17, 32]);
            Some((0..n).map(|_| (rng.next() as u8, rng.next() as u8, rng.next() as u8)).collect())
        }
        _ => {
            if fmt == Fmt::Tnd {
                let n = rng.range(1, 40) as usize;
                Some((0..n).map(|_| (rng.next() as u8, rng.next() as u8, rng.next() as u8)).collect())
            } else {
                Some(dos_palette())
            }
        }
    }
}

fn random_fonts(rng: &mut Rng, fmt: Fmt, pages: &[usize]) -> Vec<(usize, FontSpec)> {
    let mut v = Vec::new();
    let h16 = matches!(fmt, Fmt::Adf | Fmt::Idf);
    let hh = if h16 || rng.chance(1, 2) { 16 } else { *rng.pick(&[1u8, 8, 14, 16, 19, 32, 32, 33]) };
    for (i, p) in pages.iter().enumerate() {
        let f = if rng.chance(1, 2) && (i == 0 || hh == 16) { FontSpec::Default } else { FontSpec::Gen(if rng.chance(1, 12) { *rng.pick(&[8u8, 14, 16, 20]) } else { hh }, rng.below(50) as u32) };
        // a font SAUCE can name (BIN has no other way to carry a font; the others embed its glyphs)
        let f = if i == 0 && rng.chance(if fmt == Fmt::Bin { 1 } else { 1 }, if fmt == Fmt::Bin { 2 } else { 8 }) { FontSpec::Sauce(rng.below(SAUCE_FONT_NAMES.len() as u64) as usize) } else { f };
        v.push((*p, f));
    }
    if !pages.contains(&0) && rng.chance(3, 4) {
        v.insert(0, (0, FontSpec::Default));
    }
    if rng.chance(1, 10) {
        v.push((7, FontSpec::Gen(8, 3)));
    }
    v
}

fn pick_pages(rng: &mut Rng, fmt: Fmt) -> Vec<usize> {
    match fmt {
        Fmt::Xb => match rng.below(12) {
            0..=4 => vec![0],
            5..=8 => vec![0, 1],
            9 => vec![1],
            10 => vec![2, 5],
            _ => vec![0, 1, 2],
        },
        _ => match rng.below(12) {
            0..=9 => vec![0],
            10 => vec![3],
            _ => vec![0, 1],
        },
    }
}

fn pick_size(rng: &mut Rng, fmt: Fmt, max_cells: usize) -> (usize, usize) {
    let w = match fmt {
        Fmt::Xb => match rng.below(10) {
            0 => *rng.pick(&[1usize, 2, 63, 64, 65, 80, 160, 255, 256, 257, 1000, 4096]),
            1..=3 => rng.range(1, 12) as usize,
            _ => rng.range(1, 200) as usize,
        },
        Fmt::Bin => match rng.below(10) {
            0 => *rng.pick(&[2usize, 80, 160, 254, 256, 510, 512, 3]),
            _ => 2 * rng.range(1, 100) as usize,
        },
        Fmt::Adf => {
            if rng.chance(1, 15) {
                *rng.pick(&[79usize, 81, 40])
            } else {
                80
            }
        }
        Fmt::Idf => match rng.below(10) {
            0 => *rng.pick(&[1usize, 2, 79, 80, 81, 100]),
            1..=4 => rng.range(1, 12) as usize,
            _ => rng.range(1, 80) as usize,
        },
        Fmt::Tnd => match rng.below(10) {
            0 => *rng.pick(&[1usize, 80, 81, 132, 999, 1000, 1001]),
            1..=4 => rng.range(1, 12) as usize,
            _ => rng.range(1, 160) as usize,
        },
    };
    let mut h = match rng.below(10) {
        0 => 1,
        1 => *rng.pick(&[2usize, 3, 10, 24, 25, 26, 30, 50]),
        2..=6 => rng.range(1, 8) as usize,
        _ => rng.range(1, 40) as usize,
    };
    while w * h > max_cells && h > 1 {
        h -= 1;
    }
    (w, h)
}

fn random_case(rng: &mut Rng, fmt: Fmt, max_cells: usize) -> Case {
    let (w, h) = pick_size(rng, fmt, max_cells);
    // mode: mostly what the format stores
    let ice = match fmt {
        // no Unlimited XBin sources: XBin stores blink or ice, and the shared C06 model of `as_u8` predates the C18 fix for Unlimited
        Fmt::Xb => 1 + rng.below(2) as u8,
        Fmt::Bin => rng.below(3) as u8,
        _ => {
            if rng.chance(1, 12) {
                rng.below(2) as u8
            } else {
                2
            }
        }
    };
    let sauce = match fmt {
        Fmt::Bin => !rng.chance(1, 12),
        Fmt::Tnd => w != 80 || rng.chance(1, 2),
        _ => rng.chance(1, 3),
    };
    // very wide XBin rows only raw: the model of compress_backtrack (C06) is quadratic in the row width
    let opts = (sauce as u8) | if rng.chance(1, 2) && !(fmt == Fmt::Xb && w > 600) { 2 } else { 0 };
    let pages = pick_pages(rng, fmt);
    let fonts = random_fonts(rng, fmt, &pages);
    let pal = random_palette(rng, fmt);
    let npal = pal.as_ref().map(|p| p.len()).unwrap_or(16) as u64;
    let two = pages.len() == 2;
    // a cell alphabet: small (runs) or the full range
    let style = rng.below(4);
    let wild = rng.chance(1, 8); // leave the representable domain on purpose
    let mut mk = |rng: &mut Rng| -> Cell {
        let v = rng.next();
        let ch = match rng.below(10) {
            0 => rng.below(7) as u32,          // control range, 0..6
            1 => *rng.pick(&[0x1Au32, 0xFF, 0x20, 0xDB, 0x00, 0x01]),
            _ => (v & 0xFF) as u32,
        };
        let mut fg = ((v >> 8) % if fmt == Fmt::Tnd { npal.max(1) } else { 16 }) as u32;
        let mut bg = ((v >> 16) % if fmt == Fmt::Tnd { npal.max(1) } else if ice == 2 { 16 } else { 8 }) as u32;
        let mut flags = 0u16;
        if (v >> 24) & 7 == 0 {
            flags |= BOLD;
        }
        if ice != 2 && (v >> 27) & 3 == 0 {
            flags |= BLINK;
        }
        if (v >> 30) & 15 == 0 {
            flags |= 0x10; // underline: no format stores it, the property does not list it
        }
        if two && !wild {
            fg &= 7;
            flags &= !BOLD;
        }
        if wild {
            match rng.below(8) {
                0 => bg = 8 + (bg & 7),
                1 => flags |= BLINK,
                2 => fg += 16,
                3 => flags |= INVISIBLE,
                4 => return Cell { ch: 0x263A, fg, bg, flags, page: 0 },
                _ => {}
            }
        }
        let page = *rng.pick(&pages);
        Cell { ch, fg, bg, flags, page }
    };
    let mut cells = Vec::with_capacity(w * h);
    if style == 0 {
        for _ in 0..w * h {
            cells.push(mk(rng));
        }
    } else {
        let n = rng.range(1, 5) as usize;
        let alpha: Vec<Cell> = (0..n).map(|_| mk(rng)).collect();
        let keep = rng.range(30, 97) as u64;
        let mut prev = *rng.pick(&alpha);
        for i in 0..w * h {
            let c = if i > 0 && rng.below(100) < keep { prev } else { *rng.pick(&alpha) };
            cells.push(c);
            prev = c;
        }
    }
    // both pages of a two-font picture must occur
    if two && cells.len() >= 2 {
        cells[0].page = pages[0];
        let n = cells.len();
        cells[n - 1].page = pages[1];
    }
    let meta = if rng.chance(1, 3) { Some(random_meta(rng)) } else { None };
    Case { fmt, ice, w, opts, pal, fonts, cells, meta }
}

/// SAUCE data as a buffer can hold it (what `SauceString::read` makes of random field contents): texts of every length up to
/// the field, trailing blanks and NULs, bytes above 127, comment lines with and without a NUL inside, the two display flags
fn random_meta(rng: &mut Rng) -> Meta {
    let mut text = |rng: &mut Rng, max: usize| -> Vec<u8> {
        let n = match rng.below(6) {
            0 => 0,
            1 => max,
            _ => rng.below(max as u64 + 1) as usize,
        };
        let mut v: Vec<u8> = (0..n)
            .map(|_| match rng.below(12) {
                0 => b' ',
                1 => *rng.pick(&[0u8, 0x1A, 0xFF, 0x80, b'S']),
                _ => 0x21 + rng.below(0x5E) as u8,
            })
            .collect();
        if rng.chance(1, 4) && !v.is_empty() {
            let k = v.len() - 1;
            v[k] = b' ';
        }
        v
    };
    let n_comments = match rng.below(6) {
        0..=2 => 0,
        3 => 1,
        4 => 2,
        _ => rng.range(3, 6) as usize,
    };
    let raw = Meta {
        title: text(rng, 35),
        author: text(rng, 20),
        group: text(rng, 20),
        comments: (0..n_comments).map(|_| text(rng, 64)).collect(),
        ar: rng.chance(1, 3),
        ls: rng.chance(1, 3),
    };
    meta_of(&make_sauce(&raw))
}

/// a SAUCE trailer as foreign software may have written it: any data / file type, sizes, flags, a font name, comment lines
fn foreign_sauce(rng: &mut Rng, fmt: Fmt, w_hint: usize) -> Vec<u8> {
    let mut v = vec![0x1A];
    let n_comments = match rng.below(5) {
        0 => rng.range(1, 3) as usize,
        _ => 0,
    };
    if n_comments > 0 {
        v.extend(b"COMNT");
        for _ in 0..n_comments {
            let mut line: Vec<u8> = (0..rng.below(65) as usize).map(|_| 0x20 + rng.below(0x5F) as u8).collect();
            line.resize(64, if rng.chance(1, 2) { 0 } else { b' ' });
            v.extend(line);
        }
    }
    v.extend(b"SAUCE00");
    let text = |rng: &mut Rng, n: usize| -> Vec<u8> {
        let k = rng.below(n as u64 + 1) as usize;
        let mut t: Vec<u8> = (0..k).map(|_| 0x21 + rng.below(0x5E) as u8).collect();
        t.resize(n, b' ');
        t
    };
    v.extend(text(rng, 35));
    v.extend(text(rng, 20));
    v.extend(text(rng, 20));
    v.extend(b"20240229");
    v.extend([0, 0, 0, 0]);
    // the record type the format's own writer uses most of the time, any other now and then
    let (dt, ft): (u8, u8) = if rng.chance(2, 3) {
        match fmt {
            Fmt::Xb => (6, 0),
            Fmt::Bin | Fmt::Idf => (5, (w_hint / 2).min(255) as u8),
            Fmt::Adf => (1, 1),
            Fmt::Tnd => (1, 8),
        }
    } else {
        *rng.pick(&[(1u8, 0u8), (1, 1), (1, 2), (1, 4), (1, 5), (1, 8), (5, 0), (5, 1), (5, 40), (5, 80), (5, 255), (6, 0), (0, 0), (2, 3), (9, 9)])
    };
    let t1: u16 = match rng.below(8) {
        0 => 0,
        // (Tundra takes any width from the record and allocates full-width rows: no 65535-column records there)
        1 if fmt == Fmt::Tnd => *rng.pick(&[1u16, 2, 79, 80, 81, 160, 999, 1000, 1001, 4096]),
        1 => *rng.pick(&[1u16, 2, 79, 80, 81, 160, 999, 1000, 1001, 4096, 65535]),
        2 => rng.range(1, 200) as u16,
        _ => w_hint as u16,
    };
    let t2: u16 = match rng.below(6) {
        0 => 0,
        1 => *rng.pick(&[1u16, 25, 200, 201, 65535]),
        _ => rng.range(1, 60) as u16,
    };
    v.extend([dt, ft]);
    v.extend(t1.to_le_bytes());
    v.extend(t2.to_le_bytes());
    v.extend([0, 0, 0, 0, n_comments as u8, *rng.pick(&[0u8, 1, 1, 4, 8, 0x1D, 0xFF])]);
    let mut name: Vec<u8> = match rng.below(4) {
        0 => SAUCE_FONT_NAMES[rng.below(SAUCE_FONT_NAMES.len() as u64) as usize].as_bytes().to_vec(),
        1 => b"IBM VGA ".to_vec(),
        2 => Vec::new(),
        _ => DEFAULT_FONT_NAME.as_bytes().to_vec(),
    };
    name.resize(22, 0);
    v.extend(name);
    v
}

/// a file of the format that no writer of the engine produced: every header field free, data of any length, the loaders'
/// special records (XBin runs of all four kinds, iCE Draw repeat records, Tundra position and colour commands), boundary
/// values of the size fields, optionally a foreign SAUCE trailer
fn foreign_file(rng: &mut Rng, fmt: Fmt) -> Vec<u8> {
    let mut d: Vec<u8> = Vec::new();
    let mut w_hint = 80usize;
    let cell_bytes = |rng: &mut Rng, n: usize| -> Vec<u8> {
        let style = rng.below(3);
        (0..n)
            .map(|i| match style {
                0 => rng.next() as u8,
                1 => *rng.pick(&[0x41u8, 0x07, 0x20, 0x1F, 0x00, 0x01, 0xFF, 0x0F, 0x80]),
                _ => (i as u8).wrapping_mul(37),
            })
            .collect()
    };
    match fmt {
        Fmt::Xb => {
            let w = match rng.below(8) {
                0 => *rng.pick(&[1usize, 2, 64, 80, 256, 4096, 0, 4097]),
                _ => rng.range(1, 40) as usize,
            };
            let h = match rng.below(8) {
                0 => *rng.pick(&[0usize, 1, 25, 200, 65535]),
                _ => rng.range(1, 12) as usize,
            };
            let fs = *rng.pick(&[16u8, 16, 16, 8, 1, 32, 0, 14, 33]);
            let mut flags = (rng.next() as u8) & 0x1F;
            if rng.chance(1, 20) {
                flags |= 0xE0 & rng.next() as u8;
            }
            if flags & 0x10 != 0 && rng.chance(9, 10) {
                flags |= 2; // 512 characters need the font bit (without it the loader rejects the file)
            }
            w_hint = w;
            d.extend(b"XBIN\x1a");
            d.extend((w as u16).to_le_bytes());
            d.extend((h as u16).to_le_bytes());
            d.push(fs);
            d.push(flags);
            let fsz = if fs == 0 { 16 } else { fs as usize };
            if flags & 1 != 0 {
                d.extend((0..48).map(|_| if rng.chance(1, 10) { rng.next() as u8 } else { rng.below(64) as u8 }));
            }
            if flags & 2 != 0 {
                let blocks = if flags & 0x10 != 0 { 2 } else { 1 };
                if rng.chance(1, 12) {
                    // the default font's glyphs as an embedded font
                    let base = BitFont::default().convert_to_u8_data();
                    for _ in 0..blocks {
                        d.extend(base.iter().take(fsz * 256));
                        if base.len() < fsz * 256 {
                            d.extend(std::iter::repeat(0).take(fsz * 256 - base.len()));
                        }
                    }
                } else {
                    for k in 0..blocks {
                        d.extend(gen_font_data(fsz as u8, rng.below(50) as u32 + k));
                    }
                }
            }
            let cells = (w * h).min(1500);
            if flags & 4 != 0 {
                // runs: 00 pairs, 01 char + attrs, 10 attr + chars, 11 one pair; some crossing the row end, some cut short
                let mut left = cells as i64;
                while left > 0 {
                    let n = rng.range(1, 64) as usize;
                    let t = rng.below(4) as u8;
                    d.push((t << 6) | (n as u8 - 1));
                    let payload = match t {
                        0 => 2 * n,
                        1 | 2 => 1 + n,
                        _ => 2,
                    };
                    d.extend(cell_bytes(rng, payload));
                    left -= n as i64;
                }
            } else {
                d.extend(cell_bytes(rng, 2 * cells));
            }
        }
        Fmt::Bin => {
            w_hint = 2 * rng.range(1, 100) as usize;
            let n = match rng.below(6) {
                0 => 0,
                _ => rng.below(1500) as usize,
            };
            d.extend(cell_bytes(rng, n));
        }
        Fmt::Adf => {
            d.push(if rng.chance(1, 20) { rng.next() as u8 } else { 1 });
            d.extend((0..192).map(|_| if rng.chance(1, 10) { rng.next() as u8 } else { rng.below(64) as u8 }));
            if rng.chance(1, 10) {
                d.extend(BitFont::default().convert_to_u8_data());
            } else {
                d.extend(gen_font_data(16, rng.below(50) as u32));
            }
            let n = match rng.below(6) {
                0 => 0,
                1 => 160 * rng.range(1, 4) as usize,
                _ => rng.below(1200) as usize,
            };
            d.extend(cell_bytes(rng, n));
        }
        Fmt::Idf => {
            let x1 = if rng.chance(1, 4) { rng.below(5) as u16 } else { 0 };
            let y1 = if rng.chance(1, 6) { *rng.pick(&[1u16, 3, 199, 200, 65535]) } else { 0 };
            let wd = match rng.below(8) {
                0 => *rng.pick(&[1u16, 80, 81, 100, 1000]),
                _ => rng.range(1, 80) as u16,
            };
            let x2 = (x1 + wd - 1).max(if rng.chance(1, 30) { 0 } else { x1 });
            w_hint = wd as usize;
            d.extend(if rng.chance(1, 2) { b"\x041.4" } else { b"\x041.3" });
            d.extend(x1.to_le_bytes());
            d.extend(y1.to_le_bytes());
            d.extend(x2.to_le_bytes());
            d.extend((rng.next() as u16).to_le_bytes());
            let items = rng.below(120) as usize;
            // one long repeat record per file at most (the model places cell by cell; 65535 cells in 6 bytes are the C02 case)
            let mut long_left = if rng.chance(1, 10) { 1 } else { 0 };
            for _ in 0..items {
                match rng.below(6) {
                    0 => {
                        // repeat record
                        let n = match rng.below(6) {
                            0 if long_left > 0 => {
                                long_left -= 1;
                                // (cost of the model's cell-by-cell placement ~ count^2 / width: the very long runs only on wide pictures;
                                // on narrow ones 65535 still exercises the row limit, which is decided before any cell is placed)
                                if wd >= 40 { *rng.pick(&[255u16, 256, 1000, 16001, 65535]) } else if wd == 1 { *rng.pick(&[255u16, 256, 1000, 65535]) } else { *rng.pick(&[255u16, 256, 1000]) }
                            }
                            0 => *rng.pick(&[0u16, 1, 2, 3, 4]),
                            _ => rng.range(1, 90) as u16,
                        };
                        d.extend([1, 0]);
                        d.extend(n.to_le_bytes());
                        d.extend(cell_bytes(rng, 2));
                    }
                    _ => d.extend(cell_bytes(rng, 2)),
                }
            }
            if rng.chance(1, 8) {
                d.extend([1, 0]); // a repeat record cut off by the font block
            }
            d.extend(gen_font_data(16, rng.below(50) as u32));
            d.extend((0..48).map(|_| if rng.chance(1, 10) { rng.next() as u8 } else { rng.below(64) as u8 }));
        }
        Fmt::Tnd => {
            w_hint = match rng.below(8) {
                0 => *rng.pick(&[1usize, 80, 999, 1000, 1001, 5000]),
                _ => rng.range(1, 100) as usize,
            };
            d.push(if rng.chance(1, 20) { rng.next() as u8 } else { 24 });
            d.extend(b"TUNDRA24");
            let items = rng.below(200) as usize;
            let colours: Vec<[u8; 3]> = (0..rng.range(1, 6)).map(|_| [rng.next() as u8, rng.next() as u8, rng.next() as u8]).collect();
            for _ in 0..items {
                match rng.below(12) {
                    0 => {
                        // position: mostly small, sometimes backwards / out of range
                        d.push(1);
                        // (a jump to row 65534 makes Layer::set_char allocate 65535 full-width rows: only on narrow pictures here —
                        // 65535 rows x 5000 columns of invisible cells are several GiB, the harness process is killed)
                        let y: i32 = match rng.below(8) {
                            0 => *rng.pick(&[-1i32, 300, 65535, 1 << 20]),
                            _ => rng.below(12) as i32,
                        };
                        let x: i32 = match rng.below(8) {
                            0 => *rng.pick(&[-1i32, w_hint as i32, 79, 80]),
                            _ => rng.below(w_hint.max(1) as u64) as i32,
                        };
                        d.extend(y.to_be_bytes());
                        d.extend(x.to_be_bytes());
                    }
                    1..=3 => {
                        let cmd = *rng.pick(&[2u8, 4, 6, 3, 5]);
                        d.push(cmd);
                        d.push(rng.next() as u8);
                        for bit in [2u8, 4] {
                            if cmd & bit != 0 {
                                let c = rng.pick(&colours);
                                d.push(0);
                                d.extend(c);
                            }
                        }
                    }
                    _ => d.push(match rng.below(10) {
                        0 => 0,
                        1 => *rng.pick(&[7u8, 8, 0xFF]),
                        _ => 0x20 + rng.below(0x5F) as u8,
                    }),
                }
            }
        }
    }
    if rng.chance(1, 8) && !d.is_empty() {
        let k = rng.below(d.len() as u64) as usize;
        d.truncate(k);
    }
    if match fmt {
        Fmt::Bin | Fmt::Tnd => rng.chance(5, 6),
        _ => rng.chance(1, 2),
    } {
        d.extend(foreign_sauce(rng, fmt, w_hint));
    }
    d
}

/// `guess_font_name` on a font block, as the loaders call it
fn font_name_case(run: &mut Run, h: u8, data: &[u8]) {
    let mut font = BitFont::create_8("", 8, h, data);
    font.name = icy_engine::guess_font_name(&font);
    run.case(&format!("binformats fontname {} {}", h, hex(data)), &hex(&name_bytes(&font.name)));
}

/// `BitFont::from_sauce_name` on the TInfoS bytes of a record, as `set_sauce` calls it
fn sauce_font_case(run: &mut Run, tinfo: &[u8]) {
    let name = sauce_str::<22, 0>(tinfo).to_string();
    let line = match BitFont::from_sauce_name(&name) {
        Ok(f) => format!("{} {}", f.size.height, fnv(f.convert_to_u8_data().iter().map(|b| *b as u64))),
        Err(_) => "none".to_string(),
    };
    // the model is handed what `to_string()` reads of the field: the bytes before the first NUL, without trailing blanks
    let cut: Vec<u8> = tinfo.iter().take(22).take_while(|b| **b != 0).cloned().collect();
    run.case(&format!("binformats saucefont {}", hex(strip_pad(&cut))), &line);
}

fn plain_case(fmt: Fmt, w: usize, h: usize, opts: u8, cells: Vec<Cell>) -> Case {
    let _ = h;
    Case { fmt, ice: 2, w, opts, pal: None, fonts: vec![(0, FontSpec::Default)], cells, meta: None }
}

fn fixed_cases() -> Vec<Case> {
    let a = Cell { ch: 0x41, fg: 7, bg: 0, flags: 0, page: 0 };
    let b = Cell { ch: 0x42, fg: 12, bg: 9, flags: 0, page: 0 };
    let mut v = Vec::new();
    for fmt in ALL {
        let w = match fmt {
            Fmt::Adf => 80,
            Fmt::Bin => 4,
            _ => 3,
        };
        let sauce = matches!(fmt, Fmt::Bin | Fmt::Tnd) as u8;
        // heights around the loaders' 25 pre-allocated rows
        for h in [1usize, 3, 10, 24, 25, 26, 40] {
            let cells: Vec<Cell> = (0..w * h).map(|i| if i % 3 == 0 { b } else { a }).collect();
            for opts in [sauce, sauce | 2] {
                v.push(plain_case(fmt, w, h, opts, cells.clone()));
            }
        }
        // control-range characters, the IDF escape (character 1 on attribute 0), runs of it
        for opts in [sauce, sauce | 2] {
            for ch in 0..=7u32 {
                let c = Cell { ch, fg: 0, bg: 0, flags: 0, page: 0 };
                let d = Cell { ch, fg: 14, bg: 3, flags: 0, page: 0 };
                for cells in [vec![a, c, b, b], vec![b, d, a, a], vec![c, c, c, c, c, a], vec![d, d, a, c]] {
                    let n = cells.len();
                    let row: Vec<Cell> = (0..w).map(|i| if i < n { cells[i] } else { a }).collect();
                    v.push(plain_case(fmt, w, 1, opts, row));
                }
            }
        }
        // bold on bright colours
        for fg in [1u32, 9] {
            let c = Cell { ch: 0x43, fg, bg: 0, flags: BOLD, page: 0 };
            let row: Vec<Cell> = (0..w).map(|i| if i == 1 { c } else { a }).collect();
            v.push(plain_case(fmt, w, 1, sauce, row));
        }
    }
    // palettes that differ from the DOS default in exactly ONE entry (each of the 16 in turn): "is this the default palette?"
    // decides whether a palette block is written at all, so every entry must take part in that decision
    for fmt in ALL {
        if !fmt.embeds() {
            continue;
        }
        let w = if fmt == Fmt::Adf { 80 } else { 16 };
        for i in 0..16usize {
            let mut pal = dos_palette();
            let (r, g, b) = pal[i];
            pal[i] = (r ^ 0x82, g ^ 0x41, b ^ 0xC3); // stays 6-bit representable: both copies of the top two bits flip together
            let row: Vec<Cell> = (0..w).map(|x| Cell { ch: 0xDB, fg: (x % 16) as u32, bg: ((x + i) % 16) as u32, flags: 0, page: 0 }).collect();
            for opts in [0u8, 2] {
                v.push(Case { fmt, ice: 2, w, opts, pal: Some(pal.clone()), fonts: vec![(0, FontSpec::Default)], cells: row.clone(), meta: None });
            }
        }
    }
    // BIN: the width travels in the SAUCE record only (file type = width / 2): every width class incl. the ones above 255
    for w in [2usize, 4, 126, 128, 130, 160, 254, 256, 258, 300, 384, 508, 510] {
        let row: Vec<Cell> = (0..w * 2).map(|x| Cell { ch: 0x30 + (x % 10) as u32, fg: (x % 16) as u32, bg: ((x / 16) % 8) as u32, flags: 0, page: 0 }).collect();
        v.push(plain_case(Fmt::Bin, w, 2, 1, row));
    }
    // XBin: two fonts, blink mode, custom palette + fonts
    let p0 = Cell { ch: 0x41, fg: 7, bg: 1, flags: 0, page: 0 };
    let p1 = Cell { ch: 0x41, fg: 7, bg: 1, flags: 0, page: 1 };
    for opts in [0u8, 2, 3] {
        v.push(Case { fmt: Fmt::Xb, ice: 1, w: 4, opts, pal: None, fonts: vec![(0, FontSpec::Default), (1, FontSpec::Gen(16, 1))], cells: vec![p0, p1, p1, p0, p1, p0, p0, p0], meta: None });
        v.push(Case { fmt: Fmt::Xb, ice: 2, w: 2, opts, pal: Some((0..16).map(|i| (six(i * 5), six(i * 11), six(63 - i))).collect()), fonts: vec![(0, FontSpec::Gen(8, 2)), (1, FontSpec::Gen(8, 9))], cells: vec![p0, p1], meta: None });
        v.push(Case { fmt: Fmt::Xb, ice: 1, w: 2, opts, pal: None, fonts: vec![(0, FontSpec::Gen(32, 4))], cells: vec![p0, Cell { flags: BLINK, ..p0 }], meta: None });
    }
    // picture content that reads as a SAUCE record (file saved without one): the last row of a 64-column ice-colour XBin
    let mut rec: Vec<u8> = b"SAUCE00".to_vec();
    rec.extend(std::iter::repeat(b' ').take(75));
    rec.extend(b"20240101");
    rec.extend([0, 0, 0, 0, 6, 0, 64, 0, 1, 0, 0, 0, 0, 0, 0, 0]);
    rec.extend(std::iter::repeat(0).take(22));
    let mut cells: Vec<Cell> = (0..64).map(|_| p0).collect();
    cells.extend((0..64).map(|i| Cell { ch: rec[2 * i] as u32, fg: (rec[2 * i + 1] & 15) as u32, bg: (rec[2 * i + 1] >> 4) as u32, flags: 0, page: 0 }));
    v.push(Case { fmt: Fmt::Xb, ice: 2, w: 64, opts: 0, pal: None, fonts: vec![(0, FontSpec::Default)], cells, meta: None });
    // the same in the last 64 cells of an ADF picture, and as the last 128 characters of an 80-column Tundra picture
    let mut cells: Vec<Cell> = (0..96).map(|_| p0).collect();
    cells.extend((0..64).map(|i| Cell { ch: rec[2 * i] as u32, fg: (rec[2 * i + 1] & 15) as u32, bg: (rec[2 * i + 1] >> 4) as u32, flags: 0, page: 0 }));
    v.push(Case { fmt: Fmt::Adf, ice: 2, w: 80, opts: 0, pal: None, fonts: vec![(0, FontSpec::Default)], cells, meta: None });
    let mut rec2: Vec<u8> = b"SAUCE00".to_vec();
    rec2.extend(std::iter::repeat(b' ').take(75));
    rec2.extend(b"20240101");
    rec2.extend(std::iter::repeat(0).take(38));
    let mut cells: Vec<Cell> = (0..32).map(|_| Cell { bg: 0, ..p0 }).collect();
    cells.extend((0..128).map(|i| Cell { ch: rec2[i] as u32, fg: 7, bg: 0, flags: 0, page: 0 }));
    v.push(Case { fmt: Fmt::Tnd, ice: 2, w: 80, opts: 0, pal: None, fonts: vec![(0, FontSpec::Default)], cells, meta: None });
    // Tundra: colours beyond 16, a first cell that is not black on black, width limits of the SAUCE record
    let pal: Vec<Rgb> = (0..24).map(|i| ((i * 10 + 5) as u8, (255 - i * 7) as u8, (i * 3) as u8)).collect();
    let t = |ch: u32, fg: u32, bg: u32| Cell { ch, fg, bg, flags: 0, page: 0 };
    v.push(Case { fmt: Fmt::Tnd, ice: 2, w: 3, opts: 1, pal: Some(pal.clone()), fonts: vec![(0, FontSpec::Default)], cells: vec![t(0x41, 0, 0), t(0x42, 20, 17), t(0x43, 3, 23)], meta: None });
    v.push(Case { fmt: Fmt::Tnd, ice: 2, w: 10, opts: 1, pal: Some(pal.clone()), fonts: vec![(0, FontSpec::Default)], cells: (0..10).map(|i| t(0x41, i, 0)).collect(), meta: None });
    // bold cells on palette entries that share a colour while their bright partners do not
    let mut dup = dos_palette();
    dup[2] = dup[1];
    v.push(Case { fmt: Fmt::Tnd, ice: 2, w: 3, opts: 1, pal: Some(dup), fonts: vec![(0, FontSpec::Default)], cells: vec![Cell { flags: BOLD, ..t(0x41, 1, 0) }, Cell { flags: BOLD, ..t(0x42, 2, 0) }, t(0x43, 7, 0)], meta: None });
    for w in [1000usize, 1001] {
        v.push(Case { fmt: Fmt::Tnd, ice: 2, w, opts: 1, pal: None, fonts: vec![(0, FontSpec::Default)], cells: (0..w).map(|i| t(0x41 + (i % 5) as u32, 7, 0)).collect(), meta: None });
    }
    v
}

/// exhaustive small scope: every picture of `w x h` over a small alphabet
fn enumerate(run: &mut Run, rng: &mut Rng, fmt: Fmt, w: usize, h: usize, alpha: &[Cell], ice: u8, opts: u8, fonts: &[(usize, FontSpec)]) -> u64 {
    let n = alpha.len() as u64;
    let total = n.pow((w * h) as u32);
    for i in 0..total {
        let mut k = i;
        let mut cells = Vec::with_capacity(w * h);
        for _ in 0..w * h {
            cells.push(alpha[(k % n) as usize]);
            k /= n;
        }
        let full: Vec<Cell> = if fmt == Fmt::Adf {
            // pad to the fixed width
            let mut v = Vec::new();
            for y in 0..h {
                for x in 0..80 {
                    v.push(if x < w { cells[y * w + x] } else { alpha[0] });
                }
            }
            v
        } else {
            cells
        };
        let case = Case { fmt, ice, w: if fmt == Fmt::Adf { 80 } else { w }, opts, pal: None, fonts: fonts.to_vec(), cells: full, meta: None };
        one(run, &case, rng, 0);
    }
    total
}

pub fn run(run: &mut Run, seed: u64, thorough: bool, replay: Option<&str>, corpus: &[String]) {
    let mut rng = Rng::new(seed);
    let replay_one = |run: &mut Run, rng: &mut Rng, r: &str| {
        if let Some(rest) = r.strip_prefix("file:") {
            let p: Vec<&str> = rest.split(':').collect();
            if p.len() == 3 {
                if let (Some(fmt), Ok(opts)) = (Fmt::parse(p[0]), p[1].parse::<u8>()) {
                    one_file(run, fmt, opts, &unhex(p[2]), true);
                    return;
                }
            }
            eprintln!("c05: cannot parse file replay");
        } else {
            if r.starts_with("layers:") {
                match parse_ltoken(r) {
                    Some(c) => one_layered(run, &c),
                    None => eprintln!("c05: cannot parse layered replay input"),
                }
                return;
            }
            match parse_token(r) {
                Some(c) => one(run, &c, rng, 0),
                None => eprintln!("c05: cannot parse replay input"),
            }
        }
    };
    if let Some(r) = replay {
        replay_one(run, &mut rng, r);
        return;
    }
    for c in corpus {
        replay_one(run, &mut rng, c);
    }
    for c in fixed_cases() {
        one(run, &c, &mut rng, 1);
    }
    // font names: `guess_font_name` (checksum table) on every built-in font, on each with one byte altered, on generated
    // fonts of every height; `from_sauce_name` on every SAUCE font name and on near misses
    {
        let mut n = 0;
        for i in 0..icy_engine::ANSI_FONTS {
            if let Ok(f) = BitFont::from_ansi_font_page(i) {
                let d = f.convert_to_u8_data();
                font_name_case(run, f.size.height as u8, &d);
                if i % 7 == (seed % 7) as usize {
                    let mut d2 = d.clone();
                    let k = rng.below(d2.len() as u64) as usize;
                    d2[k] ^= 1 << rng.below(8);
                    font_name_case(run, f.size.height as u8, &d2);
                }
                n += 1;
            }
        }
        for name in SAUCE_FONT_NAMES {
            let f = BitFont::from_sauce_name(name).unwrap();
            font_name_case(run, f.size.height as u8, &f.convert_to_u8_data());
            sauce_font_case(run, name.as_bytes());
            let mut padded = name.as_bytes().to_vec();
            padded.push(b' ');
            sauce_font_case(run, &padded);
            let mut cutoff = name.as_bytes().to_vec();
            cutoff.pop();
            sauce_font_case(run, &cutoff);
            sauce_font_case(run, name.to_lowercase().as_bytes());
            n += 1;
        }
        for t in [&b""[..], b"Codepage 437 English", b"IBM VGA\0junk", b"IBM\xFFVGA", b"IBM VGA50 ", b" IBM VGA"] {
            sauce_font_case(run, t);
        }
        for h in [1u8, 8, 14, 16, 19, 32] {
            font_name_case(run, h, &gen_font_data(h, rng.below(50) as u32));
        }
        for _ in 0..n {
            run.count("font-names:built-in fonts");
        }
    }
    // embedded fonts that are a BUILT-IN font with exactly one glyph altered (first, second, a letter, last but one, last): the
    // loaders recognise built-in fonts by a checksum over the glyph data and name them, the XBin saver leaves out a font that
    // carries the default name — a checksum that misses one glyph makes load -> save -> load lose that glyph
    {
        let base = BitFont::default().convert_to_u8_data();
        let h = base.len() / 256;
        for k in [0usize, 1, 65, 254, 255] {
            let mut data = base.clone();
            data[k * h + h / 2] ^= 0x3C;
            let font = BitFont::create_8("almost cp437", 8, h as u8, &data);
            for fmt in [Fmt::Xb, Fmt::Adf, Fmt::Idf] {
                let w = if fmt == Fmt::Xb { 5 } else { 80 };
                let mut buf = Buffer::new((w, 2));
                buf.is_terminal_buffer = false;
                buf.clear_font_table();
                buf.set_font(0, font.clone());
                for (i, c) in [k as u32, 0x41, 0xDB, 0x20, k as u32].iter().enumerate() {
                    buf.layers[0].set_char((i as i32, (i % 2) as i32), AttributedChar::new(char::from_u32(*c).unwrap_or('?'), TextAttribute::new(7, 0)));
                }
                for opts in [0u8, 1, 2, 3] {
                    if opts & 2 != 0 && fmt == Fmt::Adf {
                        continue;
                    }
                    if let Ok(bytes) = save(&buf, fmt, opts) {
                        one_file(run, fmt, opts, &bytes, false);
                        run.count("font:builtin-with-one-glyph-altered");
                    }
                }
            }
        }
    }
    // exhaustive small scopes over (plain, control character 1 on attribute 0, a coloured cell, character 2)
    let a = Cell { ch: 0x41, fg: 7, bg: 0, flags: 0, page: 0 };
    let esc = Cell { ch: 1, fg: 0, bg: 0, flags: 0, page: 0 };
    let col = Cell { ch: 0x42, fg: 12, bg: 9, flags: 0, page: 0 };
    let ctl = Cell { ch: 2, fg: 7, bg: 0, flags: 0, page: 0 };
    let alpha = [a, esc, col, ctl];
    let d = [(0usize, FontSpec::Default)];
    let mut scope = String::new();
    let mut n_enum = 0;
    for fmt in [Fmt::Idf, Fmt::Tnd, Fmt::Xb, Fmt::Bin] {
        let sauce = matches!(fmt, Fmt::Bin | Fmt::Tnd) as u8;
        let dims: &[(usize, usize)] = if thorough { &[(1, 1), (2, 1), (3, 1), (4, 1), (5, 1), (6, 1), (2, 2), (2, 3), (3, 2)] } else { &[(1, 1), (2, 1), (4, 1), (2, 2)] };
        for (w, h) in dims {
            if fmt == Fmt::Bin && w % 2 != 0 {
                continue;
            }
            for opts in [sauce, sauce | 2] {
                if opts & 2 != 0 && !matches!(fmt, Fmt::Idf | Fmt::Xb) {
                    continue;
                }
                n_enum += enumerate(run, &mut rng, fmt, *w, *h, &alpha, 2, opts, &d);
            }
        }
    }
    if thorough {
        n_enum += enumerate(run, &mut rng, Fmt::Adf, 3, 1, &alpha, 2, 0, &d);
        n_enum += enumerate(run, &mut rng, Fmt::Adf, 2, 2, &alpha[..3], 2, 0, &d);
    }
    scope.push_str(&format!("{} pictures: every picture of the listed small sizes over the alphabet (plain cell, character 1 on attribute 0, coloured cell, control character 2) for IDF (raw/compressed), Tundra, XBin (raw/compressed), BIN{}", n_enum, if thorough { ", ADF (varying the first cells of 80-column rows)" } else { "" }));
    // seeded random pictures
    let n = if thorough { 3000 } else { 260 };
    let max_cells = if thorough { 6000 } else { 1500 };
    for i in 0..n {
        let fmt = ALL[i % 5];
        let case = random_case(&mut rng, fmt, if fmt == Fmt::Adf { max_cells.max(80 * 12) } else { max_cells });
        let n_mut = if case.cells.len() <= 600 { 3 } else { 1 };
        one(run, &case, &mut rng, n_mut);
    }
    // buffers with 1..=3 layers (offsets, alpha channel, hidden layers, Chars / Attributes layers): saved through the compositor
    let n_layered = if thorough { 1500 } else { 200 };
    for i in 0..n_layered {
        let c = random_layered(&mut rng, ALL[i % 5]);
        one_layered(run, &c);
    }
    // files no engine writer produced (every header field free, special records, foreign SAUCE trailers): load, re-save
    // with and without a SAUCE record, load again
    let n_foreign = if thorough { 1500 } else { 300 };
    for i in 0..n_foreign {
        let fmt = ALL[i % 5];
        let bytes = foreign_file(&mut rng, fmt);
        if bytes.len() > 60_000 {
            continue;
        }
        let opts = match fmt {
            Fmt::Bin => 1,
            _ => rng.below(4) as u8,
        };
        run.count(&format!("{}:foreign-files", fmt.ext()));
        one_file(run, fmt, opts, &bytes, true);
    }
    run.extra.push(("exhaustive_scope".into(), scope));
    run.extra.push((
        "oracle".into(),
        "to_bytes -> from_bytes on the real crate: width, height, allocated rows, every cell's character / displayed fg+bg RGB / blink / font page, ice mode, embedded fonts and palette; spec decoders written from x_bin.htm, ArtworxDataFormat.txt, idv_103.pas (BIN: raw pairs + SAUCE); re-save stability on engine-written and on mutated files the loader accepts"
            .into(),
    ));
}
