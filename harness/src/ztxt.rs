//! Independent reader for the zTXt chunks of a PNG file (C17: the `FONT_n` chunks of an IcyDraw file): PNG chunk walker
//! with CRC check, zlib/deflate inflater (stored, fixed and dynamic Huffman blocks, RFC 1950/1951) and a strict base64
//! decoder.  Written from the specifications; shares no code with the crate under test (`png`, `flate2`, `base64`).

struct Bits<'a> {
    d: &'a [u8],
    pos: usize,
    bit: u32,
}

impl<'a> Bits<'a> {
    fn get(&mut self, n: u32) -> Result<u32, String> {
        let mut v = 0u32;
        for i in 0..n {
            if self.pos >= self.d.len() {
                return Err("deflate: out of data".into());
            }
            let b = (self.d[self.pos] >> self.bit) & 1;
            v |= (b as u32) << i;
            self.bit += 1;
            if self.bit == 8 {
                self.bit = 0;
                self.pos += 1;
            }
        }
        Ok(v)
    }
    fn align(&mut self) {
        if self.bit != 0 {
            self.bit = 0;
            self.pos += 1;
        }
    }
}

/// canonical Huffman code: `count[len]`, symbols ordered by (length, value)
struct Code {
    count: [u16; 16],
    sym: Vec<u16>,
}

fn mk_code(lens: &[u8]) -> Code {
    let mut count = [0u16; 16];
    for l in lens {
        count[*l as usize] += 1;
    }
    count[0] = 0;
    let mut offs = [0u16; 16];
    for i in 1..16 {
        offs[i] = offs[i - 1] + count[i - 1];
    }
    let mut sym = vec![0u16; lens.len()];
    for (s, l) in lens.iter().enumerate() {
        if *l != 0 {
            sym[offs[*l as usize] as usize] = s as u16;
            offs[*l as usize] += 1;
        }
    }
    Code { count, sym }
}

fn decode(b: &mut Bits, c: &Code) -> Result<u16, String> {
    let (mut code, mut first, mut index) = (0i32, 0i32, 0i32);
    for len in 1..16 {
        code |= b.get(1)? as i32;
        let cnt = c.count[len] as i32;
        if code - cnt < first {
            return Ok(c.sym[(index + (code - first)) as usize]);
        }
        index += cnt;
        first += cnt;
        first <<= 1;
        code <<= 1;
    }
    Err("deflate: bad code".into())
}

const LBASE: [u16; 29] = [3, 4, 5, 6, 7, 8, 9, 10, 11, 13, 15, 17, 19, 23, 27, 31, 35, 43, 51, 59, 67, 83, 99, 115, 131, 163, 195, 227, 258];
const LEXT: [u8; 29] = [0, 0, 0, 0, 0, 0, 0, 0, 1, 1, 1, 1, 2, 2, 2, 2, 3, 3, 3, 3, 4, 4, 4, 4, 5, 5, 5, 5, 0];
const DBASE: [u16; 30] = [1, 2, 3, 4, 5, 7, 9, 13, 17, 25, 33, 49, 65, 97, 129, 193, 257, 385, 513, 769, 1025, 1537, 2049, 3073, 4097, 6145, 8193, 12289, 16385, 24577];
const DEXT: [u8; 30] = [0, 0, 0, 0, 1, 1, 2, 2, 3, 3, 4, 4, 5, 5, 6, 6, 7, 7, 8, 8, 9, 9, 10, 10, 11, 11, 12, 12, 13, 13];

pub fn inflate(d: &[u8]) -> Result<Vec<u8>, String> {
    let mut b = Bits { d, pos: 0, bit: 0 };
    let mut out: Vec<u8> = Vec::new();
    loop {
        let last = b.get(1)?;
        match b.get(2)? {
            0 => {
                b.align();
                if b.pos + 4 > d.len() {
                    return Err("deflate: stored header".into());
                }
                let len = u16::from_le_bytes([d[b.pos], d[b.pos + 1]]) as usize;
                let nlen = u16::from_le_bytes([d[b.pos + 2], d[b.pos + 3]]) as usize;
                if len != (!nlen & 0xFFFF) {
                    return Err("deflate: stored length".into());
                }
                b.pos += 4;
                if b.pos + len > d.len() {
                    return Err("deflate: stored data".into());
                }
                out.extend_from_slice(&d[b.pos..b.pos + len]);
                b.pos += len;
            }
            t @ (1 | 2) => {
                let (lc, dc) = if t == 1 {
                    let mut l = [0u8; 288];
                    for (i, x) in l.iter_mut().enumerate() {
                        *x = if i < 144 { 8 } else if i < 256 { 9 } else if i < 280 { 7 } else { 8 };
                    }
                    (mk_code(&l), mk_code(&[5u8; 30]))
                } else {
                    let nlen = b.get(5)? as usize + 257;
                    let ndist = b.get(5)? as usize + 1;
                    let ncode = b.get(4)? as usize + 4;
                    const ORDER: [usize; 19] = [16, 17, 18, 0, 8, 7, 9, 6, 10, 5, 11, 4, 12, 3, 13, 2, 14, 1, 15];
                    let mut cl = [0u8; 19];
                    for o in ORDER.iter().take(ncode) {
                        cl[*o] = b.get(3)? as u8;
                    }
                    let cc = mk_code(&cl);
                    let mut lens: Vec<u8> = Vec::new();
                    while lens.len() < nlen + ndist {
                        let s = decode(&mut b, &cc)?;
                        match s {
                            0..=15 => lens.push(s as u8),
                            16 => {
                                let p = *lens.last().ok_or("deflate: repeat without previous")?;
                                let n = 3 + b.get(2)?;
                                lens.extend(std::iter::repeat(p).take(n as usize));
                            }
                            17 => {
                                let n = 3 + b.get(3)?;
                                lens.extend(std::iter::repeat(0).take(n as usize));
                            }
                            _ => {
                                let n = 11 + b.get(7)?;
                                lens.extend(std::iter::repeat(0).take(n as usize));
                            }
                        }
                    }
                    if lens.len() != nlen + ndist {
                        return Err("deflate: code lengths".into());
                    }
                    (mk_code(&lens[..nlen]), mk_code(&lens[nlen..]))
                };
                loop {
                    let s = decode(&mut b, &lc)? as usize;
                    if s < 256 {
                        out.push(s as u8);
                    } else if s == 256 {
                        break;
                    } else {
                        let s = s - 257;
                        if s >= 29 {
                            return Err("deflate: length symbol".into());
                        }
                        let len = LBASE[s] as usize + b.get(LEXT[s] as u32)? as usize;
                        let ds = decode(&mut b, &dc)? as usize;
                        if ds >= 30 {
                            return Err("deflate: distance symbol".into());
                        }
                        let dist = DBASE[ds] as usize + b.get(DEXT[ds] as u32)? as usize;
                        if dist > out.len() {
                            return Err("deflate: distance too far".into());
                        }
                        for _ in 0..len {
                            out.push(out[out.len() - dist]);
                        }
                    }
                }
            }
            _ => return Err("deflate: block type 3".into()),
        }
        if last == 1 {
            return Ok(out);
        }
    }
}

fn adler32(d: &[u8]) -> u32 {
    let (mut a, mut b) = (1u32, 0u32);
    for x in d {
        a = (a + *x as u32) % 65521;
        b = (b + a) % 65521;
    }
    b << 16 | a
}

pub fn zlib_inflate(d: &[u8]) -> Result<Vec<u8>, String> {
    if d.len() < 6 || d[0] & 0x0F != 8 || (d[0] as u32 * 256 + d[1] as u32) % 31 != 0 || d[1] & 0x20 != 0 {
        return Err("zlib header".into());
    }
    let out = inflate(&d[2..d.len() - 4])?;
    if adler32(&out) != u32::from_be_bytes(d[d.len() - 4..].try_into().unwrap()) {
        return Err("zlib adler32".into());
    }
    Ok(out)
}

/// strict RFC 4648 base64 (canonical padding, no trailing bits)
pub fn b64_decode(t: &[u8]) -> Result<Vec<u8>, String> {
    const A: &[u8; 64] = b"ABCDEFGHIJKLMNOPQRSTUVWXYZabcdefghijklmnopqrstuvwxyz0123456789+/";
    if t.len() % 4 != 0 {
        return Err("base64 length".into());
    }
    let mut out = Vec::with_capacity(t.len() / 4 * 3);
    for (qi, q) in t.chunks(4).enumerate() {
        let lastq = qi * 4 + 4 == t.len();
        let pad = q.iter().rev().take_while(|c| **c == b'=').count();
        if pad > 2 || (pad > 0 && !lastq) {
            return Err("base64 padding".into());
        }
        let mut n = 0u32;
        for c in &q[..4 - pad] {
            n = n << 6 | A.iter().position(|a| a == c).ok_or("base64 character")? as u32;
        }
        n <<= 6 * pad as u32;
        if (pad == 1 && n & 0xFF != 0) || (pad == 2 && n & 0xFFFF != 0) {
            return Err("base64 trailing bits".into());
        }
        out.push((n >> 16) as u8);
        if pad < 2 {
            out.push((n >> 8) as u8);
        }
        if pad < 1 {
            out.push(n as u8);
        }
    }
    Ok(out)
}

/// (keyword, inflated text) of every zTXt chunk, in file order; CRCs checked with an own CRC-32
pub fn ztxt_chunks(png: &[u8]) -> Result<Vec<(String, Vec<u8>)>, String> {
    if png.len() < 8 || png[..8] != [0x89, b'P', b'N', b'G', 13, 10, 26, 10] {
        return Err("png signature".into());
    }
    let crc32 = |d: &[u8]| -> u32 {
        let mut c = 0xFFFF_FFFFu32;
        for b in d {
            c ^= *b as u32;
            for _ in 0..8 {
                c = if c & 1 != 0 { (c >> 1) ^ 0xEDB8_8320 } else { c >> 1 };
            }
        }
        !c
    };
    let mut o = 8;
    let mut res = Vec::new();
    while o + 12 <= png.len() {
        let len = u32::from_be_bytes(png[o..o + 4].try_into().unwrap()) as usize;
        if o + 12 + len > png.len() {
            return Err("png chunk length".into());
        }
        let ty = &png[o + 4..o + 8];
        let data = &png[o + 8..o + 8 + len];
        if crc32(&png[o + 4..o + 8 + len]) != u32::from_be_bytes(png[o + 8 + len..o + 12 + len].try_into().unwrap()) {
            return Err("png chunk crc".into());
        }
        if ty == b"zTXt" {
            let z = data.iter().position(|b| *b == 0).ok_or("zTXt keyword")?;
            let kw = String::from_utf8(data[..z].to_vec()).map_err(|_| "zTXt keyword utf8")?;
            if data.len() < z + 2 || data[z + 1] != 0 {
                return Err("zTXt method".into());
            }
            res.push((kw, zlib_inflate(&data[z + 2..])?));
        }
        if ty == b"IEND" {
            break;
        }
        o += 12 + len;
    }
    Ok(res)
}
