//! C04: ANSI files written by the engine parse back to the same picture.
//!
//! correspondence (model = `writeAnsi` in lean/IcyVerif/Model/ArtWriters.lean, reader = ArtIO.lean, driver `artio`):
//!   * `artio write ans <opts> <pic>` : the writer's bytes, byte-exact, over the whole option lattice
//!   * `artio load ans <sauce> <hex>` : the loaded picture (cells + palette tail + ice mode) on writer output, on
//!                                      row-mutated writer output and on grammar-generated token streams
//! oracle (independent of the model): `Buffer::to_bytes("ans", opts) -> Buffer::from_bytes("x.ans")`; per cell the
//! character, the DISPLAYED foreground RGB (bold + colour < 8 shows the bright colour), the background RGB and the blink
//! flag, each in its own buffer's palette.
use crate::art::*;
use crate::c15::ansi_token;
use crate::util::*;
use icy_engine::{Buffer, ColorOptimizer, ControlCharHandling, SauceData, SaveOptions, TextPane};
use std::panic::AssertUnwindSafe;
use std::path::PathBuf;

#[derive(Clone, Copy, Debug, PartialEq, Eq, Hash)]
pub struct Opts {
    pub prep: u8,
    /// 0 ignore, 1 icy term (ESC prefix), 2 filter out
    pub ctrl: u8,
    /// bit 0 compress, 1 cursor forward, 2 repeat sequences, 3 preserve line length, 4 longer terminal output,
    /// 5 extended colours, 6 lossless output, 7 normalize whitespaces
    pub bits: u8,
    pub sauce: bool,
}

impl Opts {
    pub fn num(self) -> u32 {
        self.prep as u32 + 3 * self.ctrl as u32 + 9 * self.bits as u32
    }
    pub fn from_num(n: u32, sauce: bool) -> Opts {
        Opts { prep: (n % 3) as u8, ctrl: (n / 3 % 3) as u8, bits: (n / 9) as u8, sauce }
    }
    /// what the writer model sees (without the optimiser's two bits)
    pub fn model_num(self) -> u32 {
        self.prep as u32 + 3 * self.ctrl as u32 + 9 * (self.bits & 63) as u32
    }
    pub fn lossless(self) -> bool {
        self.bits & 64 != 0
    }
    pub fn save_options(self) -> SaveOptions {
        let mut o = SaveOptions::new();
        o.screen_preparation = crate::c15::prep_of(self.prep);
        o.control_char_handling = match self.ctrl {
            0 => ControlCharHandling::Ignore,
            1 => ControlCharHandling::IcyTerm,
            _ => ControlCharHandling::FilterOut,
        };
        o.compress = self.bits & 1 != 0;
        o.use_cursor_forward = self.bits & 2 != 0;
        o.use_repeat_sequences = self.bits & 4 != 0;
        o.preserve_line_length = self.bits & 8 != 0;
        o.longer_terminal_output = self.bits & 16 != 0;
        o.use_extended_colors = self.bits & 32 != 0;
        o.lossles_output = self.bits & 64 != 0;
        o.normalize_whitespaces = self.bits & 128 != 0;
        o.save_sauce = self.sauce;
        o.modern_terminal_output = false;
        o.output_line_length = None;
        o
    }
}

#[derive(Clone, Debug)]
pub struct Case {
    pub opts: Opts,
    pub pic: Pic,
}

const CONTROL_CHARS: [u32; 8] = [27, 7, 8, 9, 12, 127, 13, 10];
/// flags the writer emits: bold, faint, italic, blink, underline, double underline, conceal, crossed out
const WRITER_FLAGS: u16 = 1 | 2 | 4 | 8 | 16 | 32 | 64 | 128;

impl Case {
    pub fn input(&self) -> String {
        format!("{}:{}:{}", self.opts.num(), self.opts.sauce as u8, self.pic.encode())
    }
    pub fn decode(s: &str) -> Option<Case> {
        let mut it = s.splitn(3, ':');
        let n: u32 = it.next()?.parse().ok()?;
        let sauce = it.next()? != "0";
        let pic = Pic::decode(it.next()?)?;
        Some(Case { opts: Opts::from_num(n, sauce), pic })
    }
    /// the character can be written under the chosen control-character handling
    pub fn encodable(&self, ch: u32) -> bool {
        if ch > 255 {
            return false;
        }
        match self.opts.ctrl {
            0 => ![27u32, 7, 12, 127, 13, 10].contains(&ch),
            1 => true,
            _ => !CONTROL_CHARS.contains(&ch),
        }
    }
    pub fn in_quantifier(&self) -> bool {
        let p = &self.pic;
        let ncol = 16 + p.extra.len() as u32;
        (if self.opts.sauce { (1..=132).contains(&p.w) } else { p.w == 80 })
            && (1..=60).contains(&p.h)
            && p.rows.iter().flatten().all(|c| self.encodable(c.ch) && c.fg < ncol && c.bg < ncol && c.flags & !WRITER_FLAGS == 0 && !(p.ice == 1 && c.flags & 8 != 0))
    }
}

pub fn load_ans(bytes: &[u8]) -> Result<Buffer, String> {
    let name = PathBuf::from("x.ans");
    match catch(AssertUnwindSafe(|| Buffer::from_bytes(&name, true, bytes))) {
        Ok(Ok(b)) => Ok(b),
        Ok(Err(e)) => Err(format!("err:{}", e)),
        Err(loc) => Err(format!("panic:{}", panic_site(&loc))),
    }
}

/// (data without SAUCE, sauce spec for the model)
fn split_sauce(bytes: &[u8]) -> (Vec<u8>, String) {
    match SauceData::extract(bytes) {
        Ok(Some(s)) => {
            let n = bytes.len() - s.sauce_header_len;
            (bytes[..n].to_vec(), format!("{},{},{}", s.buffer_size.width, s.buffer_size.height, s.use_ice as u8))
        }
        _ => (bytes.to_vec(), "-".to_string()),
    }
}

fn show_loaded_ans(buf: &Buffer) -> String {
    crate::c15::show_loaded(crate::c15::Fmt::Asc, buf)
}

fn correspond_load(run: &mut Run, bytes: &[u8], bucket: &str) {
    let (data, sauce) = split_sauce(bytes);
    let obs = match load_ans(bytes) {
        Ok(b) => show_loaded_ans(&b),
        Err(e) => e,
    };
    run.case(&format!("artio load ans {} {}", sauce, hex(&data)), &obs);
    run.count(bucket);
}

/// what is displayed: (char, fg rgb as shown, bg rgb, blink).  The foreground colour is displayed only where the glyph
/// has foreground pixels, the background colour only where it has background pixels (a blank shows no foreground, a
/// full block no background): `None` = not displayed.
fn displayed(buf: &Buffer, x: i32, y: i32) -> (Vec<u8>, Option<(u8, u8, u8)>, Option<(u8, u8, u8)>, bool) {
    let c = buf.get_char((x, y));
    let fg = if c.attribute.is_bold() && c.attribute.get_foreground() < 8 { c.attribute.get_foreground() + 8 } else { c.attribute.get_foreground() };
    let (has_fg, has_bg) = glyph_shape(buf, c.ch);
    // the character as it is shown: its glyph (NUL, space and 0xFF are the same blank in the CP437 font)
    let shown = match buf.get_font(0).and_then(|f| f.get_glyph(c.ch)) {
        Some(g) => g.data.clone(),
        None => (c.ch as u32).to_le_bytes().to_vec(),
    };
    (
        shown,
        if has_fg { Some(buf.palette.get_rgb(fg)) } else { None },
        if has_bg { Some(buf.palette.get_rgb(c.attribute.get_background())) } else { None },
        c.attribute.is_blinking(),
    )
}

/// (glyph has a set pixel, glyph has an unset pixel) in font 0 (8 pixels wide)
fn glyph_shape(buf: &Buffer, ch: char) -> (bool, bool) {
    match buf.get_font(0).and_then(|f| f.get_glyph(ch)) {
        Some(g) => (g.data.iter().any(|r| *r != 0), g.data.iter().any(|r| *r != 0xFF)),
        None => (true, true),
    }
}

fn shape_key(case: &Case, what: &str, x: i32, y: i32, seen: &Buffer) -> String {
    let o = case.opts;
    let c = seen.get_char((x, y));
    let mut k = format!("ans:{}", what);
    if o.bits & 1 != 0 {
        k.push_str(":compress");
        if o.bits & 2 != 0 {
            k.push_str("+cuf");
        }
        if o.bits & 4 != 0 {
            k.push_str("+rep");
        }
    }
    if o.bits & 16 != 0 {
        k.push_str(":longer");
    }
    if c.attribute.is_bold() {
        k.push_str(":bold");
    }
    if c.attribute.is_concealed() {
        k.push_str(":concealed");
    }
    if c.attribute.get_foreground() >= 16 || c.attribute.get_background() >= 16 {
        k.push_str(":extcolor");
    }
    k.push_str(&format!(":ice{}", case.pic.ice));
    k
}

/// the property on the real code: `None` = holds, else (key, what)
fn check_case(case: &Case) -> Option<(String, String)> {
    let buf = case.pic.build();
    let bytes = save(case, &buf);
    let seen = if case.opts.lossless() { buf.flat_clone(false) } else { ColorOptimizer::new(&buf, &case.opts.save_options()).optimize(&buf) };
    check(case, &seen, &bytes)
}

fn check(case: &Case, seen: &Buffer, bytes: &Result<Vec<u8>, String>) -> Option<(String, String)> {
    let p = &case.pic;
    let bytes = match bytes {
        Ok(b) => b,
        Err(e) => return Some((format!("ans:save-{}", e.split(':').next().unwrap_or("err")), format!("to_bytes failed: {}", e))),
    };
    let loaded = match load_ans(bytes) {
        Ok(b) => b,
        Err(e) => return Some((format!("ans:load-{}", e), format!("from_bytes failed: {}", e))),
    };
    let bom = bytes.starts_with(&[0xEF, 0xBB, 0xBF]);
    for y in 0..p.h {
        for x in 0..p.w {
            let e = displayed(seen, x, y);
            let g = displayed(&loaded, x, y);
            if e != g {
                let what = if e.0 != g.0 {
                    "char"
                } else if e.1 != g.1 {
                    "fg"
                } else if e.2 != g.2 {
                    "bg"
                } else {
                    "blink"
                };
                let c = seen.get_char((x, y));
                return Some((
                    if bom { "ans:utf8-bom-prefix".to_string() } else { shape_key(case, what, x, y, seen) },
                    format!(
                        "cell ({},{}) saved ch={} fg={} bg={} flags={} shown with fg {:?} bg {:?} blink {}, loaded ch={} shown with fg {:?} bg {:?} blink {} (file {})",
                        x, y, c.ch as u32, c.attribute.get_foreground(), c.attribute.get_background(), c.attribute.attr, e.1, e.2, e.3,
                        loaded.get_char((x, y)).ch as u32, g.1, g.2, g.3, hex(&split_sauce(bytes).0)
                    ),
                ));
            }
        }
    }
    None
}

/// greedy minimisation that keeps the failure's key
fn shrink(case: &Case, key: &str) -> Case {
    let same = |c: &Case| c.in_quantifier() && check_case(c).map(|(k, _)| k == key).unwrap_or(false);
    let mut best = case.clone();
    let mut progress = true;
    let mut budget = 1500;
    while progress && budget > 0 {
        progress = false;
        // drop rows
        let mut y = 0;
        while y < best.pic.rows.len() && budget > 0 {
            if best.pic.rows.len() > 1 {
                let mut c = best.clone();
                c.pic.rows.remove(y);
                c.pic.h = (c.pic.h - 1).max(c.pic.rows.len() as i32).max(1);
                budget -= 1;
                if same(&c) {
                    best = c;
                    progress = true;
                    continue;
                }
            }
            y += 1;
        }
        if best.pic.h as usize > best.pic.rows.len().max(1) {
            let mut c = best.clone();
            c.pic.h = c.pic.rows.len().max(1) as i32;
            budget -= 1;
            if same(&c) {
                best = c;
                progress = true;
            }
        }
        // drop cells / chunks of cells
        for y in 0..best.pic.rows.len() {
            let mut chunk = best.pic.rows[y].len().max(1);
            while chunk >= 1 && budget > 0 {
                let mut x = 0;
                while x < best.pic.rows[y].len() && budget > 0 {
                    let mut c = best.clone();
                    let end = (x + chunk).min(c.pic.rows[y].len());
                    c.pic.rows[y].drain(x..end);
                    budget -= 1;
                    if same(&c) {
                        best = c;
                        progress = true;
                    } else {
                        x += chunk;
                    }
                }
                if chunk == 1 {
                    break;
                }
                chunk /= 2;
            }
        }
        // simplify cells
        for y in 0..best.pic.rows.len() {
            for x in 0..best.pic.rows[y].len() {
                let orig = best.pic.rows[y][x];
                for cand in [DEFAULT_CELL, PCell { flags: 0, ..orig }, PCell { fg: 7, ..orig }, PCell { bg: 0, ..orig }, PCell { ch: 65, ..orig }, PCell { ch: 32, ..orig }] {
                    if cand == best.pic.rows[y][x] || budget == 0 {
                        continue;
                    }
                    let mut c = best.clone();
                    c.pic.rows[y][x] = cand;
                    budget -= 1;
                    if same(&c) {
                        best = c;
                        progress = true;
                    }
                }
            }
        }
        // simplify options
        for bit in 0..8 {
            if best.opts.bits & (1 << bit) != 0 && bit != 6 && budget > 0 {
                let mut c = best.clone();
                c.opts.bits &= !(1 << bit);
                budget -= 1;
                if same(&c) {
                    best = c;
                    progress = true;
                }
            }
        }
        if best.opts.bits & 64 == 0 {
            let mut c = best.clone();
            c.opts.bits |= 64;
            if same(&c) {
                best = c;
                progress = true;
            }
        }
        for (f, v) in [(0, 0u8), (1, 0u8), (2, 2u8)] {
            let mut c = best.clone();
            match f {
                0 => c.opts.prep = v,
                1 => c.opts.ctrl = v,
                _ => c.pic.ice = v,
            }
            if (c.opts != best.opts || c.pic.ice != best.pic.ice) && same(&c) {
                best = c;
                progress = true;
            }
        }
        if !best.pic.extra.is_empty() {
            let mut c = best.clone();
            c.pic.extra.clear();
            if same(&c) {
                best = c;
                progress = true;
            }
        }
    }
    best
}

fn oracle(run: &mut Run, case: &Case, seen: &Buffer, bytes: &Result<Vec<u8>, String>, seen_keys: &mut std::collections::BTreeSet<String>) {
    if let Some((key, what)) = check(case, seen, bytes) {
        if seen_keys.insert(key.clone()) && seen_keys.len() <= 6 {
            // first failure with this key (at most six keys per run): minimise it
            let small = shrink(case, &key);
            let what2 = check_case(&small).map(|(_, w)| w).unwrap_or(what);
            run.oracle_fail(&key, &small.input(), &what2);
        } else {
            run.oracle_fail(&key, &case.input(), &what);
        }
    }
}

fn save(case: &Case, buf: &Buffer) -> Result<Vec<u8>, String> {
    let o = case.opts.save_options();
    match catch(AssertUnwindSafe(|| buf.to_bytes("ans", &o))) {
        Ok(Ok(b)) => Ok(b),
        Ok(Err(e)) => Err(format!("err:{}", e)),
        Err(loc) => Err(format!("panic:{}", panic_site(&loc))),
    }
}

fn one(run: &mut Run, case: &Case, with_lines: bool, seen_keys: &mut std::collections::BTreeSet<String>) -> Option<Vec<u8>> {
    let buf = case.pic.build();
    let bytes = save(case, &buf);
    run.nontrivial(fnv([case.opts.num() as u64, case.opts.sauce as u64, case.pic.hash()]));
    // the picture the writer is handed
    let seen_buf = if case.opts.lossless() { buf.flat_clone(false) } else { ColorOptimizer::new(&buf, &case.opts.save_options()).optimize(&buf) };
    if with_lines {
        let seen = Pic { rows: cells_of(&seen_buf, case.pic.w, case.pic.h), ..case.pic.clone() };
        let wobs = match &bytes {
            Ok(b) => hex(&split_sauce(b).0),
            Err(e) => e.split(':').next().unwrap_or("err").to_string(),
        };
        run.case(&format!("artio write ans {} {}", case.opts.model_num(), join_i(&seen.ints())), &wobs);
        if let Ok(b) = &bytes {
            correspond_load(run, b, "load:writer-output");
        }
    }
    if case.in_quantifier() {
        oracle(run, case, &seen_buf, &bytes, seen_keys);
        run.count("in-quantifier");
    } else {
        run.count("outside-quantifier");
    }
    bytes.ok()
}

// ------------------------------------------------------------------ generators

fn rand_char(rng: &mut Rng, case_ctrl: u8) -> u32 {
    loop {
        let c = match rng.below(12) {
            0..=4 => rng.range(0x20, 0x7E) as u32,
            5 | 6 => *rng.pick(&[32u32, 32, 32, 219, 176, 65, 0, 255]),
            7 => rng.range(0, 31) as u32,
            8 => *rng.pick(&[27u32, 7, 8, 9, 12, 127, 13, 10, 26, 1]),
            _ => rng.range(0x80, 0xFF) as u32,
        };
        let ok = match case_ctrl {
            0 => ![27u32, 7, 12, 127, 13, 10].contains(&c),
            1 => true,
            _ => !CONTROL_CHARS.contains(&c),
        };
        if ok {
            return c;
        }
    }
}

#[derive(Clone, Copy)]
struct Style {
    ncol: u32,
    flags: bool,
    ice: u8,
}

fn rand_attr(rng: &mut Rng, st: Style) -> (u32, u32, u16) {
    let col = |rng: &mut Rng| -> u32 {
        match rng.below(10) {
            0..=5 => rng.below(16) as u32,
            6 => *rng.pick(&[0u32, 7, 7, 15]),
            _ => rng.below(st.ncol as u64) as u32,
        }
    };
    let mut fl = 0u16;
    if st.flags {
        if rng.chance(1, 4) {
            fl |= 1;
        }
        if st.ice != 1 && rng.chance(1, 4) {
            fl |= 8;
        }
        if rng.chance(1, 6) {
            fl |= *rng.pick(&[2u16, 4, 16, 32, 64, 128]);
        }
    }
    (col(rng), if rng.chance(1, 2) { *rng.pick(&[0u32, 0, 0, 1, 4]) } else { col(rng) }, fl)
}

fn rand_row(rng: &mut Rng, ctrl: u8, len: i32, pool: &[(u32, u32, u16)], st: Style) -> Vec<PCell> {
    let mut row = Vec::new();
    let mut attr = *rng.pick(pool);
    let mut ch = rand_char(rng, ctrl);
    let style = rng.below(4);
    for _ in 0..len {
        if rng.chance(1, if style == 0 { 2 } else { 7 }) {
            attr = if rng.chance(3, 4) { *rng.pick(pool) } else { rand_attr(rng, st) };
        }
        if !(style >= 2 && rng.chance(5, 6)) {
            ch = if style == 3 && rng.chance(1, 2) { 32 } else { rand_char(rng, ctrl) };
        }
        row.push(PCell { ch, fg: attr.0, bg: attr.1, flags: attr.2 });
    }
    row
}

fn rand_pic(rng: &mut Rng, ctrl: u8, w: i32, max_h: i32) -> Pic {
    let h = rng.range(1, max_h as i64) as i32;
    let ice = rng.below(3) as u8;
    let nextra = *rng.pick(&[0usize, 0, 1, 3]);
    let extra: Vec<(u8, u8, u8)> = (0..nextra)
        .map(|k| match k {
            // an xterm-256 colour, a colour that is in neither palette
            0 => (0x5f, 0x87, 0xd7),
            _ => (rng.below(256) as u8, rng.below(256) as u8, rng.below(256) as u8),
        })
        .collect();
    let st = Style { ncol: 16 + nextra as u32, flags: rng.chance(1, 2), ice };
    let pool: Vec<(u32, u32, u16)> = (0..3).map(|_| rand_attr(rng, st)).collect();
    let rows = (0..h)
        .map(|_| {
            let len = match rng.below(8) {
                0 => 0,
                1 => w,
                2 => w - 1,
                3 => (w - rng.range(1, 4) as i32).max(0),
                4 => rng.range(0, 3).min(w as i64) as i32,
                _ => rng.range(0, w as i64) as i32,
            };
            rand_row(rng, ctrl, len, &pool, st)
        })
        .collect();
    Pic { w, h, ice, extra, rows }
}

/// small pictures for the option lattice: 2 rows, a few cells, blanks in interesting places
fn small_pics() -> Vec<Pic> {
    let c = |ch: u32, fg: u32, bg: u32, flags: u16| PCell { ch, fg, bg, flags };
    let mk = |ice: u8, extra: Vec<(u8, u8, u8)>, rows: Vec<Vec<PCell>>| Pic { w: 80, h: rows.len() as i32, ice, extra, rows };
    let blanks = |n: usize, fg: u32, bg: u32| std::iter::repeat(c(32, fg, bg, 0)).take(n).collect::<Vec<_>>();
    let mut v = Vec::new();
    // 0: text, a long run of blanks, text; second row short
    let mut r0 = vec![c(65, 7, 0, 0), c(66, 14, 0, 0)];
    r0.extend(blanks(12, 14, 0));
    r0.push(c(67, 14, 1, 0));
    r0.extend(std::iter::repeat(c(68, 2, 0, 0)).take(9));
    v.push(mk(2, vec![], vec![r0.clone(), vec![c(69, 7, 0, 0)]]));
    // 1: bold / blink flags, blanks with a different foreground, trailing coloured blanks
    let mut r1 = vec![c(65, 1, 0, 1), c(66, 1, 0, 0), c(67, 9, 0, 8), c(68, 7, 0, 0)];
    r1.extend(blanks(10, 3, 0));
    r1.push(c(70, 3, 0, 0));
    r1.extend(blanks(8, 7, 4));
    v.push(mk(0, vec![], vec![r1.clone(), r0.clone()]));
    // 2: ice mode, bright backgrounds
    v.push(mk(1, vec![], vec![vec![c(65, 15, 9, 0), c(32, 7, 12, 0), c(66, 0, 7, 0), c(32, 7, 0, 0), c(67, 7, 0, 0)], vec![c(70, 7, 0, 0)]]));
    // 3: extended colours, full-width row
    let mut r3 = vec![c(65, 16, 0, 0), c(66, 7, 17, 0), c(67, 17, 16, 1)];
    r3.extend(std::iter::repeat(c(219, 4, 0, 0)).take(77));
    v.push(mk(2, vec![(0x5f, 0x87, 0xd7), (1, 2, 3)], vec![r3, vec![c(71, 16, 0, 0), c(32, 16, 0, 0), c(72, 16, 0, 0)]]));
    // 4: extended attributes
    v.push(mk(2, vec![], vec![vec![c(65, 7, 0, 2), c(66, 7, 0, 4), c(67, 7, 0, 16), c(68, 7, 0, 32), c(69, 7, 0, 64), c(70, 7, 0, 128), c(71, 7, 0, 0), c(72, 2, 0, 64), c(73, 2, 0, 0)]]));
    // 5: row of width - 1, then text
    let mut r5: Vec<PCell> = std::iter::repeat(c(88, 7, 0, 0)).take(79).collect();
    r5[40] = c(32, 7, 0, 0);
    v.push(mk(0, vec![], vec![r5, vec![c(89, 7, 0, 0)], vec![], vec![c(90, 12, 0, 0)]]));
    v
}

fn mutate_rows(rng: &mut Rng, bytes: &[u8]) -> Vec<u8> {
    let mut segs: Vec<Vec<u8>> = Vec::new();
    let mut cur = Vec::new();
    let mut i = 0;
    while i < bytes.len() {
        if bytes[i..].starts_with(&[13, 10]) {
            segs.push(std::mem::take(&mut cur));
            i += 2;
        } else {
            cur.push(bytes[i]);
            i += 1;
        }
    }
    segs.push(cur);
    for _ in 0..rng.range(1, 3) {
        match rng.below(4) {
            0 if segs.len() > 1 => {
                let k = rng.below(segs.len() as u64) as usize;
                segs.remove(k);
            }
            1 => {
                let k = rng.below(segs.len() as u64) as usize;
                let s = segs[k].clone();
                segs.insert(k, s);
            }
            2 if segs.len() > 1 => {
                let a = rng.below(segs.len() as u64) as usize;
                let b = rng.below(segs.len() as u64) as usize;
                segs.swap(a, b);
            }
            _ => {
                let k = rng.below(segs.len() as u64 + 1) as usize;
                let mut t = Vec::new();
                ansi_token(rng, false, &mut t);
                segs.insert(k, t);
            }
        }
    }
    let mut out = Vec::new();
    for (k, s) in segs.iter().enumerate() {
        out.extend_from_slice(s);
        if k + 1 < segs.len() && !rng.chance(1, 5) {
            out.extend_from_slice(&[13, 10]);
        }
    }
    if out.starts_with(&[0xEF, 0xBB, 0xBF]) {
        out[0] = b'x';
    }
    out
}

fn token_stream(rng: &mut Rng) -> Vec<u8> {
    let mut out = Vec::new();
    for _ in 0..rng.range(1, 40) {
        match rng.below(8) {
            0..=2 => {
                for _ in 0..rng.range(1, 10) {
                    out.push(match rng.below(6) {
                        0 => rng.range(0x80, 0xFF) as u8,
                        1 => *rng.pick(&[0u8, 1, 8, 9, 26, 255, 7]),
                        _ => *rng.pick(b"abcXYZ019 .#%[];mHCJtbshlDu?-"),
                    });
                }
            }
            3 => out.extend_from_slice(*rng.pick(&[&b"\r\n"[..], b"\r\n", b"\n", b"\r", b"\x0c", b"\x7f"])),
            4 => {
                let b = *rng.pick(b"x -#");
                for _ in 0..rng.range(30, 90) {
                    out.push(b);
                }
            }
            _ => ansi_token(rng, false, &mut out),
        }
    }
    if out.starts_with(&[0xEF, 0xBB, 0xBF]) {
        out[0] = b'x';
    }
    out
}

pub fn run(run: &mut Run, seed: u64, thorough: bool, replay: Option<&str>, corpus: &[String]) {
    if let Some(r) = replay {
        match Case::decode(r.trim()) {
            Some(c) => {
                one(run, &c, true, &mut Default::default());
            }
            None => eprintln!("c04: cannot decode replay input"),
        }
        return;
    }
    let mut seen_keys = std::collections::BTreeSet::new();
    for c in corpus {
        if let Some(c) = Case::decode(c) {
            // replayed findings keep their recorded input: mark the key as seen so it is not re-minimised
            if let Some((k, _)) = check_case(&c) {
                seen_keys.insert(k);
            }
            one(run, &c, true, &mut seen_keys);
        }
    }
    let mut rng = Rng::new(seed);
    // the full option lattice 2^8 x 3 x 3 on small pictures (their ice modes cover the third factor)
    let pics = small_pics();
    let mut lattice = 0u64;
    for n in 0..(9 * 256u32) {
        for (k, pic) in pics.iter().enumerate() {
            if !thorough && (n as usize + k) % pics.len() != (seed as usize) % pics.len() {
                continue;
            }
            for ice in 0..3u8 {
                if !thorough && ice != ((n + seed as u32) % 3) as u8 {
                    continue;
                }
                let mut p = pic.clone();
                if p.ice != ice {
                    // the same picture in another ice mode: blink is not expressible in ice mode
                    p.ice = ice;
                    if ice == 1 {
                        for c in p.rows.iter_mut().flatten() {
                            c.flags &= !8;
                        }
                    }
                }
                let case = Case { opts: Opts::from_num(n, false), pic: p };
                one(run, &case, (n as usize + k) % (if thorough { 8 } else { 4 }) == 0, &mut seen_keys);
                lattice += 1;
            }
        }
    }
    run.extra.push(("option_lattice_cases".into(), lattice.to_string()));
    run.extra.push(("exhaustive_option_lattice".into(), thorough.to_string()));
    // seeded larger pictures, random options
    for k in 0..(if thorough { 4000 } else { 250 }) {
        let opts = Opts { prep: rng.below(3) as u8, ctrl: rng.below(3) as u8, bits: rng.below(256) as u8, sauce: k % 3 == 0 };
        let rw = rng.range(1, 132) as i32;
        let w = if opts.sauce { *rng.pick(&[80i32, 80, 1, 2, 3, 40, 79, 81, 132, rw]) } else { 80 };
        let pic = rand_pic(&mut rng, opts.ctrl, w, if k % 5 == 0 { 60 } else { 6 });
        let case = Case { opts, pic };
        if let Some(b) = one(run, &case, true, &mut seen_keys) {
            if k % 2 == 0 && !opts.sauce {
                let m = mutate_rows(&mut rng, &b);
                correspond_load(run, &m, "load:mutated-writer-output");
            }
        }
    }
    for _ in 0..(if thorough { 6000 } else { 500 }) {
        let st = token_stream(&mut rng);
        correspond_load(run, &st, "load:token-stream");
    }
}
