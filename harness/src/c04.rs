//! C04: ANSI files written by the engine parse back to the same picture.
//!
//! correspondence (model = `writeAnsi` in lean/IcyVerif/Model/ArtWriters.lean, reader = ArtIO.lean, driver `artio`):
//!   * `artio write ans <opts> <pic>` : the writer's bytes, byte-exact, over the whole option lattice
//!   * `artio load ans <sauce> <hex>` : the loaded picture (cells + palette tail + ice mode) on writer output, on
//!                                      row-mutated writer output and on grammar-generated token streams
//! oracle (independent of the model): `Buffer::to_bytes("ans", opts) -> Buffer::from_bytes("x.ans")`; per cell the
//! character, the DISPLAYED foreground RGB (bold + colour < 8 shows the bright colour), the background RGB and the blink
//! flag, each in its own buffer's palette.
use crate::art::*;
use crate::c15::ansi_token;
use crate::util::*;
use icy_engine::{Buffer, ColorOptimizer, ControlCharHandling, SauceData, SaveOptions, TextPane, DOS_DEFAULT_PALETTE, XTERM_256_PALETTE};
use std::panic::AssertUnwindSafe;
use std::path::PathBuf;

#[derive(Clone, Copy, Debug, PartialEq, Eq, Hash)]
pub struct Opts {
    pub prep: u8,
    /// 0 ignore, 1 icy term (ESC prefix), 2 filter out
    pub ctrl: u8,
    /// bit 0 compress, 1 cursor forward, 2 repeat sequences, 3 preserve line length, 4 longer terminal output,
    /// 5 extended colours, 6 lossless output, 7 normalize whitespaces
    pub bits: u8,
    pub sauce: bool,
}

impl Opts {
    pub fn num(self) -> u32 {
        self.prep as u32 + 3 * self.ctrl as u32 + 9 * self.bits as u32
    }
    pub fn from_num(n: u32, sauce: bool) -> Opts {
        Opts { prep: (n % 3) as u8, ctrl: (n / 3 % 3) as u8, bits: (n / 9) as u8, sauce }
    }
    /// what the writer model sees (without the optimiser's two bits)
    pub fn model_num(self) -> u32 {
        self.prep as u32 + 3 * self.ctrl as u32 + 9 * (self.bits & 63) as u32
    }
    pub fn lossless(self) -> bool {
        self.bits & 64 != 0
    }
    pub fn save_options(self) -> SaveOptions {
        let mut o = SaveOptions::new();
        o.screen_preparation = crate::c15::prep_of(self.prep);
        o.control_char_handling = match self.ctrl {
            0 => ControlCharHandling::Ignore,
            1 => ControlCharHandling::IcyTerm,
            _ => ControlCharHandling::FilterOut,
        };
        o.compress = self.bits & 1 != 0;
        o.use_cursor_forward = self.bits & 2 != 0;
        o.use_repeat_sequences = self.bits & 4 != 0;
        o.preserve_line_length = self.bits & 8 != 0;
        o.longer_terminal_output = self.bits & 16 != 0;
        o.use_extended_colors = self.bits & 32 != 0;
        o.lossles_output = self.bits & 64 != 0;
        o.normalize_whitespaces = self.bits & 128 != 0;
        o.save_sauce = self.sauce;
        o.modern_terminal_output = false;
        o.output_line_length = None;
        o
    }
}

#[derive(Clone, Debug)]
pub struct Case {
    pub opts: Opts,
    pub pic: Pic,
    /// palette slots set to another colour after the picture was built (`Palette::set_color`): a custom base palette
    pub base: Vec<(u32, (u8, u8, u8))>,
    /// ANSI font pages installed in the buffer's font slots 1, 2, …; a cell selects slot `(flags >> 10) & 7` (bits
    /// 10..12 of the picture's flag word are not attribute bits: they are stripped when the buffer is built)
    pub fonts: Vec<usize>,
    /// further fonts: (slot 0..=7, ANSI font page, custom): `custom` = the ANSI font with one pixel flipped (a font that
    /// matches no ANSI font page: the writer sends its SLOT number); may replace slot 0 or a slot of `fonts`
    pub xfonts: Vec<(usize, usize, bool)>,
    /// `output_line_length` (`push_result` splits the output with CSI s / CR LF / CSI u)
    pub oll: Option<usize>,
    /// `skip_lines` (rows the writer leaves out when it positions every row with CSI y H)
    pub skip: Option<Vec<usize>>,
}

/// ANSI font pages that keep the property's reading of "CP437 characters": 16 pixel rows like the default font, and
/// NUL, space and 0xFF are blank glyphs (the writer treats them as the same blank; in other code pages 0xFF is a letter)
pub fn cp437_like_fonts() -> Vec<usize> {
    static OK: std::sync::OnceLock<Vec<usize>> = std::sync::OnceLock::new();
    OK.get_or_init(cp437_like_fonts_uncached).clone()
}

fn cp437_like_fonts_uncached() -> Vec<usize> {
    (0..42usize)
        .filter(|p| match icy_engine::BitFont::from_ansi_font_page(*p) {
            Ok(f) => [0u32, 32, 255].iter().all(|c| match f.get_glyph(char::from_u32(*c).unwrap()) {
                Some(g) => g.data.len() == 16 && g.data.iter().all(|r| *r == 0),
                None => false,
            }),
            Err(_) => false,
        })
        .collect()
}

/// the picture-only bits of a cell's flag word that select a font slot
const FONT_BITS: u16 = 7 << 10;
fn font_slot(flags: u16) -> usize {
    ((flags & FONT_BITS) >> 10) as usize
}

const CONTROL_CHARS: [u32; 8] = [27, 7, 8, 9, 12, 127, 13, 10];
/// flags the writer emits: bold, faint, italic, blink, underline, double underline, conceal, crossed out
const WRITER_FLAGS: u16 = 1 | 2 | 4 | 8 | 16 | 32 | 64 | 128;

impl Case {
    /// `<options>[@slot=rrggbb,…]:<sauce>:<picture>`
    pub fn input(&self) -> String {
        let base = if self.base.is_empty() {
            String::new()
        } else {
            format!("@{}", self.base.iter().map(|(i, c)| format!("{}={:02x}{:02x}{:02x}", i, c.0, c.1, c.2)).collect::<Vec<_>>().join(","))
        };
        let fonts = if self.fonts.is_empty() { String::new() } else { format!("#{}", self.fonts.iter().map(|f| f.to_string()).collect::<Vec<_>>().join(".")) };
        let oll = match self.oll {
            Some(n) => format!("%{}", n),
            None => String::new(),
        };
        let skip = match &self.skip {
            Some(v) => format!("${}", v.iter().map(|f| f.to_string()).collect::<Vec<_>>().join(".")),
            None => String::new(),
        };
        let xf = if self.xfonts.is_empty() {
            String::new()
        } else {
            format!("&{}", self.xfonts.iter().map(|(s, p, c)| format!("{}{}{}", s, if *c { 'c' } else { 'a' }, p)).collect::<Vec<_>>().join("."))
        };
        format!("{}{}{}{}{}{}:{}:{}", self.opts.num(), base, fonts, xf, oll, skip, self.opts.sauce as u8, self.pic.encode())
    }
    pub fn decode(s: &str) -> Option<Case> {
        let mut it = s.splitn(3, ':');
        let first = it.next()?;
        let (first, skipstr) = match first.split_once('$') {
            Some((a, b)) => (a, Some(b)),
            None => (first, None),
        };
        let skip = match skipstr {
            Some("") => Some(Vec::new()),
            Some(t) => Some(t.split('.').map(|e| e.parse::<usize>().ok()).collect::<Option<Vec<_>>>()?),
            None => None,
        };
        let (first, ollstr) = match first.split_once('%') {
            Some((a, b)) => (a, Some(b)),
            None => (first, None),
        };
        let oll = match ollstr {
            Some(t) => Some(t.parse::<usize>().ok()?),
            None => None,
        };
        let (first, xfstr) = match first.split_once('&') {
            Some((a, b)) => (a, Some(b)),
            None => (first, None),
        };
        let mut xfonts = Vec::new();
        if let Some(t) = xfstr {
            for e in t.split('.') {
                let k = e.find(|c| c == 'a' || c == 'c')?;
                xfonts.push((e[..k].parse().ok()?, e[k + 1..].parse().ok()?, &e[k..k + 1] == "c"));
            }
        }
        let (first, fontstr) = match first.split_once('#') {
            Some((a, b)) => (a, Some(b)),
            None => (first, None),
        };
        let mut fonts = Vec::new();
        if let Some(f) = fontstr {
            for e in f.split('.') {
                fonts.push(e.parse().ok()?);
            }
        }
        let (num, basestr) = match first.split_once('@') {
            Some((a, b)) => (a, Some(b)),
            None => (first, None),
        };
        let n: u32 = num.parse().ok()?;
        let mut base = Vec::new();
        if let Some(b) = basestr {
            for e in b.split(',') {
                let (i, c) = e.split_once('=')?;
                let v = u32::from_str_radix(c, 16).ok()?;
                base.push((i.parse().ok()?, ((v >> 16) as u8, (v >> 8) as u8, v as u8)));
            }
        }
        let sauce = it.next()? != "0";
        let pic = Pic::decode(it.next()?)?;
        Some(Case { opts: Opts::from_num(n, sauce), pic, base, fonts, xfonts, oll, skip })
    }
    /// the options the buffer is saved with
    pub fn save_options(&self) -> SaveOptions {
        let mut o = self.opts.save_options();
        o.output_line_length = self.oll;
        o.skip_lines = self.skip.clone();
        o
    }
    /// row `y` is left out by the writer (`skip_lines` acts only together with longer-terminal positioning)
    pub fn skipped(&self, y: i32) -> bool {
        self.opts.bits & 16 != 0 && self.skip.as_ref().map(|v| v.contains(&(y as usize))).unwrap_or(false)
    }
    /// the buffer that is saved
    pub fn build(&self) -> Buffer {
        let mut buf = self.pic.build();
        for (i, c) in &self.base {
            buf.palette.set_color(*i, icy_engine::Color::new(c.0, c.1, c.2));
        }
        for (k, page) in self.fonts.iter().enumerate() {
            if let Ok(f) = icy_engine::BitFont::from_ansi_font_page(*page) {
                buf.set_font(k + 1, f);
            }
        }
        for (slot, page, custom) in &self.xfonts {
            if let Ok(mut f) = icy_engine::BitFont::from_ansi_font_page(*page) {
                if *custom {
                    if let Some(g) = f.glyphs.get_mut(&'A') {
                        g.data[0] ^= 1;
                    }
                    f.calculate_checksum();
                }
                buf.set_font(*slot, f);
            }
        }
        if self.has_fonts() {
            for (y, row) in self.pic.rows.iter().enumerate() {
                for (x, c) in row.iter().enumerate() {
                    if c.flags & FONT_BITS != 0 {
                        let mut ch = buf.layers[0].get_char((x as i32, y as i32));
                        ch.attribute.attr = c.flags & !FONT_BITS;
                        ch.attribute.set_font_page(font_slot(c.flags));
                        buf.layers[0].set_char((x as i32, y as i32), ch);
                    }
                }
            }
        }
        buf
    }
    /// some cell selects another font slot than 0 (the writer model has no font pages: oracle only)
    pub fn has_fonts(&self) -> bool {
        self.pic.rows.iter().flatten().any(|c| c.flags & FONT_BITS != 0)
    }
    /// the whole palette of the saved buffer
    pub fn palette(&self) -> Vec<(u8, u8, u8)> {
        let mut pal: Vec<(u8, u8, u8)> = (0..16).map(dos_rgb).collect();
        pal.extend(self.pic.extra.iter().copied());
        for (i, c) in &self.base {
            if pal.len() <= *i as usize {
                pal.resize(*i as usize + 1, (0, 0, 0));
            }
            pal[*i as usize] = *c;
        }
        pal
    }
    /// the character can be written under the chosen control-character handling
    pub fn encodable(&self, ch: u32) -> bool {
        if ch > 255 {
            return false;
        }
        match self.opts.ctrl {
            0 => ![27u32, 7, 12, 127, 13, 10].contains(&ch),
            1 => true,
            _ => !CONTROL_CHARS.contains(&ch),
        }
    }
    /// the ANSI font page in a font slot (`None`: no font, or a font that is no ANSI font)
    pub fn slot_page(&self, slot: usize) -> Option<usize> {
        if let Some((_, p, c)) = self.xfonts.iter().rev().find(|(s, _, _)| *s == slot) {
            return if *c { None } else { Some(*p) };
        }
        if slot == 0 {
            Some(0)
        } else {
            self.fonts.get(slot - 1).copied()
        }
    }
    pub fn in_quantifier(&self) -> bool {
        let p = &self.pic;
        let ncol = self.palette().len() as u32;
        let ok = cp437_like_fonts();
        (if self.opts.sauce { (1..=132).contains(&p.w) } else { p.w == 80 })
            && (1..=60).contains(&p.h)
            // untouched cells are on font page 0
            && self.slot_page(0).map(|f| ok.contains(&f)).unwrap_or(false)
            && p.rows.iter().flatten().all(|c| {
                self.encodable(c.ch)
                    && c.fg < ncol
                    && c.bg < ncol
                    && c.flags & !(WRITER_FLAGS | FONT_BITS) == 0
                    && self.slot_page(font_slot(c.flags)).map(|f| ok.contains(&f)).unwrap_or(false)
                    && !(p.ice == 1 && c.flags & 8 != 0)
            })
    }
}

pub fn load_ans(bytes: &[u8]) -> Result<Buffer, String> {
    let name = PathBuf::from("x.ans");
    match catch(AssertUnwindSafe(|| Buffer::from_bytes(&name, true, bytes))) {
        Ok(Ok(b)) => Ok(b),
        Ok(Err(e)) => Err(format!("err:{}", e)),
        Err(loc) => Err(format!("panic:{}", panic_site(&loc))),
    }
}

/// (data without SAUCE, sauce spec for the model)
fn split_sauce(bytes: &[u8]) -> (Vec<u8>, String) {
    match SauceData::extract(bytes) {
        Ok(Some(s)) => {
            let n = bytes.len() - s.sauce_header_len;
            (bytes[..n].to_vec(), format!("{},{},{}", s.buffer_size.width, s.buffer_size.height, s.use_ice as u8))
        }
        _ => (bytes.to_vec(), "-".to_string()),
    }
}

fn show_loaded_ans(buf: &Buffer) -> String {
    crate::c15::show_loaded(crate::c15::Fmt::Asc, buf)
}

fn correspond_load(run: &mut Run, bytes: &[u8], bucket: &str) {
    let (data, sauce) = split_sauce(bytes);
    let obs = match load_ans(bytes) {
        Ok(b) => show_loaded_ans(&b),
        Err(e) => e,
    };
    run.case(&format!("artio load ans {} {}", sauce, hex(&data)), &obs);
    run.count(bucket);
}

/// what is displayed: (char, fg rgb as shown, bg rgb, blink).  The foreground colour is displayed only where the glyph
/// has foreground pixels, the background colour only where it has background pixels (a blank shows no foreground, a
/// full block no background): `None` = not displayed.
fn displayed(buf: &Buffer, x: i32, y: i32) -> (Vec<u8>, Option<(u8, u8, u8)>, Option<(u8, u8, u8)>, bool) {
    let c = buf.get_char((x, y));
    let fg = if c.attribute.is_bold() && c.attribute.get_foreground() < 8 { c.attribute.get_foreground() + 8 } else { c.attribute.get_foreground() };
    let page = c.get_font_page();
    let (has_fg, has_bg) = glyph_shape(buf, page, c.ch);
    // the character as it is shown: its glyph in the cell's font (NUL, space and 0xFF are the same blank in the CP437 font)
    let shown = match buf.get_font(page).and_then(|f| f.get_glyph(c.ch)) {
        Some(g) => g.data.clone(),
        None => (c.ch as u32).to_le_bytes().to_vec(),
    };
    (
        shown,
        if has_fg { Some(buf.palette.get_rgb(fg)) } else { None },
        if has_bg { Some(buf.palette.get_rgb(c.attribute.get_background())) } else { None },
        c.attribute.is_blinking(),
    )
}

/// (glyph has a set pixel, glyph has an unset pixel) in the font of the cell's page (8 pixels wide)
fn glyph_shape(buf: &Buffer, page: usize, ch: char) -> (bool, bool) {
    match buf.get_font(page).and_then(|f| f.get_glyph(ch)) {
        Some(g) => (g.data.iter().any(|r| *r != 0), g.data.iter().any(|r| *r != 0xFF)),
        None => (true, true),
    }
}

fn shape_key(case: &Case, what: &str, x: i32, y: i32, seen: &Buffer) -> String {
    let o = case.opts;
    let c = seen.get_char((x, y));
    let mut k = format!("ans:{}", what);
    if o.bits & 1 != 0 {
        k.push_str(":compress");
        if o.bits & 2 != 0 {
            k.push_str("+cuf");
        }
        if o.bits & 4 != 0 {
            k.push_str("+rep");
        }
    }
    if o.bits & 16 != 0 {
        k.push_str(":longer");
    }
    if c.attribute.is_bold() {
        k.push_str(":bold");
    }
    if c.attribute.is_concealed() {
        k.push_str(":concealed");
    }
    if c.attribute.get_foreground() >= 16 || c.attribute.get_background() >= 16 {
        k.push_str(":extcolor");
    }
    if c.get_font_page() != 0 {
        k.push_str(":font");
    }
    if case.oll.is_some() {
        k.push_str(":linelen");
    }
    if case.skip.is_some() && o.bits & 16 != 0 {
        k.push_str(":skip");
    }
    k.push_str(&format!(":ice{}", case.pic.ice));
    k
}

/// the property on the real code: `None` = holds, else (key, what)
fn check_case(case: &Case) -> Option<(String, String)> {
    let buf = case.build();
    let bytes = save(case, &buf);
    let seen = if case.opts.lossless() { buf.flat_clone(false) } else { ColorOptimizer::new(&buf, &case.save_options()).optimize(&buf) };
    check(case, &seen, &bytes)
}

fn check(case: &Case, seen: &Buffer, bytes: &Result<Vec<u8>, String>) -> Option<(String, String)> {
    let p = &case.pic;
    let bytes = match bytes {
        Ok(b) => b,
        Err(e) => return Some((format!("ans:save-{}", e.split(':').next().unwrap_or("err")), format!("to_bytes failed: {}", e))),
    };
    let loaded = match load_ans(bytes) {
        Ok(b) => b,
        Err(e) => return Some((format!("ans:load-{}", e), format!("from_bytes failed: {}", e))),
    };
    let bom = bytes.starts_with(&[0xEF, 0xBB, 0xBF]);
    for y in 0..p.h {
        if case.skipped(y) {
            // the writer was told to leave this row out
            continue;
        }
        for x in 0..p.w {
            let e = displayed(seen, x, y);
            let g = displayed(&loaded, x, y);
            if e != g {
                let what = if e.0 != g.0 {
                    "char"
                } else if e.1 != g.1 {
                    "fg"
                } else if e.2 != g.2 {
                    "bg"
                } else {
                    "blink"
                };
                let c = seen.get_char((x, y));
                return Some((
                    if bom { "ans:utf8-bom-prefix".to_string() } else { shape_key(case, what, x, y, seen) },
                    format!(
                        "cell ({},{}) saved ch={} fg={} bg={} flags={} shown with fg {:?} bg {:?} blink {}, loaded ch={} shown with fg {:?} bg {:?} blink {} (file {})",
                        x, y, c.ch as u32, c.attribute.get_foreground(), c.attribute.get_background(), c.attribute.attr, e.1, e.2, e.3,
                        loaded.get_char((x, y)).ch as u32, g.1, g.2, g.3, hex(&split_sauce(bytes).0)
                    ),
                ));
            }
        }
    }
    None
}

/// greedy minimisation that keeps the failure's key
fn shrink(case: &Case, key: &str) -> Case {
    let same = |c: &Case| c.in_quantifier() && check_case(c).map(|(k, _)| k == key).unwrap_or(false);
    let mut best = case.clone();
    let mut progress = true;
    let mut budget = 1500;
    while progress && budget > 0 {
        progress = false;
        // drop rows
        let mut y = 0;
        while y < best.pic.rows.len() && budget > 0 {
            if best.pic.rows.len() > 1 {
                let mut c = best.clone();
                c.pic.rows.remove(y);
                c.pic.h = (c.pic.h - 1).max(c.pic.rows.len() as i32).max(1);
                budget -= 1;
                if same(&c) {
                    best = c;
                    progress = true;
                    continue;
                }
            }
            y += 1;
        }
        if best.pic.h as usize > best.pic.rows.len().max(1) {
            let mut c = best.clone();
            c.pic.h = c.pic.rows.len().max(1) as i32;
            budget -= 1;
            if same(&c) {
                best = c;
                progress = true;
            }
        }
        // drop cells / chunks of cells
        for y in 0..best.pic.rows.len() {
            let mut chunk = best.pic.rows[y].len().max(1);
            while chunk >= 1 && budget > 0 {
                let mut x = 0;
                while x < best.pic.rows[y].len() && budget > 0 {
                    let mut c = best.clone();
                    let end = (x + chunk).min(c.pic.rows[y].len());
                    c.pic.rows[y].drain(x..end);
                    budget -= 1;
                    if same(&c) {
                        best = c;
                        progress = true;
                    } else {
                        x += chunk;
                    }
                }
                if chunk == 1 {
                    break;
                }
                chunk /= 2;
            }
        }
        // simplify cells
        for y in 0..best.pic.rows.len() {
            for x in 0..best.pic.rows[y].len() {
                let orig = best.pic.rows[y][x];
                for cand in [DEFAULT_CELL, PCell { flags: 0, ..orig }, PCell { fg: 7, ..orig }, PCell { bg: 0, ..orig }, PCell { ch: 65, ..orig }, PCell { ch: 32, ..orig }] {
                    if cand == best.pic.rows[y][x] || budget == 0 {
                        continue;
                    }
                    let mut c = best.clone();
                    c.pic.rows[y][x] = cand;
                    budget -= 1;
                    if same(&c) {
                        best = c;
                        progress = true;
                    }
                }
            }
        }
        // simplify options
        for bit in 0..8 {
            if best.opts.bits & (1 << bit) != 0 && bit != 6 && budget > 0 {
                let mut c = best.clone();
                c.opts.bits &= !(1 << bit);
                budget -= 1;
                if same(&c) {
                    best = c;
                    progress = true;
                }
            }
        }
        if best.opts.bits & 64 == 0 {
            let mut c = best.clone();
            c.opts.bits |= 64;
            if same(&c) {
                best = c;
                progress = true;
            }
        }
        for (f, v) in [(0, 0u8), (1, 0u8), (2, 2u8)] {
            let mut c = best.clone();
            match f {
                0 => c.opts.prep = v,
                1 => c.opts.ctrl = v,
                _ => c.pic.ice = v,
            }
            if (c.opts != best.opts || c.pic.ice != best.pic.ice) && same(&c) {
                best = c;
                progress = true;
            }
        }
        if !best.pic.extra.is_empty() {
            let mut c = best.clone();
            c.pic.extra.clear();
            if same(&c) {
                best = c;
                progress = true;
            }
        }
    }
    let mut k = 0;
    while k < best.base.len() {
        let mut c = best.clone();
        c.base.remove(k);
        if same(&c) {
            best = c;
        } else {
            k += 1;
        }
    }
    if !best.xfonts.is_empty() {
        let mut c = best.clone();
        c.xfonts.clear();
        if same(&c) {
            best = c;
        }
    }
    if best.oll.is_some() {
        let mut c = best.clone();
        c.oll = None;
        if same(&c) {
            best = c;
        }
    }
    if best.skip.is_some() {
        let mut c = best.clone();
        c.skip = None;
        if same(&c) {
            best = c;
        }
    }
    if !best.fonts.is_empty() && !best.has_fonts() {
        let mut c = best.clone();
        c.fonts.clear();
        if same(&c) {
            best = c;
        }
    }
    // drop the palette entries no cell uses (indices renumbered)
    if !best.pic.extra.is_empty() && best.base.iter().all(|(i, _)| *i < 16) {
        let c = compact_palette(&best);
        if c.pic.extra.len() < best.pic.extra.len() && same(&c) {
            best = c;
        }
    }
    best
}

/// the same picture with the unused extra palette entries removed
fn compact_palette(case: &Case) -> Case {
    let mut used: Vec<u32> = case.pic.rows.iter().flatten().flat_map(|c| [c.fg, c.bg]).filter(|i| *i >= 16).collect();
    used.sort();
    used.dedup();
    let mut c = case.clone();
    c.pic.extra = used.iter().filter_map(|i| case.pic.extra.get(*i as usize - 16).copied()).collect();
    let remap = |i: u32| if i >= 16 { used.iter().position(|u| *u == i).map(|k| 16 + k as u32).unwrap_or(i) } else { i };
    for cell in c.pic.rows.iter_mut().flatten() {
        cell.fg = remap(cell.fg);
        cell.bg = remap(cell.bg);
    }
    c
}

fn oracle(run: &mut Run, case: &Case, seen: &Buffer, bytes: &Result<Vec<u8>, String>, seen_keys: &mut std::collections::BTreeSet<String>) {
    if let Some((key, what)) = check(case, seen, bytes) {
        if seen_keys.insert(key.clone()) && seen_keys.len() <= 6 {
            // first failure with this key (at most six keys per run): minimise it
            let small = shrink(case, &key);
            let what2 = check_case(&small).map(|(_, w)| w).unwrap_or(what);
            run.oracle_fail(&key, &small.input(), &what2);
        } else {
            // not minimised: at least drop the palette entries no cell uses (keeps the replay readable)
            let small = if case.base.iter().all(|(i, _)| *i < 16) { compact_palette(case) } else { case.clone() };
            if small.in_quantifier() && check_case(&small).map(|(k, _)| k == key).unwrap_or(false) {
                run.oracle_fail(&key, &small.input(), &what);
            } else {
                run.oracle_fail(&key, &case.input(), &what);
            }
        }
    }
}

fn save(case: &Case, buf: &Buffer) -> Result<Vec<u8>, String> {
    let o = case.save_options();
    match catch(AssertUnwindSafe(|| buf.to_bytes("ans", &o))) {
        Ok(Ok(b)) => Ok(b),
        Ok(Err(e)) => Err(format!("err:{}", e)),
        Err(loc) => Err(format!("panic:{}", panic_site(&loc))),
    }
}

/// the ANSI font pages' checksums (`generate_ansi_font_map` compares checksums)
fn ansi_font_checksums() -> Vec<u32> {
    static CS: std::sync::OnceLock<Vec<u32>> = std::sync::OnceLock::new();
    CS.get_or_init(|| (0..icy_engine::ANSI_FONTS).map(|i| icy_engine::BitFont::from_ansi_font_page(i).map(|f| f.get_checksum()).unwrap_or(0)).collect()).clone()
}

/// the buffer's occupied font slots for the writer model: `slot=page` (first ANSI font page with the same checksum) or `slot=x`
fn font_slots(buf: &Buffer) -> String {
    let cs = ansi_font_checksums();
    let mut v: Vec<(usize, Option<usize>)> = buf.font_iter().map(|(slot, f)| (*slot, cs.iter().position(|c| *c == f.get_checksum()))).collect();
    v.sort();
    if v == vec![(0, Some(0))] {
        return "-".to_string();
    }
    v.iter().map(|(s, p)| format!("{}={}", s, p.map(|p| p.to_string()).unwrap_or("x".to_string()))).collect::<Vec<_>>().join(",")
}

/// the font page of every cell, rows joined by `/`, runs as `n*page`
fn font_pages(buf: &Buffer, w: i32, h: i32) -> String {
    let rows: Vec<Vec<usize>> = (0..h).map(|y| (0..w).map(|x| buf.get_char((x, y)).get_font_page()).collect()).collect();
    if rows.iter().flatten().all(|p| *p == 0) {
        return "-".to_string();
    }
    rows.iter()
        .map(|r| {
            let mut r = r.clone();
            while r.last() == Some(&0) {
                r.pop();
            }
            if r.is_empty() {
                return "e".to_string();
            }
            let mut parts = Vec::new();
            let mut i = 0;
            while i < r.len() {
                let mut j = i;
                while j + 1 < r.len() && r[j + 1] == r[i] {
                    j += 1;
                }
                parts.push(if j > i { format!("{}*{}", j - i + 1, r[i]) } else { r[i].to_string() });
                i = j + 1;
            }
            parts.join(",")
        })
        .collect::<Vec<_>>()
        .join("/")
}

/// which branches of the writer the case went through, read off the options and the file it produced (evidence histogram)
fn writer_branches(run: &mut Run, case: &Case, seen: &Buffer, file: &[u8]) {
    let data = split_sauce(file).0;
    let o = case.opts;
    let find = |pat: &[u8]| data.windows(pat.len()).any(|w| w == pat);
    let count = |pat: &[u8]| data.windows(pat.len()).filter(|w| *w == pat).count();
    let splits = count(b"\x1b[s\r\n\x1b[u");
    if let Some(n) = case.oll {
        run.count(if splits == 0 { "w:linelen:no-split" } else if splits < 4 { "w:linelen:1-3-splits" } else { "w:linelen:4+-splits" });
        // a line that ends exactly at the split column / one byte past it (line = bytes between CR LF)
        let mut start = 0;
        let mut exact = false;
        let mut over = false;
        for i in 0..data.len() {
            if i + 1 < data.len() && data[i] == 13 && data[i + 1] == 10 {
                let l = i - start;
                exact |= l == n;
                over |= l == n + 1;
                start = i + 2;
            }
        }
        if exact {
            run.count("w:linelen:line-ends-at-limit");
        }
        if over {
            run.count("w:linelen:line-one-past-limit");
        }
        if n < 8 {
            run.count("w:linelen:below-8");
        }
    }
    if case.skip.is_some() {
        let eff = (0..case.pic.h).filter(|y| case.skipped(*y)).count();
        run.count(if o.bits & 16 == 0 { "w:skip:ignored(no longer-terminal)" } else if eff == 0 { "w:skip:none-effective" } else if case.skipped(0) { "w:skip:first-row" } else { "w:skip:rows" });
    }
    if find(b" D") && data.windows(4).any(|w| w == b"\x1b[0;") {
        run.count("w:font-switch");
    }
    let slots = font_slots(seen);
    if slots.contains("=x") {
        run.count("w:font-slot-custom");
    }
    if o.bits & 1 != 0 {
        let has = |fin: u8| {
            // CSI n <fin> with decimal n
            let mut i = 0;
            while i + 2 < data.len() {
                if data[i] == 27 && data[i + 1] == b'[' {
                    let mut j = i + 2;
                    while j < data.len() && data[j].is_ascii_digit() {
                        j += 1;
                    }
                    if j > i + 2 && j < data.len() && data[j] == fin {
                        return true;
                    }
                }
                i += 1;
            }
            false
        };
        if o.bits & 2 != 0 && has(b'C') {
            run.count("w:cuf");
        }
        if o.bits & 4 != 0 && has(b'b') {
            run.count("w:rep");
        }
    }
    if o.bits & 16 != 0 {
        run.count("w:longer-terminal");
    }
    if data.starts_with(b"\x1b[0m\xef\xbb\xbf") {
        run.count("w:bom-guard");
    }
    if find(b"t") && data.windows(2).any(|w| w == b"\x1b[") && find(b";") && case.palette().len() > 16 {
        run.count("w:extra-colours");
    }
}

fn one(run: &mut Run, case: &Case, with_lines: bool, seen_keys: &mut std::collections::BTreeSet<String>) -> Option<Vec<u8>> {
    let buf = case.build();
    let bytes = save(case, &buf);
    run.nontrivial(fnv([case.opts.num() as u64, case.opts.sauce as u64, case.pic.hash(), case.oll.map(|n| n as u64 + 1).unwrap_or(0), fnv(case.skip.iter().flatten().map(|y| *y as u64 + 1))]));
    // the picture the writer is handed
    let seen_buf = if case.opts.lossless() { buf.flat_clone(false) } else { ColorOptimizer::new(&buf, &case.save_options()).optimize(&buf) };
    if with_lines {
        let seen = Pic { rows: cells_of(&seen_buf, case.pic.w, case.pic.h), ..case.pic.clone() };
        let wobs = match &bytes {
            Ok(b) => hex(&split_sauce(b).0),
            Err(e) => e.split(':').next().unwrap_or("err").to_string(),
        };
        let ints = if case.base.is_empty() { seen.ints() } else { seen.ints_with_palette(&case.palette()) };
        let oll = case.oll.map(|n| n.to_string()).unwrap_or("-".to_string());
        let skip = match &case.skip {
            None => "-".to_string(),
            Some(v) if v.is_empty() => "e".to_string(),
            Some(v) => v.iter().map(|y| y.to_string()).collect::<Vec<_>>().join(","),
        };
        run.case(&format!("artio writex ans {} {} {} {} {} {}", case.opts.model_num(), oll, skip, font_slots(&seen_buf), font_pages(&seen_buf, case.pic.w, case.pic.h), join_i(&ints)), &wobs);
        if let Ok(b) = &bytes {
            writer_branches(run, case, &seen_buf, b);
            // (outside the quantifier the file may hold raw control characters: not the reader model's sub-language)
            if case.in_quantifier() {
                correspond_load(run, b, "load:writer-output");
            }
        }
    }
    if let Err(e) = &bytes {
        run.count(if e.starts_with("panic") { "w:save-panic(font page without font)" } else { "w:save-error" });
    }
    if case.has_fonts() {
        run.count("font-pages");
    }
    if !case.base.is_empty() {
        run.count("custom-base-palette");
    }
    if case.in_quantifier() {
        oracle(run, case, &seen_buf, &bytes, seen_keys);
        run.count("in-quantifier");
    } else {
        run.count("outside-quantifier");
    }
    bytes.ok()
}

// ------------------------------------------------------------------ generators

fn rand_char(rng: &mut Rng, case_ctrl: u8) -> u32 {
    loop {
        let c = match rng.below(12) {
            0..=4 => rng.range(0x20, 0x7E) as u32,
            5 | 6 => *rng.pick(&[32u32, 32, 32, 219, 176, 65, 0, 255]),
            7 => rng.range(0, 31) as u32,
            8 => *rng.pick(&[27u32, 7, 8, 9, 12, 127, 13, 10, 26, 1]),
            _ => rng.range(0x80, 0xFF) as u32,
        };
        let ok = match case_ctrl {
            0 => ![27u32, 7, 12, 127, 13, 10].contains(&c),
            1 => true,
            _ => !CONTROL_CHARS.contains(&c),
        };
        if ok {
            return c;
        }
    }
}

#[derive(Clone, Copy)]
struct Style {
    ncol: u32,
    flags: bool,
    ice: u8,
}

fn rand_attr(rng: &mut Rng, st: Style) -> (u32, u32, u16) {
    let col = |rng: &mut Rng| -> u32 {
        match rng.below(10) {
            0..=5 => rng.below(16) as u32,
            6 => *rng.pick(&[0u32, 7, 7, 15]),
            _ => rng.below(st.ncol as u64) as u32,
        }
    };
    let mut fl = 0u16;
    if st.flags {
        if rng.chance(1, 4) {
            fl |= 1;
        }
        if st.ice != 1 && rng.chance(1, 4) {
            fl |= 8;
        }
        if rng.chance(1, 6) {
            fl |= *rng.pick(&[2u16, 4, 16, 32, 64, 128]);
        }
    }
    (col(rng), if rng.chance(1, 2) { *rng.pick(&[0u32, 0, 0, 1, 4]) } else { col(rng) }, fl)
}

fn rand_row(rng: &mut Rng, ctrl: u8, len: i32, pool: &[(u32, u32, u16)], st: Style) -> Vec<PCell> {
    let mut row = Vec::new();
    let mut attr = *rng.pick(pool);
    let mut ch = rand_char(rng, ctrl);
    let style = rng.below(4);
    for _ in 0..len {
        if rng.chance(1, if style == 0 { 2 } else { 7 }) {
            attr = if rng.chance(3, 4) { *rng.pick(pool) } else { rand_attr(rng, st) };
        }
        if !(style >= 2 && rng.chance(5, 6)) {
            ch = if style == 3 && rng.chance(1, 2) { 32 } else { rand_char(rng, ctrl) };
        }
        row.push(PCell { ch, fg: attr.0, bg: attr.1, flags: attr.2 });
    }
    row
}

fn rand_pic(rng: &mut Rng, ctrl: u8, w: i32, max_h: i32) -> Pic {
    let h = rng.range(1, max_h as i64) as i32;
    let ice = rng.below(3) as u8;
    let nextra = *rng.pick(&[0usize, 0, 1, 3, 6]);
    let extra: Vec<(u8, u8, u8)> = (0..nextra)
        .map(|k| match k {
            // an xterm-256 colour (the ends of the table more often), a value next to a palette colour, a colour that
            // is in neither palette
            0 | 3 => xterm_rgb(if rng.chance(1, 3) { *rng.pick(&[16usize, 231, 232, 254, 255]) } else { rng.below(256) as usize }),
            4 => {
                let base = if rng.chance(1, 2) { dos_rgb(rng.below(16) as usize) } else { xterm_rgb(rng.below(256) as usize) };
                let near = neighbours(base);
                *rng.pick(&near)
            }
            _ => (rng.below(256) as u8, rng.below(256) as u8, rng.below(256) as u8),
        })
        .collect();
    let st = Style { ncol: 16 + nextra as u32, flags: rng.chance(1, 2), ice };
    let pool: Vec<(u32, u32, u16)> = (0..3).map(|_| rand_attr(rng, st)).collect();
    let rows = (0..h)
        .map(|_| {
            let len = match rng.below(8) {
                0 => 0,
                1 => w,
                2 => w - 1,
                3 => (w - rng.range(1, 4) as i32).max(0),
                4 => rng.range(0, 3).min(w as i64) as i32,
                _ => rng.range(0, w as i64) as i32,
            };
            rand_row(rng, ctrl, len, &pool, st)
        })
        .collect();
    Pic { w, h, ice, extra, rows }
}

/// a custom base palette: a few slots hold another DOS colour (two slots, one colour), an xterm colour, a value next to
/// a palette colour or any RGB value; slot 0 (the colour of untouched cells) and the slots below 8 are hit most often
fn rand_base(rng: &mut Rng, ncol: u32) -> Vec<(u32, (u8, u8, u8))> {
    let mut v: Vec<(u32, (u8, u8, u8))> = Vec::new();
    for _ in 0..rng.range(1, 4) {
        let slot = match rng.below(6) {
            0 => 0,
            1 | 2 => rng.below(8) as u32,
            3 => rng.range(8, 15) as u32,
            4 => rng.below(ncol as u64) as u32,
            _ => 7,
        };
        let col = match rng.below(6) {
            0 | 1 => dos_rgb(rng.below(16) as usize),
            2 => xterm_rgb(rng.below(256) as usize),
            3 => {
                let near = neighbours(dos_rgb(rng.below(16) as usize));
                *rng.pick(&near)
            }
            4 => (0, 0, 0),
            _ => (rng.below(256) as u8, rng.below(256) as u8, rng.below(256) as u8),
        };
        v.retain(|(i, _)| *i != slot);
        v.push((slot, col));
    }
    v
}

/// small pictures for the option lattice: 2 rows, a few cells, blanks in interesting places
fn small_pics() -> Vec<Pic> {
    let c = |ch: u32, fg: u32, bg: u32, flags: u16| PCell { ch, fg, bg, flags };
    let mk = |ice: u8, extra: Vec<(u8, u8, u8)>, rows: Vec<Vec<PCell>>| Pic { w: 80, h: rows.len() as i32, ice, extra, rows };
    let blanks = |n: usize, fg: u32, bg: u32| std::iter::repeat(c(32, fg, bg, 0)).take(n).collect::<Vec<_>>();
    let mut v = Vec::new();
    // 0: text, a long run of blanks, text; second row short
    let mut r0 = vec![c(65, 7, 0, 0), c(66, 14, 0, 0)];
    r0.extend(blanks(12, 14, 0));
    r0.push(c(67, 14, 1, 0));
    r0.extend(std::iter::repeat(c(68, 2, 0, 0)).take(9));
    v.push(mk(2, vec![], vec![r0.clone(), vec![c(69, 7, 0, 0)]]));
    // 1: bold / blink flags, blanks with a different foreground, trailing coloured blanks
    let mut r1 = vec![c(65, 1, 0, 1), c(66, 1, 0, 0), c(67, 9, 0, 8), c(68, 7, 0, 0)];
    r1.extend(blanks(10, 3, 0));
    r1.push(c(70, 3, 0, 0));
    r1.extend(blanks(8, 7, 4));
    v.push(mk(0, vec![], vec![r1.clone(), r0.clone()]));
    // 2: ice mode, bright backgrounds
    v.push(mk(1, vec![], vec![vec![c(65, 15, 9, 0), c(32, 7, 12, 0), c(66, 0, 7, 0), c(32, 7, 0, 0), c(67, 7, 0, 0)], vec![c(70, 7, 0, 0)]]));
    // 3: extended colours, full-width row
    let mut r3 = vec![c(65, 16, 0, 0), c(66, 7, 17, 0), c(67, 17, 16, 1)];
    r3.extend(std::iter::repeat(c(219, 4, 0, 0)).take(77));
    v.push(mk(2, vec![(0x5f, 0x87, 0xd7), (1, 2, 3)], vec![r3, vec![c(71, 16, 0, 0), c(32, 16, 0, 0), c(72, 16, 0, 0)]]));
    // 4: extended attributes
    v.push(mk(2, vec![], vec![vec![c(65, 7, 0, 2), c(66, 7, 0, 4), c(67, 7, 0, 16), c(68, 7, 0, 32), c(69, 7, 0, 64), c(70, 7, 0, 128), c(71, 7, 0, 0), c(72, 2, 0, 64), c(73, 2, 0, 0)]]));
    // 5: row of width - 1, then text
    let mut r5: Vec<PCell> = std::iter::repeat(c(88, 7, 0, 0)).take(79).collect();
    r5[40] = c(32, 7, 0, 0);
    v.push(mk(0, vec![], vec![r5, vec![c(89, 7, 0, 0)], vec![], vec![c(90, 12, 0, 0)]]));
    v
}


// ------------------------------------------------------------------ colour pictures

fn xterm_rgb(i: usize) -> (u8, u8, u8) {
    XTERM_256_PALETTE[i].1.get_rgb()
}

fn dos_rgb(i: usize) -> (u8, u8, u8) {
    DOS_DEFAULT_PALETTE[i].get_rgb()
}

/// every value one step away (in one component) from `c`
fn neighbours(c: (u8, u8, u8)) -> Vec<(u8, u8, u8)> {
    let mut v = Vec::new();
    for k in 0..3 {
        for d in [-1i16, 1] {
            let mut t = [c.0 as i16, c.1 as i16, c.2 as i16];
            t[k] += d;
            if (0..=255).contains(&t[k]) {
                v.push((t[0] as u8, t[1] as u8, t[2] as u8));
            }
        }
    }
    v
}

/// pictures whose point is the COLOUR path of writer and reader: every xterm-256 index as foreground and as background
/// (written as `38;5;n` / `48;5;n` with extended colours, as `CSI 1/0;r;g;b t` without), the values next to palette
/// colours (always 24-bit), all 16 x 16 DOS pairs (bright backgrounds in every ice mode), and rows in which foreground
/// and background change TOGETHER from one kind of colour to another (one SGR sequence carries both changes: a
/// rejected parameter loses both).  (name, picture)
fn colour_pics() -> Vec<(&'static str, Pic, Vec<(u32, (u8, u8, u8))>)> {
    let c = |ch: u32, fg: u32, bg: u32, flags: u16| PCell { ch, fg, bg, flags };
    let xterm: Vec<(u8, u8, u8)> = (0..256).map(xterm_rgb).collect();
    let mk = |extra: &Vec<(u8, u8, u8)>, rows: Vec<Vec<PCell>>| Pic { w: 80, h: rows.len() as i32, ice: 2, extra: extra.clone(), rows };
    let mut v0: Vec<(&'static str, Pic)> = Vec::new();
    let v = &mut v0;
    // 16 x 16 swatches: palette index 16 + n is xterm colour n
    v.push(("swatch-fg", mk(&xterm, (0..16u32).map(|y| (0..16u32).map(|x| c(65 + (x + y) % 26, 16 + y * 16 + x, 0, 0)).collect()).collect())));
    v.push(("swatch-bg", mk(&xterm, (0..16u32).map(|y| (0..16u32).map(|x| c(if (x + y) % 3 == 0 { 32 } else { 97 + x }, 7, 16 + y * 16 + x, 0)).collect()).collect())));
    v.push(("swatch-both", mk(&xterm, (0..16u32).map(|y| (0..16u32).map(|x| c(48 + x, 16 + y * 16 + x, 16 + 255 - (y * 16 + x), if x % 5 == 0 { 1 } else { 0 })).collect()).collect())));
    // foreground / background change kind in the same cell transition: (xterm, DOS) -> (DOS, xterm) -> (xterm, xterm) -> (DOS, DOS)
    let mut cells = Vec::new();
    for n in 0..256u32 {
        cells.push(c(35, 16 + n, n % 8, 0));
        cells.push(c(36, (n * 7) % 16, 16 + n, 0));
        if n % 4 == 0 {
            cells.push(c(37, 16 + (n + 128) % 256, 16 + 255 - n, 0));
            cells.push(c(38, (n / 4) % 16, (n / 4 + 1) % 8, 0));
        }
    }
    v.push(("kind-changes", mk(&xterm, cells.chunks(80).map(|r| r.to_vec()).collect())));
    // the values next to palette colours: never in a table, always 24-bit
    let mut bases: Vec<(u8, u8, u8)> = (0..16).map(dos_rgb).collect();
    bases.extend([0usize, 7, 8, 15, 16, 17, 21, 196, 231, 232, 243, 254, 255].iter().map(|i| xterm_rgb(*i)));
    let mut near: Vec<(u8, u8, u8)> = Vec::new();
    for b in &bases {
        for n in std::iter::once(*b).chain(neighbours(*b)) {
            if !near.contains(&n) && !(0..16).any(|i| dos_rgb(i) == n) {
                near.push(n);
            }
        }
    }
    let mut cells = Vec::new();
    for n in 0..near.len() as u32 {
        cells.push(c(66, 16 + n, (n % 3) * 2, 0));
        cells.push(c(67, 7 + (n % 2) * 8, 16 + n, 0));
    }
    v.push(("near-palette", mk(&near, cells.chunks(80).map(|r| r.to_vec()).collect())));
    // all 16 x 16 DOS pairs; odd rows blink (cleared in ice mode), some cells bold
    v.push(("dos-pairs", mk(&Vec::new(), (0..16u32).map(|bg| (0..16u32).map(|fg| c(if fg == bg { 32 } else { 65 + fg }, fg, bg, (if bg % 2 == 1 { 8 } else { 0 }) | (if fg % 4 == 1 { 1 } else { 0 }))).collect()).collect())));
    // runs of blanks on extended / bright backgrounds between text (cursor forward and repeat must not swallow them)
    let mut r = vec![c(65, 16 + 255, 0, 0)];
    r.extend(std::iter::repeat(c(32, 7, 16 + 255, 0)).take(9));
    r.extend(std::iter::repeat(c(32, 7, 0, 0)).take(9));
    r.extend(std::iter::repeat(c(32, 16 + 254, 12, 0)).take(9));
    r.extend(std::iter::repeat(c(219, 16 + 255, 16 + 16, 0)).take(9));
    r.push(c(66, 15, 16 + 255, 1));
    v.push(("blank-runs", mk(&xterm, vec![r.clone(), vec![c(67, 16 + 255, 16 + 232, 0)], r])));
    let mut out: Vec<(&'static str, Pic, Vec<(u32, (u8, u8, u8))>)> = v0.into_iter().map(|(n, p)| (n, p, Vec::new())).collect();
    // custom base palettes.  (a) slots below 8 hold OTHER dark DOS colours, then bright cells follow (SGR 1 brightens
    // the colour the terminal is on, not the slot); (b) colour 0 is not black: blanks on colour 0 must be written
    let none: Vec<(u8, u8, u8)> = Vec::new();
    let mut cells = Vec::new();
    for i in 0..8u32 {
        cells.push(c(65 + i, i, 0, 0));
        cells.push(c(97 + i, 8 + (i + 3) % 8, 0, 0));
        cells.push(c(48 + i, i, 0, 1));
    }
    out.push(("slots-permuted", mk(&none, vec![cells.clone()]), (0..8u32).map(|i| (i, dos_rgb(((i + 1) % 8) as usize))).collect()));
    out.push(("slots-duplicated", mk(&none, vec![cells]), vec![(3, dos_rgb(4)), (5, dos_rgb(4)), (9, dos_rgb(1)), (2, (1, 2, 3))]));
    let mut r = vec![c(65, 7, 0, 0)];
    r.extend(std::iter::repeat(c(32, 7, 0, 0)).take(12));
    r.push(c(66, 7, 1, 0));
    out.push(("colour0-not-black", mk(&none, vec![r.clone(), vec![c(67, 7, 0, 0)], r.clone()]), vec![(0, (1, 2, 3))]));
    out.push(("colour0-bright", mk(&none, vec![r.clone(), vec![], r]), vec![(0, dos_rgb(8)), (8, (0, 0, 0))]));
    out
}


/// pictures whose point is GEOMETRY under a SAUCE width: marks and runs of plain blanks (cursor-forward candidates) left
/// and right of column 80, at the right margin, in the last row; widths 1..=132
fn wide_pics() -> Vec<Pic> {
    let c = |ch: u32, fg: u32, bg: u32| PCell { ch, fg, bg, flags: 0 };
    let mut v = Vec::new();
    for w in [1i32, 2, 5, 6, 40, 79, 80, 81, 86, 100, 131, 132] {
        let mut rows: Vec<Vec<PCell>> = Vec::new();
        // marks at both ends
        let mut r: Vec<PCell> = (0..w).map(|_| c(32, 7, 0)).collect();
        r[0] = c(65, 7, 0);
        r[w as usize - 1] = c(66, 2, 0);
        rows.push(r);
        // a mark in every 7th column: gaps of 6 plain blanks all along the row
        rows.push((0..w).map(|x| if x % 7 == 0 { c(67, 3, 0) } else { c(32, 7, 0) }).collect());
        // one long gap that ends 1, 2, 6 cells before the margin
        for back in [1i32, 2, 6] {
            if w > back + 1 {
                let mut r: Vec<PCell> = (0..w - back).map(|_| c(32, 7, 0)).collect();
                r[0] = c(68, 4, 0);
                r.push(c(69, 5, 1));
                rows.push(r);
            }
        }
        // a short row, an empty row, a full row of blocks, text after a gap in the last row
        rows.push(vec![c(70, 7, 0)]);
        rows.push(vec![]);
        rows.push((0..w).map(|x| c(219, (x % 16) as u32, 0)).collect());
        let mut r: Vec<PCell> = (0..(w - 1).max(0)).map(|_| c(32, 7, 0)).collect();
        r.push(c(71, 14, 0));
        rows.push(r);
        v.push(Pic { w, h: rows.len() as i32, ice: 0, extra: vec![], rows });
    }
    v
}

/// SGR / 24-bit tokens on the boundaries of the colour tables, for the reader correspondence
fn colour_token(rng: &mut Rng, out: &mut Vec<u8>) {
    let idx = |rng: &mut Rng| -> i64 {
        match rng.below(4) {
            0 => *rng.pick(&[0i64, 7, 8, 15, 16, 231, 232, 254, 255, 256, 257, 1000]),
            _ => rng.range(0, 255),
        }
    };
    let comp = |rng: &mut Rng| -> i64 {
        match rng.below(4) {
            0 => *rng.pick(&[0i64, 1, 84, 85, 86, 170, 254, 255, 256]),
            _ => rng.range(0, 255),
        }
    };
    let mut ps: Vec<String> = Vec::new();
    for _ in 0..rng.range(1, 3) {
        ps.push(match rng.below(8) {
            0 | 1 => format!("38;5;{}", idx(rng)),
            2 | 3 => format!("48;5;{}", idx(rng)),
            4 => format!("38;2;{};{};{}", comp(rng), comp(rng), comp(rng)),
            5 => format!("48;2;{};{};{}", comp(rng), comp(rng), comp(rng)),
            6 => (*rng.pick(&[0i64, 1, 5, 31, 44, 37, 40])).to_string(),
            _ => (*rng.pick(&["38", "48", "38;5", "48;2;1", "38;7;1"])).to_string(),
        });
    }
    if rng.chance(1, 5) {
        out.extend_from_slice(format!("\x1b[{};{};{};{}t", rng.range(0, 2), comp(rng), comp(rng), comp(rng)).as_bytes());
    } else {
        out.extend_from_slice(format!("\x1b[{}m", ps.join(";")).as_bytes());
    }
}

fn colour_stream(rng: &mut Rng) -> Vec<u8> {
    let mut out = Vec::new();
    for _ in 0..rng.range(2, 24) {
        colour_token(rng, &mut out);
        for _ in 0..rng.range(0, 3) {
            out.push(*rng.pick(b"abc #"));
        }
        if rng.chance(1, 8) {
            out.extend_from_slice(b"\x1b[?33h");
        }
    }
    out
}

fn mutate_rows(rng: &mut Rng, bytes: &[u8]) -> Vec<u8> {
    let mut segs: Vec<Vec<u8>> = Vec::new();
    let mut cur = Vec::new();
    let mut i = 0;
    while i < bytes.len() {
        if bytes[i..].starts_with(&[13, 10]) {
            segs.push(std::mem::take(&mut cur));
            i += 2;
        } else {
            cur.push(bytes[i]);
            i += 1;
        }
    }
    segs.push(cur);
    for _ in 0..rng.range(1, 3) {
        match rng.below(4) {
            0 if segs.len() > 1 => {
                let k = rng.below(segs.len() as u64) as usize;
                segs.remove(k);
            }
            1 => {
                let k = rng.below(segs.len() as u64) as usize;
                let s = segs[k].clone();
                segs.insert(k, s);
            }
            2 if segs.len() > 1 => {
                let a = rng.below(segs.len() as u64) as usize;
                let b = rng.below(segs.len() as u64) as usize;
                segs.swap(a, b);
            }
            _ => {
                let k = rng.below(segs.len() as u64 + 1) as usize;
                let mut t = Vec::new();
                ansi_token(rng, false, &mut t);
                segs.insert(k, t);
            }
        }
    }
    let mut out = Vec::new();
    for (k, s) in segs.iter().enumerate() {
        out.extend_from_slice(s);
        if k + 1 < segs.len() && !rng.chance(1, 5) {
            out.extend_from_slice(&[13, 10]);
        }
    }
    if out.starts_with(&[0xEF, 0xBB, 0xBF]) {
        out[0] = b'x';
    }
    out
}

fn token_stream(rng: &mut Rng) -> Vec<u8> {
    let mut out = Vec::new();
    for _ in 0..rng.range(1, 40) {
        match rng.below(8) {
            0..=2 => {
                for _ in 0..rng.range(1, 10) {
                    out.push(match rng.below(6) {
                        0 => rng.range(0x80, 0xFF) as u8,
                        1 => *rng.pick(&[0u8, 1, 8, 9, 26, 255, 7]),
                        _ => *rng.pick(b"abcXYZ019 .#%[];mHCJtbshlDu?-"),
                    });
                }
            }
            3 => out.extend_from_slice(*rng.pick(&[&b"\r\n"[..], b"\r\n", b"\n", b"\r", b"\x0c", b"\x7f"])),
            4 => {
                let b = *rng.pick(b"x -#");
                for _ in 0..rng.range(30, 90) {
                    out.push(b);
                }
            }
            _ => ansi_token(rng, false, &mut out),
        }
    }
    if out.starts_with(&[0xEF, 0xBB, 0xBF]) {
        out[0] = b'x';
    }
    out
}

pub fn run(run: &mut Run, seed: u64, thorough: bool, replay: Option<&str>, corpus: &[String]) {
    if let Some(r) = replay {
        match Case::decode(r.trim()) {
            Some(c) => {
                one(run, &c, true, &mut Default::default());
            }
            None => eprintln!("c04: cannot decode replay input"),
        }
        return;
    }
    let mut seen_keys = std::collections::BTreeSet::new();
    for c in corpus {
        if let Some(c) = Case::decode(c) {
            // replayed findings keep their recorded input: mark the key as seen so it is not re-minimised
            if let Some((k, _)) = check_case(&c) {
                seen_keys.insert(k);
            }
            one(run, &c, true, &mut seen_keys);
        }
    }
    let mut rng = Rng::new(seed);
    // the full option lattice 2^8 x 3 x 3 on small pictures (their ice modes cover the third factor)
    let pics = small_pics();
    let mut lattice = 0u64;
    for n in 0..(9 * 256u32) {
        for (k, pic) in pics.iter().enumerate() {
            if !thorough && (n as usize + k) % pics.len() != (seed as usize) % pics.len() {
                continue;
            }
            for ice in 0..3u8 {
                if !thorough && ice != ((n + seed as u32) % 3) as u8 {
                    continue;
                }
                let mut p = pic.clone();
                if p.ice != ice {
                    // the same picture in another ice mode: blink is not expressible in ice mode
                    p.ice = ice;
                    if ice == 1 {
                        for c in p.rows.iter_mut().flatten() {
                            c.flags &= !8;
                        }
                    }
                }
                let case = Case { opts: Opts::from_num(n, false), pic: p, base: vec![], fonts: vec![], xfonts: vec![], oll: None, skip: None };
                one(run, &case, (n as usize + k) % (if thorough { 8 } else { 4 }) == 0, &mut seen_keys);
                lattice += 1;
            }
        }
    }
    run.extra.push(("option_lattice_cases".into(), lattice.to_string()));
    run.extra.push(("exhaustive_option_lattice".into(), thorough.to_string()));
    // colour pictures: every xterm-256 index, near-palette RGB values, all DOS pairs, kind changes — in all three ice
    // modes, with extended colours on and off, under the default options and under seeded / (thorough) all encodings
    let mut colour_cases = 0u64;
    for (k, (_name, pic, base)) in colour_pics().iter().enumerate() {
        for ice in 0..3u8 {
            let mut p = pic.clone();
            p.ice = ice;
            if ice == 1 {
                for c in p.rows.iter_mut().flatten() {
                    c.flags &= !8;
                }
            }
            let mut encs: Vec<u8> = Vec::new();
            if thorough {
                encs.extend(0..64u8);
            } else {
                // default encoding with and without extended colours, plain, everything on, and two seeded ones
                encs.extend([0b100011u8, 0b000011, 0, 0b100000, 0b101111, 0b001111, 0b110101, 0b010111]);
                encs.push(rng.below(64) as u8);
                encs.push(rng.below(64) as u8);
            }
            for (j, enc) in encs.iter().enumerate() {
                // the colour optimiser is exercised on every second point (bit 6 = lossless output)
                let bits = enc | if (j + k) % 2 == 0 { 64 } else { 128 };
                let opts = Opts { prep: ((j + k) % 3) as u8, ctrl: 1, bits, sauce: false };
                let case = Case { opts, pic: p.clone(), base: base.clone(), fonts: vec![], xfonts: vec![], oll: None, skip: None };
                one(run, &case, (j + k + ice as usize) % (if thorough { 16 } else { 5 }) == 0, &mut seen_keys);
                colour_cases += 1;
            }
        }
    }
    run.extra.push(("colour_picture_cases".into(), colour_cases.to_string()));
    // geometry pictures: every width with the SAUCE record carrying it (width 80 also without), 10 encodings in quick
    let mut wide_cases = 0u64;
    for (k, pic) in wide_pics().iter().enumerate() {
        let mut encs: Vec<u8> = Vec::new();
        if thorough {
            encs.extend(0..32u8);
        } else {
            encs.extend([0b00011u8, 0b00001, 0, 0b00111, 0b01111, 0b11111, 0b10011, 0b00101]);
            encs.push(rng.below(32) as u8);
            encs.push(rng.below(32) as u8);
        }
        for (j, enc) in encs.iter().enumerate() {
            let opts = Opts { prep: ((j + k) % 3) as u8, ctrl: 1, bits: enc | 32 | 64, sauce: true };
            let mut p = pic.clone();
            p.ice = ((j + k) % 3) as u8;
            let case = Case { opts, pic: p, base: vec![], fonts: vec![], xfonts: vec![], oll: None, skip: None };
            one(run, &case, (j + k) % (if thorough { 8 } else { 3 }) == 0, &mut seen_keys);
            wide_cases += 1;
            if pic.w == 80 && j % 2 == 0 {
                let case = Case { opts: Opts { sauce: false, ..opts }, pic: pic.clone(), base: vec![], fonts: vec![], xfonts: vec![], oll: None, skip: None };
                one(run, &case, false, &mut seen_keys);
                wide_cases += 1;
            }
        }
    }
    run.extra.push(("geometry_picture_cases".into(), wide_cases.to_string()));
    // ---- the writer's remaining features, family by family (every branch of the writer model; histogram `w:*`)
    let mut feature_cases = 0u64;
    // (1) output_line_length: for each small picture and encoding, limits read off the UNSPLIT file - exactly the length of
    //     its first / longest line (the line ends at the split column), one below, one above - and fixed small limits
    let encs: Vec<u8> = if thorough { (0..32u8).collect() } else { vec![0b00011, 0, 0b00111, 0b10011, rng.below(32) as u8] };
    for (k, pic) in small_pics().iter().enumerate() {
        for (j, enc) in encs.iter().enumerate() {
            let opts = Opts { prep: ((j + k) % 3) as u8, ctrl: 1, bits: enc | 32 | 64, sauce: false };
            let plain = Case { opts, pic: pic.clone(), base: vec![], fonts: vec![], xfonts: vec![], oll: None, skip: None };
            let mut limits: Vec<usize> = vec![0, 1, 7, 8, 9];
            if let Ok(b) = save(&plain, &plain.build()) {
                let mut lens: Vec<usize> = b.split(|c| *c == 10).map(|l| l.len().saturating_sub(1)).collect();
                lens.push(b.len());
                lens.sort();
                lens.dedup();
                for l in [lens[0], lens[lens.len() / 2], lens[lens.len() - 1]] {
                    limits.extend([l.saturating_sub(1), l, l + 1]);
                }
            }
            limits.sort();
            limits.dedup();
            for (i, n) in limits.iter().enumerate() {
                if !thorough && (i + j + k + seed as usize) % 3 != 0 {
                    continue;
                }
                let case = Case { oll: Some(*n), ..plain.clone() };
                one(run, &case, true, &mut seen_keys);
                feature_cases += 1;
            }
        }
    }
    // (2) skip_lines with longer-terminal positioning: nothing, first row, last row, every row, a row below the picture,
    //     a row listed twice; also with a line-length limit; and WITHOUT longer-terminal positioning (ignored)
    for (k, pic) in small_pics().iter().chain(wide_pics().iter().filter(|p| p.w == 80)).enumerate() {
        let h = pic.h as usize;
        let skips: Vec<Vec<usize>> = vec![vec![], vec![0], vec![h - 1], (0..h).collect(), vec![h], vec![0, 0, h / 2], (0..h).filter(|y| y % 2 == 1).collect()];
        for (j, sk) in skips.iter().enumerate() {
            if !thorough && (j + k + seed as usize) % 2 != 0 {
                continue;
            }
            let bits = [0b10011u8, 0b10000, 0b10111, 0b00011][(j + k) % 4] | 32 | 64;
            let opts = Opts { prep: (j % 3) as u8, ctrl: 1, bits, sauce: false };
            let oll = if (j + k) % 3 == 0 { Some(12 + j) } else { None };
            let case = Case { opts, pic: pic.clone(), base: vec![], fonts: vec![], xfonts: vec![], oll, skip: Some(sk.clone()) };
            one(run, &case, true, &mut seen_keys);
            feature_cases += 1;
        }
    }
    // (3) font pages: slot 0 replaced by another ANSI font, two slots with the SAME font (runs continue across them? no:
    //     the mapped page is equal, the scan compares mapped pages), a custom font (sent as its slot number), a cell on a page
    //     without font (`unwrap` panic), font changes inside runs of equal characters / blanks, at row starts, in skipped rows
    {
        let ok = cp437_like_fonts();
        let c = |ch: u32, fg: u32, bg: u32, slot: u16| PCell { ch, fg, bg, flags: slot << 10 };
        let mut rows: Vec<Vec<PCell>> = Vec::new();
        // runs of equal cells that change font in the middle; blanks in another font; the font kept across the row break
        let mut r: Vec<PCell> = (0..12).map(|x| c(88, 7, 0, if x < 6 { 0 } else { 1 })).collect();
        r.extend((0..10).map(|x| c(32, 7, 0, if x < 5 { 1 } else { 2 })));
        r.extend((0..8).map(|_| c(89, 2, 0, 2)));
        rows.push(r);
        rows.push((0..9).map(|x| c(65 + x, 7, 0, 2)).collect());
        rows.push((0..9).map(|x| c(65 + x, 7, 0, (x % 3) as u16)).collect());
        rows.push(vec![c(90, 14, 1, 3), c(90, 14, 1, 3), c(90, 14, 1, 0)]);
        let pic = Pic { w: 80, h: rows.len() as i32, ice: 2, extra: vec![], rows };
        let f = |i: usize| ok[i % ok.len()];
        let font_sets: Vec<(Vec<usize>, Vec<(usize, usize, bool)>)> = vec![
            (vec![f(3), f(5), f(7)], vec![]),
            (vec![f(3), f(3), f(7)], vec![]),                   // slots 1 and 2 hold the same font
            (vec![f(3), f(5), f(7)], vec![(0, f(9), false)]),   // slot 0 is not the default font
            (vec![f(3), f(5), 0], vec![]),                      // slot 3 holds the default font (page 0)
            (vec![f(3), f(5), f(7)], vec![(2, f(11), true)]),   // a custom font in slot 2
            (vec![f(3), f(5)], vec![]),                         // slot 3 has no font: panic in generate_cells
            (vec![f(3), f(5), f(7)], vec![(0, f(2), true)]),    // a custom font in slot 0
        ];
        for (j, (fonts, xfonts)) in font_sets.iter().enumerate() {
            for (i, bits) in [0b00011u8, 0, 0b00111, 0b10011, 0b01101].iter().enumerate() {
                if !thorough && (i + j + seed as usize) % 2 != 0 {
                    continue;
                }
                let opts = Opts { prep: (i % 3) as u8, ctrl: 1, bits: bits | 32 | 64, sauce: false };
                let skip = if bits & 16 != 0 { Some(vec![1usize]) } else { None };
                let oll = if i % 2 == 1 { Some(9 + i * 7) } else { None };
                let case = Case { opts, pic: pic.clone(), base: vec![], fonts: fonts.clone(), xfonts: xfonts.clone(), oll, skip };
                one(run, &case, true, &mut seen_keys);
                feature_cases += 1;
            }
        }
    }
    // (4) the UTF-8 indicator: pictures whose file would start with EF BB BF - alone, followed by ASCII, by bytes that are not
    //     UTF-8, with a second row - under every screen preparation / ice mode / positioning / line-length limit
    {
        let c = |ch: u32| PCell { ch, fg: 7, bg: 0, flags: 0 };
        let heads: Vec<Vec<PCell>> = vec![
            vec![c(239), c(187), c(191)],
            vec![c(239), c(187), c(191), c(65), c(66)],
            vec![c(239), c(187), c(191), c(200), c(65)],
            vec![c(239), c(187), c(191), c(195), c(169)],
            vec![c(239), c(187), c(65)],
            vec![PCell { ch: 239, fg: 2, bg: 0, flags: 0 }, c(187), c(191)],
        ];
        for (j, head) in heads.iter().enumerate() {
            for ice in 0..3u8 {
                for (i, (bits, prep, oll)) in [(0u8, 0u8, None), (0b00011, 0, None), (0, 1, None), (0b10000, 0, None), (0, 0, Some(2usize)), (0b00011, 0, Some(100)), (0, 2, Some(0))].iter().enumerate() {
                    if !thorough && (i + j + ice as usize + seed as usize) % 2 != 0 {
                        continue;
                    }
                    let pic = Pic { w: 80, h: 2, ice, extra: vec![], rows: vec![head.clone(), vec![c(90)]] };
                    let opts = Opts { prep: *prep, ctrl: 1, bits: bits | 32 | 64, sauce: j % 2 == 1 };
                    let case = Case { opts, pic, base: vec![], fonts: vec![], xfonts: vec![], oll: *oll, skip: None };
                    one(run, &case, true, &mut seen_keys);
                    feature_cases += 1;
                }
            }
        }
    }
    run.extra.push(("writer_feature_cases".into(), feature_cases.to_string()));
    // seeded larger pictures, random options
    for k in 0..(if thorough { 4000 } else { 250 }) {
        let opts = Opts { prep: rng.below(3) as u8, ctrl: rng.below(3) as u8, bits: rng.below(256) as u8, sauce: k % 3 == 0 };
        let rw = rng.range(1, 132) as i32;
        let w = if opts.sauce { *rng.pick(&[80i32, 80, 1, 2, 3, 40, 79, 81, 132, rw]) } else { 80 };
        // one picture in twelve holds characters the control-character mode cannot encode (FilterOut writes '.', Ignore the
        // raw byte): outside the quantifier, the writer model is still tied on them
        let chars_ctrl = if k % 12 == 7 { 1 } else { opts.ctrl };
        let mut pic = rand_pic(&mut rng, chars_ctrl, w, if k % 5 == 0 { 60 } else { 6 });
        if k % 6 == 2 {
            // rows at the bottom that were never touched (the buffer is taller than what was drawn)
            let keep = rng.range(0, pic.rows.len() as i64) as usize;
            pic.rows.truncate(keep);
        }
        let base = if k % 4 == 1 { rand_base(&mut rng, 16 + pic.extra.len() as u32) } else { Vec::new() };
        // one picture in eight uses other font pages: ANSI fonts in slots 1..=3, runs of cells select them
        let mut fonts = Vec::new();
        if k % 8 == 3 {
            let ok = cp437_like_fonts();
            fonts = (0..rng.range(1, 3)).map(|_| *rng.pick(&ok)).collect();
            for row in pic.rows.iter_mut() {
                let mut slot = 0u16;
                for c in row.iter_mut() {
                    if rng.chance(1, 6) {
                        slot = rng.below(fonts.len() as u64 + 1) as u16;
                    }
                    c.flags |= slot << 10;
                }
            }
        }
        // one picture in four is saved with a maximal output line length (CSI s / CR LF / CSI u splitting), one in six with
        // rows to leave out (effective together with longer-terminal positioning)
        let oll = if k % 4 == 2 { Some(*rng.pick(&[0usize, 1, 2, 3, 4, 5, 7, 10, 16, 20, 40, 78, 79, 80, 81, 100, 160, 200, 1000])) } else { None };
        let skip = if k % 6 == 4 {
            let n = pic.h.max(1) as u64;
            Some((0..rng.range(0, 3)).map(|_| rng.below(n + 1) as usize).collect::<Vec<_>>())
        } else {
            None
        };
        let mut opts = opts;
        if skip.is_some() && rng.chance(3, 4) {
            opts.bits |= 16;
        }
        // font pictures: now and then slot 0 holds another ANSI font, or one of the slots a custom font (outside the quantifier)
        let mut xfonts = Vec::new();
        if !fonts.is_empty() && rng.chance(1, 3) {
            let ok = cp437_like_fonts();
            xfonts.push((if rng.chance(1, 2) { 0 } else { rng.range(1, fonts.len() as i64) as usize }, *rng.pick(&ok), rng.chance(1, 3)));
        }
        let case = Case { opts, pic, base, fonts, xfonts, oll, skip };
        if let Some(b) = one(run, &case, true, &mut seen_keys) {
            if k % 2 == 0 && !opts.sauce {
                let m = mutate_rows(&mut rng, &b);
                correspond_load(run, &m, "load:mutated-writer-output");
            }
        }
    }
    for _ in 0..(if thorough { 6000 } else { 500 }) {
        let st = token_stream(&mut rng);
        correspond_load(run, &st, "load:token-stream");
    }
    for _ in 0..(if thorough { 3000 } else { 300 }) {
        let st = colour_stream(&mut rng);
        correspond_load(run, &st, "load:colour-token-stream");
    }
}
